--------------------------- MODULE KinesisReader ---------------------------
(* Implementation-shaped model of reduction's Kinesis SOURCE READER together
   with the Kinesis splitter and the part of the job / source runner that
   carries split assignments, cursors and checkpoints between them (the
   "resumed from its checkpointed position" half of property C16):

     connectors/kinesis/source_reader.go   ReadEvents (one GetRecords page of
                                           ONE shard per call, round robin over
                                           assignedShards), AssignSplits,
                                           Checkpoint, refreshShardIterator
     connectors/kinesis/source_splitter.go Start / discovery round /
       + split_tracker.go                  NotifySplitsFinished / Checkpoint
     workers/sourcerunner/source_runner.go processEvents: one loop takes, in any
                                           order, an assignment message
                                           (splitsWereAssigned), a read function
                                           or a checkpoint barrier
     jobs/job.go, storage/snapshots        AssignSplits hook -> task queue ->
                                           runner; split states of runner r are
                                           taken at r's BARRIER, the splitter's
                                           Checkpoint() when the LAST ack arrives

   The stream (here the repo's kinesisfake) is part of the model: shards in
   creation order with hash range, parents, closed flag and the number of
   records put; record i of shard s has sequence number i (1-based here,
   i - 1 in the fake).  The definitions of the splitter part (Idx, DA) are those
   of Splitter.tla (repaired code); what is new is everything below the
   AssignSplits hook:

     Deliver(r)     the runner loop takes the next assignment message and calls
                    SourceReader.AssignSplits (cursor "" -> 0, else the sequence
                    number of the last record emitted before the cut)
     Read(r, lim)   one ReadEvents call: the shard at shardIndex; no iterator ->
                    GetShardIterator(TRIM_HORIZON | AFTER_SEQUENCE_NUMBER cursor);
                    GetRecords returns a page of at most lim records (partial
                    batches; lim is the fake's GetRecords limit); expired
                    iterator -> refresh from the cursor and retry; a closed
                    shard read to its end returns no next iterator: the page is
                    still emitted, NotifySplitsFinished is forwarded and the
                    shard leaves assignedShards
     Expire         every iterator handed out so far expires (5 minutes pass)
     Barrier(r)     SourceReader.Checkpoint() of runner r in its loop
     Start(r)       kill everything, new readers, NewSourceSplitter + Start(latest
                    completed checkpoint) with r runners

   Ghost state carries what the property talks about: em[s] = number of records
   of shard s emitted in the current TIMELINE (a restore rewinds the timeline to
   the cut of the restored checkpoint: em[s] at the barrier of the runner that
   reads s), fin = shards read to their end in the timeline.  Every page read
   is judged when it is read:

     repeat  a record emitted before (at or below em[s]) is read again
     gap     a record is skipped (the page starts above em[s] + 1)
     early   a record of a child shard is read while a parent has unread records
   and as state predicates: Positions (every held or in-flight split stands at
   em[s]), NoneLost (every unfinished shard whose parents are finished is held,
   in flight, or handed out by the next discovery round), OneReader.

   Named deviations = what the code does (TRUE) against a mechanism that keeps
   the property (FALSE):
     Dev_StateAtCompletion   (known, DESIGN 7 #27) see Splitter.tla
   The model is the REPAIRED code (fix commit on branch kreader of the repo). The
   switch Pre_CursorAtReaderOnly re-enables what the code did before; the check
   uses it to show that the invariants are not vacuous and to replay the
   schedules only the unrepaired code fails (the real code must keep the
   property on them):
     Pre_CursorAtReaderOnly  a restored cursor lived in the splitter's memory
                             (SourceSplitter.cursors) and in the reader once the
                             assignment was delivered, but only the READER's
                             cursors were checkpointed: a checkpoint whose barrier
                             overtakes the delivery of the assignment message in
                             the runner loop held the shard (splitter state) but
                             no cursor => after the next restore the shard was
                             read again from TRIM_HORIZON.
                             FALSE (repaired): the splitter state keeps the
                             restored cursor of every tracked shard; a split state
                             reported by a reader supersedes it.
   Non-vacuity switches (never the code): Bug_AtSeq = iterators are fetched AT
   the cursor instead of AFTER it; Bug_StaleSplitterCursor = on restore the
   cursor kept in the splitter state wins over the reader's split state (the
   wrong way round); its counterexample schedules are replayed on the code too.                                              *)
EXTENDS Integers, Sequences, FiniteSets, TLC, Json

CONSTANTS NInit,       \* shards of the new stream
          MaxShards,   \* shards ever created
          Runners,     \* possible runner counts, e.g. {1, 2}
          MaxRec,      \* records per shard
          MaxPage,     \* GetRecords page limits 1..MaxPage
          MaxStarts,   \* (re)starts per behaviour
          MaxCkpts,    \* completed checkpoints per behaviour
          MaxLen,      \* steps per behaviour (generation only)
          LogOn,       \* FALSE: no history (exhaustive runs)
          Dev_StateAtCompletion, Pre_CursorAtReaderOnly, Bug_AtSeq, Bug_StaleSplitterCursor

VARIABLES shards,      \* the stream: <<[lo, hi, par, closed, n], ...>>
          up, R,       \* a splitter incarnation is running, its runner count
          known, asg,  \* SplitTracker.knownSplits / assignedSplits
          last,        \* SplitTracker.LastAssignedSplitID (0 = "")
          scur,        \* SourceSplitter.cursors (from the restored checkpoint; -1 = none)
          inbox,       \* inbox[r] = assignment messages on their way to runner r (task queue + splitsWereAssigned)
          asn,         \* asn[r] = SourceReader.assignedShards of runner r (in order)
          ridx,        \* ridx[r] = SourceReader.shardIndex
          rseq,        \* rseq[s] = assignedShard.sequenceNumber (0 = "")
          itst,        \* itst[s] = 0 no iterator, 1 valid, 2 expired
          own,         \* ghost: own[s] = runner s is handed to (0 = nobody)
          em,          \* ghost: records of s emitted in the current timeline
          fin, finBy,  \* ghost: finished in the timeline / by which runner of this incarnation (0 = before the cut)
          pend, barr,  \* a job checkpoint is pending; runners past their barrier
          pcur, pcut,  \* cursors captured so far (-1 = none) / cut positions fixed so far
          pfin,        \* shards finished at the cut so far
          K,           \* the latest completed checkpoint
          whyS, whyC,  \* ghost: shards dropped by Dev_StateAtCompletion / cursors dropped by Pre_CursorAtReaderOnly
          bad,         \* ghost: violations produced by the last action
          nst, nck,    \* (re)starts / completed checkpoints so far
          hist

vars == <<shards, up, R, known, asg, last, scur, inbox, asn, ridx, rseq, itst, own, em, fin, finBy,
          pend, barr, pcur, pcut, pfin, K, whyS, whyC, bad, nst, nck, hist>>
View == <<shards, up, R, known, asg, last, scur, inbox, asn, ridx, rseq, itst, own, em, fin, finBy,
          pend, barr, pcur, pcut, pfin, K, whyS, whyC, bad, nst, nck>>

D    == NInit * 64
All  == 1..MaxShards
RR   == 1..3
N    == Len(shards)
Ids  == 1..N
Par(s) == shards[s].par
Max(S) == CHOOSE x \in S : \A y \in S : y <= x
Min2(a, b) == IF a < b THEN a ELSE b
Max2(a, b) == IF a > b THEN a ELSE b
NoCur  == [s \in All |-> -1]
Zero   == [s \in All |-> 0]
ZeroR  == [r \in RR |-> 0]
NoSeq  == [r \in RR |-> <<>>]

\* uniformlyAssignShard: floor(midpoint / 2^128 * r), at most r-1 (0-based)
Idx(s, r) == LET m == ((shards[s].lo + shards[s].hi) * r) \div (2 * D)
             IN  (IF m > r - 1 THEN r - 1 ELSE m) + 1

\* ListShards(ExclusiveStartShardId = l) + AddSplits + AvailableSplits + TrackAssigned (as Splitter.tla, repaired code)
DA(kn0, asg0, last0) ==
  LET kn1 == kn0 \cup {i \in Ids : i > last0}
      av  == {s \in kn1 \ asg0 : \A p \in Par(s) : p \notin kn1}
  IN  [known |-> kn1, avail |-> av, asg |-> asg0 \cup av,
       last  |-> IF av = {} THEN last0 ELSE IF Max(av) > last0 THEN Max(av) ELSE last0]

SetSeq(S) == SelectSeq([i \in 1..MaxShards |-> i], LAMBDA i : i \in S)

\* the AssignSplits message of runner r for the shards av with the splitter's cursors sc
Msg(av, r, nr, sc) ==
  LET ids == SelectSeq([i \in 1..N |-> i], LAMBDA i : i \in av /\ Idx(i, nr) = r)
  IN  [j \in 1..Len(ids) |-> [s |-> ids[j], c |-> IF sc[ids[j]] >= 0 THEN sc[ids[j]] ELSE 0]]
Push(ib, av, nr, sc) ==
  [r \in RR |-> IF r <= nr /\ Len(Msg(av, r, nr, sc)) > 0 THEN Append(ib[r], Msg(av, r, nr, sc)) ELSE ib[r]]
AssignList(av, nr, sc) ==
  LET ids == SelectSeq([i \in 1..N |-> i], LAMBDA i : i \in av)
  IN  [j \in 1..Len(ids) |-> [r |-> Idx(ids[j], nr), s |-> ids[j], c |-> IF sc[ids[j]] >= 0 THEN sc[ids[j]] ELSE 0]]

Log(r) == /\ LogOn => Len(hist) < MaxLen      \* generation: a behaviour has MaxLen steps
          /\ hist' = IF LogOn THEN Append(hist, r) ELSE hist

InitShards ==
  [i \in 1..NInit |-> [lo |-> (i - 1) * 64, hi |-> i * 64, par |-> {}, closed |-> FALSE, n |-> 0]]

NoK == [has |-> FALSE, known |-> {}, last |-> 0, cur |-> NoCur, em |-> Zero, fin |-> {}, whyS |-> {}, whyC |-> {}]

Init ==
  /\ shards = InitShards /\ up = FALSE /\ R = 1
  /\ known = {} /\ asg = {} /\ last = 0 /\ scur = NoCur
  /\ inbox = NoSeq /\ asn = NoSeq /\ ridx = ZeroR /\ rseq = Zero /\ itst = Zero
  /\ own = Zero /\ em = Zero /\ fin = {} /\ finBy = Zero
  /\ pend = FALSE /\ barr = {} /\ pcur = NoCur /\ pcut = Zero /\ pfin = {}
  /\ K = NoK /\ whyS = {} /\ whyC = {} /\ bad = {} /\ nst = 0 /\ nck = 0 /\ hist = <<>>

-----------------------------------------------------------------------------
\* the stream's owner
Split(s) ==
  /\ s \in Ids /\ ~shards[s].closed /\ N + 2 <= MaxShards
  /\ shards[s].hi - shards[s].lo >= 2
  /\ LET m == (shards[s].lo + shards[s].hi) \div 2
     IN  shards' = [shards EXCEPT ![s].closed = TRUE]
                     \o <<[lo |-> shards[s].lo, hi |-> m, par |-> {s}, closed |-> FALSE, n |-> 0],
                          [lo |-> m, hi |-> shards[s].hi, par |-> {s}, closed |-> FALSE, n |-> 0]>>
  /\ bad' = {} /\ Log([a |-> "Split", s |-> s])
  /\ UNCHANGED <<up, R, known, asg, last, scur, inbox, asn, ridx, rseq, itst, own, em, fin, finBy,
                 pend, barr, pcur, pcut, pfin, K, whyS, whyC, nst, nck>>

Merge(s, t) ==
  /\ s \in Ids /\ t \in Ids /\ ~shards[s].closed /\ ~shards[t].closed
  /\ shards[s].hi = shards[t].lo /\ N + 1 <= MaxShards
  /\ shards' = [shards EXCEPT ![s].closed = TRUE, ![t].closed = TRUE]
                 \o <<[lo |-> shards[s].lo, hi |-> shards[t].hi, par |-> {s, t}, closed |-> FALSE, n |-> 0]>>
  /\ bad' = {} /\ Log([a |-> "Merge", s |-> s, t |-> t])
  /\ UNCHANGED <<up, R, known, asg, last, scur, inbox, asn, ridx, rseq, itst, own, em, fin, finBy,
                 pend, barr, pcur, pcut, pfin, K, whyS, whyC, nst, nck>>

Put(s) ==
  /\ s \in Ids /\ ~shards[s].closed /\ shards[s].n < MaxRec
  /\ shards' = [shards EXCEPT ![s].n = @ + 1]
  /\ bad' = {} /\ Log([a |-> "Put", s |-> s, i |-> shards[s].n + 1])
  /\ UNCHANGED <<up, R, known, asg, last, scur, inbox, asn, ridx, rseq, itst, own, em, fin, finBy,
                 pend, barr, pcur, pcut, pfin, K, whyS, whyC, nst, nck>>

Expire ==
  /\ \E s \in All : itst[s] = 1
  /\ itst' = [s \in All |-> IF itst[s] = 1 THEN 2 ELSE itst[s]]
  /\ bad' = {} /\ Log([a |-> "Expire"])
  /\ UNCHANGED <<shards, up, R, known, asg, last, scur, inbox, asn, ridx, rseq, own, em, fin, finBy,
                 pend, barr, pcur, pcut, pfin, K, whyS, whyC, nst, nck>>

\* (re)start: every runner and the job die; new readers, new splitter started from the latest completed checkpoint
Start(r) ==
  /\ r \in Runners /\ nst < MaxStarts
  /\ up => K.has
  /\ nst' = nst + 1
  /\ LET d == DA(K.known, {}, K.last)
     IN  /\ up' = TRUE /\ R' = r
         /\ known' = d.known /\ asg' = d.asg /\ last' = d.last
         /\ scur' = K.cur
         /\ inbox' = Push(NoSeq, d.avail, r, K.cur)
         /\ own' = [s \in All |-> IF s \in d.avail THEN Idx(s, r) ELSE 0]
         /\ Log([a |-> "Start", r |-> r, hasK |-> K.has, assign |-> AssignList(d.avail, r, K.cur),
                 whyS |-> SetSeq(K.whyS), whyC |-> SetSeq(K.whyC)])
  /\ asn' = NoSeq /\ ridx' = ZeroR /\ rseq' = Zero /\ itst' = Zero
  /\ em' = K.em /\ fin' = K.fin /\ finBy' = Zero
  /\ whyS' = K.whyS /\ whyC' = K.whyC /\ bad' = {}
  /\ pend' = FALSE /\ barr' = {} /\ pcur' = NoCur /\ pcut' = Zero /\ pfin' = {}
  /\ UNCHANGED <<shards, K, nck>>

\* one round of the discovery goroutine (the splitsDidFinish wake-up is folded in, see Splitter.tla)
Tick ==
  /\ up
  /\ LET d == DA(known, asg, last)
     IN  /\ known' = d.known /\ asg' = d.asg /\ last' = d.last
         /\ inbox' = Push(inbox, d.avail, R, scur)
         /\ own' = [s \in All |-> IF s \in d.avail THEN Idx(s, R) ELSE own[s]]
         /\ Log([a |-> "Tick", assign |-> AssignList(d.avail, R, scur)])
  /\ bad' = {}
  /\ UNCHANGED <<shards, up, R, scur, asn, ridx, rseq, itst, em, fin, finBy,
                 pend, barr, pcur, pcut, pfin, K, whyS, whyC, nst, nck>>

\* the runner loop takes the next assignment message: SourceReader.AssignSplits
Deliver(r) ==
  /\ up /\ r \in 1..R /\ Len(inbox[r]) > 0
  /\ LET m  == Head(inbox[r])
         ss == {m[j].s : j \in 1..Len(m)}
         cOf(s) == m[CHOOSE j \in 1..Len(m) : m[j].s = s].c
     IN  /\ asn' = [asn EXCEPT ![r] = @ \o [j \in 1..Len(m) |-> m[j].s]]
         /\ rseq' = [s \in All |-> IF s \in ss THEN cOf(s) ELSE rseq[s]]
         /\ itst' = [s \in All |-> IF s \in ss THEN 0 ELSE itst[s]]
         /\ Log([a |-> "Deliver", r |-> r, msg |-> m])
  /\ inbox' = [inbox EXCEPT ![r] = Tail(@)]
  /\ bad' = {}
  /\ UNCHANGED <<shards, up, R, known, asg, last, scur, ridx, own, em, fin, finBy,
                 pend, barr, pcur, pcut, pfin, K, whyS, whyC, nst, nck>>

RemoveAt(q, i) == [j \in 1..(Len(q) - 1) |-> IF j < i THEN q[j] ELSE q[j + 1]]

Kinds == <<"repeat", "gap", "early">>
BadSeq(b) ==
  LET pres == SelectSeq(Kinds, LAMBDA k : \E y \in b : y.k = k)
  IN  [j \in 1..Len(pres) |-> CHOOSE y \in b : y.k = pres[j]]

\* one ReadEvents call of runner r with the fake's page limit lim
Read(r, lim) ==
  /\ up /\ r \in 1..R /\ Len(asn[r]) > 0 /\ lim \in 1..MaxPage
  /\ LET i    == ridx[r] + 1
         s    == asn[r][i]
         q0   == rseq[s]
         q    == IF Bug_AtSeq /\ itst[s] # 1 /\ q0 > 0 THEN q0 - 1 ELSE q0
         n    == shards[s].n
         e    == Max2(q, Min2(q + lim, n))
         done == shards[s].closed /\ e >= n
         rep  == q < em[s] /\ e > q
         gap  == q > em[s] /\ e > q
         erl  == e > q /\ \E p \in Par(s) : em[p] < shards[p].n
         b    == (IF rep THEN {[k |-> "repeat", s |-> s,
                               dev |-> IF Bug_AtSeq THEN "Bug_AtSeq" ELSE IF Bug_StaleSplitterCursor THEN "Bug_StaleSplitterCursor"
                                       ELSE IF s \in whyC THEN "Pre_CursorAtReaderOnly" ELSE "?"]} ELSE {})
                 \cup (IF gap THEN {[k |-> "gap", s |-> s, dev |-> "?"]} ELSE {})
                 \cup (IF erl THEN {[k |-> "early", s |-> s,
                                     dev |-> IF {p \in Par(s) : em[p] < shards[p].n} \cap whyS # {} THEN "Dev_StateAtCompletion" ELSE "?"]} ELSE {})
         len1 == Len(asn[r]) - 1
     IN  /\ em' = [em EXCEPT ![s] = Max2(@, e)]
         /\ bad' = b
         /\ IF done
            THEN /\ asn' = [asn EXCEPT ![r] = RemoveAt(@, i)]
                 /\ ridx' = [ridx EXCEPT ![r] = IF len1 > 0 THEN @ % len1 ELSE @]
                 /\ known' = known \ {s} /\ asg' = asg \ {s}
                 /\ fin' = fin \cup {s} /\ finBy' = [finBy EXCEPT ![s] = r]
                 /\ own' = [own EXCEPT ![s] = 0]
                 /\ UNCHANGED <<rseq, itst>>
            ELSE /\ rseq' = [rseq EXCEPT ![s] = IF e > q THEN e ELSE @]
                 /\ itst' = [itst EXCEPT ![s] = 1]
                 /\ ridx' = [ridx EXCEPT ![r] = (@ + 1) % Len(asn[r])]
                 /\ UNCHANGED <<asn, known, asg, fin, finBy, own>>
         /\ Log([a |-> "Read", r |-> r, lim |-> lim, s |-> s, from |-> q + 1, to |-> e, done |-> done,
                 want |-> em[s] + 1, bad |-> BadSeq(b)])
  /\ UNCHANGED <<shards, up, R, last, scur, inbox, pend, barr, pcur, pcut, pfin, K, whyS, whyC, nst, nck>>

StartCkpt ==
  /\ up /\ ~pend /\ nck < MaxCkpts
  /\ pend' = TRUE /\ barr' = {} /\ pcur' = NoCur /\ pcut' = Zero
  /\ pfin' = {s \in fin : finBy[s] = 0}
  /\ bad' = {} /\ Log([a |-> "StartCkpt"])
  /\ UNCHANGED <<shards, up, R, known, asg, last, scur, inbox, asn, ridx, rseq, itst, own, em, fin, finBy,
                 K, whyS, whyC, nst, nck>>

\* the barrier in runner r's loop: SourceReader.Checkpoint() + ack
Barrier(r) ==
  /\ up /\ pend /\ r \in (1..R) \ barr
  /\ barr' = barr \cup {r}
  /\ LET held == {asn[r][j] : j \in 1..Len(asn[r])}
     IN  /\ pcur' = [s \in All |-> IF s \in held THEN rseq[s] ELSE pcur[s]]
         /\ Log([a |-> "Barrier", r |-> r,
                 states |-> [j \in 1..Len(asn[r]) |-> [s |-> asn[r][j], c |-> rseq[asn[r][j]]]]])
  /\ pcut' = [s \in All |-> IF s \in Ids /\ Idx(s, R) = r THEN em[s] ELSE pcut[s]]
  /\ pfin' = pfin \cup {s \in fin : finBy[s] = r}
  /\ bad' = {}
  /\ UNCHANGED <<shards, up, R, known, asg, last, scur, inbox, asn, ridx, rseq, itst, own, em, fin, finBy,
                 pend, K, whyS, whyC, nst, nck>>

\* the last acknowledgement: the store takes SourceSplitter.Checkpoint() and publishes
Complete ==
  /\ up /\ pend /\ barr = 1..R
  /\ LET finK == pfin
         late == fin \ finK
         kn   == IF Dev_StateAtCompletion THEN known ELSE (known \cup late)
         cur1 == [s \in All |-> IF Bug_StaleSplitterCursor /\ s \in kn /\ scur[s] > 0 THEN scur[s]
                                ELSE IF pcur[s] >= 0 THEN pcur[s]
                                ELSE IF ~Pre_CursorAtReaderOnly /\ s \in kn THEN scur[s] ELSE -1]
         drop == {s \in kn : pcur[s] < 0 /\ scur[s] > 0}
     IN  /\ K' = [has |-> TRUE, known |-> kn, last |-> last, cur |-> cur1, em |-> pcut, fin |-> finK,
                  whyS |-> whyS \cup (IF Dev_StateAtCompletion THEN late ELSE {}),
                  whyC |-> whyC \cup (IF Pre_CursorAtReaderOnly THEN drop ELSE {})]
         /\ Log([a |-> "Complete", known |-> SetSeq(kn), last |-> last])
  /\ pend' = FALSE /\ bad' = {} /\ nck' = nck + 1
  /\ UNCHANGED <<shards, up, R, known, asg, last, scur, inbox, asn, ridx, rseq, itst, own, em, fin, finBy,
                 barr, pcur, pcut, pfin, whyS, whyC, nst>>

Next ==
  \/ \E r \in Runners : Start(r)
  \/ Tick \/ StartCkpt \/ Complete \/ Expire
  \/ \E s \in All : Split(s) \/ Put(s)
  \/ \E s \in All, t \in All : Merge(s, t)
  \/ \E r \in RR : Barrier(r) \/ Deliver(r)
  \/ \E r \in RR, lim \in 1..MaxPage : Read(r, lim)

Spec == Init /\ [][Next]_vars

-----------------------------------------------------------------------------
\* position of a split that is held by a reader or on its way to one
PosOf(s) ==
  IF \E r \in RR : \E j \in 1..Len(asn[r]) : asn[r][j] = s THEN {rseq[s]}
  ELSE UNION {UNION {{inbox[r][i][j].c : j \in {x \in 1..Len(inbox[r][i]) : inbox[r][i][x].s = s}}
                     : i \in 1..Len(inbox[r])} : r \in RR}

Ready(s) == s \in Ids /\ s \notin fin /\ Par(s) \subseteq fin

\* every held / in-flight split stands exactly at the timeline's position
PositionsX(ex) == \A s \in Ids \ ex : own[s] # 0 => PosOf(s) = {em[s]}
\* every ready shard is held, in flight, or handed out by the next discovery round
NoneLostX(ex)  == up => \A s \in Ids \ ex : Ready(s) => (own[s] # 0 \/ s \in DA(known, asg, last).avail)
\* a shard is in at most one reader's list, at most once, and only while the tracker has it assigned
OneReader ==
  /\ \A r1 \in RR, r2 \in RR : \A j1 \in 1..Len(asn[r1]) : \A j2 \in 1..Len(asn[r2]) :
        asn[r1][j1] = asn[r2][j2] => (r1 = r2 /\ j1 = j2)
  /\ \A r \in RR : \A j \in 1..Len(asn[r]) : own[asn[r][j]] = r /\ asn[r][j] \in asg /\ asn[r][j] \in known
\* per shard the reader never stands beyond the stream or below zero, and never before what it emitted itself
PerShardOrder == \A s \in Ids : rseq[s] \in 0..shards[s].n /\ em[s] \in 0..shards[s].n
\* a child is never held by a reader while a parent is unfinished
ChildAfterParentX(ex) == \A s \in Ids : own[s] # 0 => \A p \in Par(s) \ ex : p \in fin

\* after a restore exactly the records after the checkpointed positions are read: none repeated, none skipped, none left
ResumeExact == (\A b \in bad : b.k \notin {"repeat", "gap"}) /\ PositionsX({}) /\ NoneLostX({})
\* no record of a child before all records of its parents, no child handed out before its parents are finished
ChildAfterParent == (\A b \in bad : b.k # "early") /\ ChildAfterParentX({})
\* all switches FALSE: the mechanism keeps the property
DesignOK == ResumeExact /\ ChildAfterParent
\* deviations TRUE (the code as it is): every violation the model admits is attributed to a named deviation
Attributed == /\ \A b \in bad : b.dev # "?"
              /\ PositionsX(whyC) /\ NoneLostX(whyS) /\ ChildAfterParentX(whyS)

TypeOK == /\ N <= MaxShards /\ last \in 0..MaxShards /\ R \in Runners \cup {1}
          /\ known \subseteq Ids /\ fin \subseteq Ids /\ asg \subseteq known
          /\ \A r \in RR : ridx[r] = 0 \/ ridx[r] < Len(asn[r])

Dump == (LogOn /\ Len(hist) >= MaxLen) => PrintT(<<"BEHAVIOUR", ToJson(hist)>>)
CexDump == (LogOn /\ bad # {}) => PrintT(<<"BEHAVIOUR", ToJson(hist)>>)
=============================================================================
