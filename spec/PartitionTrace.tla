------------------------- MODULE PartitionTrace -------------------------
(* Trace validation for C05.  harness/cmd/partition records one ndjson event per observation of the REAL
   code at the three call sites, for many (count, n) configurations one after the other:

     {"op":"Keys","h":[[hi,lo],...]}               line 1: the reference hash table (key id k = position k),
                                                   written by the independent reference implementation,
                                                   never by the code under test
     {"op":"Config","count":c,"n":n}               a deployment: c key groups, n operators
     {"op":"Range","operator":i,"start":a,"end":b} the range operator i works with (KeySpace.KeyGroupRanges /
                                                   the KeyGroupRange of its OperatorCheckpoint), i = 0..n-1 in order
     {"op":"KeyGroup","key":k,"group":g}           KeySpace.KeyGroup(key)
     {"op":"Route","key":k,"to":i}                 the operator whose handler received key k from the source
                                                   runner's router (operatorCluster.routeEvent) / RangeIndex
     {"op":"Store","operator":i,"key":k,"prefix":g,"kind":"state"|"timer"}
                                                   a key found in operator i's DKV checkpoint: two-byte prefix g,
                                                   subject key k (encodeDBKey / encodeTimerKey)
     {"op":"Prefix","key":k,"prefix":g,"kind":..}  the same for a stand-alone KeyedStateStore / TimerStore
     {"op":"Owns","operator":i,"key":k,"res":b}    OperatorPartition.OwnsKey of operator i on key k's persisted
                                                   entries (observed through the WAL replay filter of dkv.Start)

   An event is accepted iff Partition's predicates hold for it.  Owner(g) is the operator whose REPORTED range
   contains g (C05 does not fix which ranges get the extra key group; harness/cmd/partition reports a
   difference from Partition!Ranges as model drift).  The last Range event of a configuration is rejected
   unless the n reported ranges tile 0..count-1 and differ in size by at most one; Route # Owner(KG(key)),
   prefix # KG(key), a stored key whose prefix is not owned by the storing operator, or a wrong OwnsKey
   answer => the trace is rejected at that line.                                                          *)
EXTENDS Integers, Sequences, TLC, Json, TLCExt

TraceLog == ndJsonDeserialize("trace.ndjson")
TraceKGH == TraceLog[1].h

VARIABLES s, l
P == INSTANCE Partition WITH KGH <- TraceKGH,
       GridMaxCount <- 0, GridMaxN <- 0, BoundaryCount <- 0, BoundaryNs <- {}, Keep <- 0, DeclMaxCount <- 0,
       AssignCounts <- {}, AssignMaxOps <- 0
tvars == <<s, l>>

NoConfig == [count |-> 0, n |-> 0, R |-> <<>>]
TraceInit == s = NoConfig /\ l = 1

Ev == TraceLog[l]
IsEvent(e) == l <= Len(TraceLog) /\ Ev.op = e /\ l' = l + 1
Configured == s.count > 0 /\ Len(s.R) = s.n        \* all n ranges reported
\* the operator whose reported range contains g (unique: the ranges tile 0..count-1);
\* = P!Owner(s.count, s.n, g) whenever the reported ranges are P!Ranges(s.count, s.n)
OwnerOf(g) == P!LookupAt(s.R, g)
KGOf(k) == P!KG(s.count, k)
IsKey(k) == k \in 1..Len(TraceKGH)

TKeys == IsEvent("Keys") /\ l = 1 /\ UNCHANGED s
TConfig == /\ IsEvent("Config") /\ Ev.count \in 1..65535 /\ Ev.n >= 1
           /\ s' = [count |-> Ev.count, n |-> Ev.n, R |-> <<>>]
TRange == /\ IsEvent("Range") /\ s.count > 0 /\ Ev.operator = Len(s.R) /\ Ev.operator < s.n
          /\ LET R2 == Append(s.R, [start |-> Ev.start, end |-> Ev.end]) IN
             \* "= TRUE": evaluated as a state predicate (TLC otherwise expands the quantifiers of an action
             \* conjunct on its Java stack and overflows for n > ~200)
             /\ (Len(R2) = s.n => (P!Tiles(R2, s.count) /\ P!Balanced(R2))) = TRUE
             /\ s' = [s EXCEPT !.R = R2]
TKeyGroup == /\ IsEvent("KeyGroup") /\ Configured /\ IsKey(Ev.key)
             /\ Ev.group = KGOf(Ev.key)
             /\ UNCHANGED s
TRoute == /\ IsEvent("Route") /\ Configured /\ IsKey(Ev.key)
          /\ Ev.to = OwnerOf(KGOf(Ev.key))
          /\ UNCHANGED s
TStore == /\ IsEvent("Store") /\ Configured /\ IsKey(Ev.key)
          /\ Ev.prefix = KGOf(Ev.key)
          /\ OwnerOf(Ev.prefix) = Ev.operator
          /\ UNCHANGED s
TPrefix == /\ IsEvent("Prefix") /\ Configured /\ IsKey(Ev.key)
           /\ Ev.prefix = KGOf(Ev.key)
           /\ UNCHANGED s
TOwns == /\ IsEvent("Owns") /\ Configured /\ IsKey(Ev.key)
         /\ Ev.res = (OwnerOf(KGOf(Ev.key)) = Ev.operator)
         /\ UNCHANGED s

TraceNext == TKeys \/ TConfig \/ TRange \/ TKeyGroup \/ TRoute \/ TStore \/ TPrefix \/ TOwns
TraceSpec == TraceInit /\ [][TraceNext]_tvars

TraceAccepted ==
  LET d == TLCGet("stats").diameter IN
  IF d - 1 = Len(TraceLog) THEN TRUE
  ELSE Print(<<"TRACE-REJECTED-AT", d, IF d <= Len(TraceLog) THEN ToJson(TraceLog[d]) ELSE "end">>, FALSE)
=============================================================================
