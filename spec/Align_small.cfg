SPECIFICATION Spec
CONSTANTS NS = 2  K = 2  MaxScript = 4  MaxSize = 2  UseTimer = TRUE  MaxFires = 2  MaxW = 2  MaxSkip = 1  MaxLen = 1000
INVARIANTS CutExact CutTimersOK BatchOK AcksInOrder AckedByAll ParkedOK NoLossAtEnd TypeOK
PROPERTIES NoEarlyApply NoEarlyEnqueue
VIEW view
CHECK_DEADLOCK FALSE
