---------------------------- MODULE OrderedCache ----------------------------
(* util/ds.SortedCache: an ordered set of byte strings with byte accounting.

   Abstract state = the set of keys held (its sorted sequence is the
   reference).  C19 for this structure:
     * Pop / PopLast / Peek return the minimum / maximum / minimum of exactly
       what was pushed and not yet removed (set semantics: pushing a key that
       is already held replaces it);
     * IsFull() <=> (sum of len(key) over the keys held) >= maxSizeBytes, i.e.
       "size accounting matches the contents" - after every operation;
     * the eviction idiom of its only user (KeyGroupPriorityQueue.Push:
       Push; for IsFull && !IsEmpty { PopLast }) evicts the largest keys and
       exactly as many as the contents require.

   Every step logs the result of the call and IsFull / IsEmpty / Peek after it;
   `content` (ascending) is what draining the real cache with Pop must yield. *)
EXTENDS OrderedRef, Json

CONSTANTS KeyIdx,    \* subset of 1..9: indices into U
          MaxBytes,  \* maxSizeBytes
          SymW,      \* bytes per symbol in the concretisation (len(key) = SymW * Len(k))
          PopEvery,  \* generation bias: if > 0, every PopEvery-th operation is a Pop or PopLast
          MaxLen     \* behaviour length

ASSUME UOrdered

VARIABLES c, hist
vars == <<c, hist>>
view == c

Keys == {U[i] : i \in KeyIdx}

Bytes(k) == SymW * Len(k)
RECURSIVE SizeOf(_)
SizeOf(S) == IF S = {} THEN 0 ELSE LET k == CHOOSE k \in S : TRUE IN Bytes(k) + SizeOf(S \ {k})
Full(S) == SizeOf(S) >= MaxBytes

MinOf(S) == CHOOSE k \in S : \A j \in S : LexLeq(k, j)
MaxOf(S) == CHOOSE k \in S : \A j \in S : LexLeq(j, k)

\* the eviction loop: for IsFull && !IsEmpty { PopLast }
RECURSIVE Evict(_)
Evict(S) == IF S # {} /\ Full(S)
            THEN LET m == MaxOf(S) r == Evict(S \ {m}) IN <<r[1], <<m>> \o r[2]>>
            ELSE <<S, <<>>>>

After(S) == [full |-> Full(S), empty |-> S = {}, peek |-> IF S = {} THEN None ELSE Some(MinOf(S)),
             content |-> SortedKeys(S)]

Log(r, S) == hist' = Append(hist, r @@ After(S))

Init == c = {} /\ hist = <<>>

Push(k) == c' = c \cup {k} /\ Log([a |-> "Push", k |-> k, had |-> k \in c], c')

Pop == /\ c' = IF c = {} THEN c ELSE c \ {MinOf(c)}
       /\ Log([a |-> "Pop", res |-> IF c = {} THEN None ELSE Some(MinOf(c))], c')

PopLast == /\ c' = IF c = {} THEN c ELSE c \ {MaxOf(c)}
           /\ Log([a |-> "PopLast", res |-> IF c = {} THEN None ELSE Some(MaxOf(c))], c')

Delete(k) == c' = c \ {k} /\ Log([a |-> "Delete", k |-> k, had |-> k \in c], c')

PushEvict(k) == LET r == Evict(c \cup {k})
                IN c' = r[1] /\ Log([a |-> "PushEvict", k |-> k, had |-> k \in c, evicted |-> r[2]], c')

Next == /\ Len(hist) < MaxLen
        /\ IF PopEvery > 0 /\ (Len(hist) + 1) % PopEvery = 0 THEN Pop \/ PopLast
           ELSE \/ \E k \in Keys : Push(k) \/ Delete(k) \/ PushEvict(k)
                \/ Pop \/ PopLast

Spec == Init /\ [][Next]_vars

-----------------------------------------------------------------------------
\* sanity of the reference itself
TypeOK == c \subseteq Keys
\* after the eviction idiom the cache is never left full unless it is empty
EvictOK == \A k \in Keys : LET r == Evict(c \cup {k})
                           IN /\ (r[1] = {} \/ ~Full(r[1]))
                              /\ r[1] \cup Range(r[2]) = c \cup {k}
                              /\ \A i \in DOMAIN r[2] : \A j \in r[1] : LexLess(j, r[2][i])
\* the sorted content is sorted, complete and duplicate free
ContentOK == LET s == SortedKeys(c)
             IN Range(s) = c /\ Len(s) = Cardinality(c) /\ \A i \in 1..(Len(s) - 1) : LexLess(s[i], s[i + 1])

Dump == Len(hist) >= MaxLen => PrintT(<<"BEHAVIOUR", ToJson(hist)>>)
=============================================================================
