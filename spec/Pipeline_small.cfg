\* manual run: tlc -config Pipeline_small.cfg Pipeline.tla   (the checks generate their cfg, see checks/pipelib.py)
SPECIFICATION Spec
CONSTANTS
  NSplits = 2
  NRec = 3
  NOps = 2
  NKeys = 2
  KeyCode = 37
  KeyDigits = 6
  MaxSize = 3
  UseTimer = TRUE
  MaxKFires = 1
  MaxOFires = 1
  MaxBarriers = 1
  MaxTicks = 0
  MaxRead = 3
  WithEOI = FALSE
  AtomicFlush = TRUE
  Dev_NoFlushAtEOI = TRUE
  Dev_SnapshotAfterNextRead = FALSE
  MaxLen = 100000
INVARIANTS TypeOK StreamsAlwaysOK CutConsistent Complete NoStuck
VIEW view
CHECK_DEADLOCK FALSE
