------------------------------ MODULE Splitter ------------------------------
(* Implementation-shaped model of reduction's source splitters and of the way
   the job drives them (assignment half of property C16):

     connectors/kinesis/source_splitter.go   Start / processShardAssignment /
                                             NotifySplitsFinished / Checkpoint
     connectors/kinesis/split_tracker.go     knownSplits, assignedSplits,
                                             LastAssignedSplitID
     connectors/kinesis/source_splitter_shard.go  (de)serialised shards
     connectors/embedded/source_splitter.go  Kind = "embedded": NInit fixed
                                             splits, round robin i % R
     connectors/httpapi/source_splitter.go   Kind = "httpapi": the split "only"
     jobs/job.go + storage/snapshots         Start(checkpoint), AssignSplits
                                             hook, NotifySplitsFinished; runner
                                             cursors are captured at each
                                             runner's BARRIER, the splitter's
                                             Checkpoint() when the LAST ack
                                             arrives (Store.finishSnapshot)

   The stream (Kinesis, here the repo's kinesisfake) is part of the model:
   shards 1..Len(shards) in creation order (= shard id order), each with a hash
   key range [lo, hi) in units of 2^128 / D, its parents and a closed flag.
   Split closes one shard and appends two children; Merge closes two adjacent
   shards and appends one child.

   One action per API call / critical section of the code:

     Start(r)      NewSourceSplitter(r runner ids) + Start(latest completed
                   checkpoint or nil): LoadSplits, cursors, ListShards after
                   LastAssigned, AddSplits, AvailableSplits, AssignSplits hook,
                   TrackAssigned.  Also the crash/restart: everything volatile
                   (runner cursors, tracker, pending checkpoint) is replaced.
     Tick          one round of the discovery goroutine: ListShards after
                   LastAssigned, AddSplits, AvailableSplits, hook, TrackAssigned
                   (the splitsDidFinish wake-up runs the same tail without the
                   listing; within one incarnation every listing returns all
                   ids above LastAssigned, so which shards are known never
                   depends on whether the wake-up ran before the next round -
                   it is folded into Tick)
     Progress(s) / RunnerRead(r)   a runner advances a cursor
     Finish(s)     the runner read a closed shard to its end:
                   NotifySplitsFinished -> RemoveSplits
     StartCkpt, Barrier(r), Complete   job checkpoint: runner r's split states
                   are what it holds at ITS barrier; the splitter's state is
                   taken at completion
     Split(s), Merge(s, t)         the stream's owner reshards

   Ghost state carries what the property talks about: `fin` = the shards that
   are finished in the current timeline (a restore rewinds the timeline to the
   cut of the restored checkpoint: a shard is finished at the cut iff its
   runner had finished it before that runner's barrier), `own`/`cur` = who
   reads what from where.  Every assignment is judged when it is made:

     reread  a shard that is finished in the timeline is handed out again
     early   a shard is handed out while one of its parents is not finished
     lost    after a discovery round a shard whose parents are all finished
             and that is not finished itself is read by nobody
   (duplicate entries / a wrong cursor cannot be expressed by the repaired
   model: an assignment is a function shard -> runner and always carries the
   restored cursor; the replayer checks both on the real messages.)

   Named deviation = what the code does (TRUE) against a mechanism that keeps
   the property (FALSE):
     Dev_StateAtCompletion  (DESIGN 7 #27) the splitter state is taken at
                            completion, the cursors at the barrier: a shard
                            finished in between is in neither list, is not
                            listed again (ExclusiveStartShardId) and its
                            children are handed out although it was never read
                            to its end in the restored timeline.
                            FALSE: the checkpoint's shard set is the one of the
                            cut (shards finished after the cut are kept).
   The model is the REPAIRED code (fix commits on branch verif-splitter). The
   switches Pre_* re-enable what the code did before; the check uses them to
   show that the invariants are not vacuous and to replay the schedules only the
   unrepaired code admits (the real code must not break the property on them):
     Pre_LastRegress        TrackAssigned set LastAssigned to the last shard of
                            the batch, so it moved backwards when children of an
                            older parent were assigned after newer shards (or a
                            restored shard with a lower id came first); the next
                            ListShards re-listed shards that were finished and
                            removed => handed out again.
     Pre_ForgetWithheld     Checkpoint() held only the ASSIGNED shards; known
                            but withheld shards (children of an unfinished
                            parent) below LastAssigned were neither restored
                            nor re-listed => never read.
   (DESIGN 7 #21 - Start(own checkpoint) dereferenced nil big.Ints and then
   assigned every restored shard twice - and #25 - the embedded splitter's
   Start(checkpoint) panicked - are repaired too and have no switch: they do
   not change which schedules exist.)                                        *)
EXTENDS Integers, Sequences, FiniteSets, TLC, Json

CONSTANTS Kind,        \* "kinesis" | "embedded" | "httpapi"
          NInit,       \* shards of the new stream / SplitCount
          MaxShards,   \* shards ever created
          Runners,     \* possible runner counts, e.g. {1, 2, 3}
          MaxCur,      \* cursors are 0..MaxCur (0 = nothing read)
          MaxLen,      \* steps per behaviour (generation only)
          LogOn,       \* FALSE: no history (exhaustive runs)
          MaxStarts,   \* (re)starts per behaviour (generation only)
          ActOn,       \* TRUE: `act` holds the last action (counterexample export from exhaustive runs)
          MaxDepth,    \* CONSTRAINT DepthOK: exhaustive search to this depth only (counterexample export)
          Pre_LastRegress, Pre_ForgetWithheld, Dev_StateAtCompletion

VARIABLES shards,      \* the stream: <<[lo, hi, par, closed], ...>>
          up,          \* a splitter incarnation is running
          R,           \* its runner count
          known, asg,  \* SplitTracker.knownSplits / assignedSplits
          last,        \* SplitTracker.LastAssignedSplitID (0 = "")
          scur,        \* SourceSplitter.cursors (from the restored checkpoint; -1 = none)
          own,         \* own[s] = runner reading s (0 = nobody)
          cur,         \* cur[s] = its cursor
          fin,         \* ghost: finished in the current timeline
          finBy,       \* ghost: runner that finished it in this incarnation (0 = before the restored cut)
          pend, barr,  \* a job checkpoint is pending; runners past their barrier
          pcur, pfin,  \* cursors captured so far / shards finished at the cut so far
          K,           \* the latest completed checkpoint
          whyS, whyF,  \* ghost: shards dropped by Dev_StateAtCompletion / Pre_ForgetWithheld
          bad,         \* ghost: violations produced by the last action
          nst,         \* (re)starts so far (generation only; stays 0 in exhaustive runs)
          act,         \* the last action, only if ActOn
          hist

vars == <<shards, up, R, known, asg, last, scur, own, cur, fin, finBy, pend, barr,
          pcur, pfin, K, whyS, whyF, bad, nst, act, hist>>

D    == NInit * 64
All  == 1..MaxShards
N    == Len(shards)
Ids  == 1..N
Par(s) == shards[s].par
Max(S) == CHOOSE x \in S : \A y \in S : y <= x
NoCur  == [s \in All |-> -1]
Zero   == [s \in All |-> 0]

\* uniformlyAssignShard: floor(midpoint / 2^128 * r), at most r-1 (0-based).
\* embedded: sliceu.Partition = round robin.  httpapi: sourceRunnerIDs[0].
Idx(s, r) ==
  CASE Kind = "kinesis"  -> LET m == ((shards[s].lo + shards[s].hi) * r) \div (2 * D)
                            IN  (IF m > r - 1 THEN r - 1 ELSE m) + 1
    [] Kind = "embedded" -> ((s - 1) % r) + 1
    [] OTHER             -> 1

\* ListShards(ExclusiveStartShardId = l) + AddSplits + AvailableSplits + TrackAssigned
DA(kn0, asg0, last0) ==
  LET kn1 == kn0 \cup (IF Kind = "kinesis" THEN {i \in Ids : i > last0} ELSE Ids)
      av  == {s \in kn1 \ asg0 : \A p \in Par(s) : p \notin kn1}
  IN  [known |-> kn1, avail |-> av, asg |-> asg0 \cup av,
       last  |-> IF av = {} THEN last0
                 ELSE IF Pre_LastRegress \/ Max(av) > last0 THEN Max(av) ELSE last0]

\* the property, judged on one round of assignments `av` made with timeline `f`
WhyOf(S, wS, wF) == IF S \cap wS # {} THEN "Dev_StateAtCompletion"
                    ELSE IF S \cap wF # {} THEN "Pre_ForgetWithheld" ELSE "?"
Judge(av, f, own1, kn1, wS, wF) ==
     {[k |-> "reread", s |-> s, dev |-> IF Pre_LastRegress THEN "Pre_LastRegress" ELSE "?"] : s \in av \cap f}
  \cup {[k |-> "early", s |-> s, dev |-> WhyOf(Par(s) \ f, wS, wF)] : s \in {x \in av : Par(x) \ f # {}}}
  \cup {[k |-> "lost", s |-> s, dev |-> IF Pre_LastRegress /\ Par(s) \cap kn1 # {} THEN "Pre_LastRegress" ELSE WhyOf({s}, wS, wF)] :
          s \in {x \in Ids : x \notin f /\ Par(x) \subseteq f /\ own1[x] = 0}}

AssignList(av, r, sc) ==
  LET ids == SelectSeq([i \in 1..N |-> i], LAMBDA i : i \in av)
  IN  [j \in 1..Len(ids) |-> [r |-> Idx(ids[j], r), s |-> ids[j], c |-> IF sc[ids[j]] >= 0 THEN sc[ids[j]] ELSE 0]]
SetSeq(S) == SelectSeq([i \in 1..MaxShards |-> i], LAMBDA i : i \in S)
Kinds == <<"reread", "early", "lost">>
BadSeq(b) ==
  LET cand == [i \in 1..(3 * MaxShards) |-> [k |-> Kinds[((i - 1) \div MaxShards) + 1], s |-> ((i - 1) % MaxShards) + 1]]
      pres == SelectSeq(cand, LAMBDA c : \E y \in b : y.k = c.k /\ y.s = c.s)
  IN  [j \in 1..Len(pres) |-> CHOOSE y \in b : y.k = pres[j].k /\ y.s = pres[j].s]

NoAct == [a |-> "", s |-> 0, t |-> 0, r |-> 0]
Log(r) == /\ hist' = IF LogOn THEN Append(hist, r) ELSE hist
          /\ act' = IF ActOn THEN [a |-> r.a, s |-> IF "s" \in DOMAIN r THEN r.s ELSE 0,
                                   t |-> IF "t" \in DOMAIN r THEN r.t ELSE 0,
                                   r |-> IF "r" \in DOMAIN r THEN r.r ELSE 0] ELSE act

InitShards ==
  [i \in 1..NInit |-> [lo |-> (i - 1) * 64, hi |-> i * 64, par |-> {}, closed |-> FALSE]]

NoK == [has |-> FALSE, known |-> {}, last |-> 0, cur |-> NoCur, fin |-> {}, whyS |-> {}, whyF |-> {}]

Init ==
  /\ shards = InitShards /\ up = FALSE /\ R = 1
  /\ known = {} /\ asg = {} /\ last = 0 /\ scur = NoCur
  /\ own = Zero /\ cur = Zero /\ fin = {} /\ finBy = Zero
  /\ pend = FALSE /\ barr = {} /\ pcur = NoCur /\ pfin = {}
  /\ K = NoK /\ whyS = {} /\ whyF = {} /\ bad = {} /\ nst = 0 /\ act = NoAct /\ hist = <<>>

-----------------------------------------------------------------------------
\* the stream's owner
Split(s) ==
  /\ Kind = "kinesis" /\ s \in Ids /\ ~shards[s].closed /\ N + 2 <= MaxShards
  /\ shards[s].hi - shards[s].lo >= 2
  /\ LET m == (shards[s].lo + shards[s].hi) \div 2
     IN  shards' = [shards EXCEPT ![s].closed = TRUE]
                     \o <<[lo |-> shards[s].lo, hi |-> m, par |-> {s}, closed |-> FALSE],
                          [lo |-> m, hi |-> shards[s].hi, par |-> {s}, closed |-> FALSE]>>
  /\ bad' = {} /\ Log([a |-> "Split", s |-> s])
  /\ UNCHANGED <<up, R, known, asg, last, scur, own, cur, fin, finBy, pend, barr, pcur, pfin, K, whyS, whyF, nst>>

Merge(s, t) ==
  /\ Kind = "kinesis" /\ s \in Ids /\ t \in Ids /\ ~shards[s].closed /\ ~shards[t].closed
  /\ shards[s].hi = shards[t].lo /\ N + 1 <= MaxShards
  /\ shards' = [shards EXCEPT ![s].closed = TRUE, ![t].closed = TRUE]
                 \o <<[lo |-> shards[s].lo, hi |-> shards[t].hi, par |-> {s, t}, closed |-> FALSE]>>
  /\ bad' = {} /\ Log([a |-> "Merge", s |-> s, t |-> t])
  /\ UNCHANGED <<up, R, known, asg, last, scur, own, cur, fin, finBy, pend, barr, pcur, pfin, K, whyS, whyF, nst>>

\* (re)start of the job's splitter from the latest completed checkpoint
Start(r) ==
  /\ r \in Runners
  /\ LogOn => nst < MaxStarts /\ (up => K.has)  \* generation: restarts only from a completed checkpoint
  /\ nst' = IF LogOn THEN nst + 1 ELSE nst
  /\ LET kin == Kind = "kinesis"
         d   == DA(IF kin THEN K.known ELSE {}, {}, IF kin THEN K.last ELSE 0)
         f   == K.fin
         o1  == [s \in All |-> IF s \in d.avail THEN Idx(s, r) ELSE 0]
         b   == Judge(d.avail, f, o1, d.known, K.whyS, K.whyF)
     IN  /\ up' = TRUE /\ R' = r
         /\ known' = d.known /\ asg' = d.asg /\ last' = d.last
         /\ scur' = K.cur /\ fin' = f /\ finBy' = Zero
         /\ own' = o1
         /\ cur' = [s \in All |-> IF s \in d.avail /\ K.cur[s] >= 0 THEN K.cur[s] ELSE 0]
         /\ whyS' = K.whyS /\ whyF' = K.whyF
         /\ bad' = b
         /\ Log([a |-> "Start", r |-> r, hasK |-> K.has, assign |-> AssignList(d.avail, r, K.cur),
                 bad |-> BadSeq(b), known |-> SetSeq(d.known), last |-> d.last])
  /\ pend' = FALSE /\ barr' = {} /\ pcur' = NoCur /\ pfin' = {}
  /\ UNCHANGED <<shards, K>>

TickBody(final) ==
  LET d  == DA(known, asg, last)
      o1 == [s \in All |-> IF s \in d.avail THEN Idx(s, R) ELSE own[s]]
      b  == Judge(d.avail, fin, o1, d.known, whyS, whyF)
  IN  /\ known' = d.known /\ asg' = d.asg /\ last' = d.last
      /\ own' = o1
      /\ cur' = [s \in All |-> IF s \in d.avail THEN (IF scur[s] >= 0 THEN scur[s] ELSE 0) ELSE cur[s]]
      /\ bad' = b
      /\ Log([a |-> "Tick", final |-> final, assign |-> AssignList(d.avail, R, scur), bad |-> BadSeq(b),
              known |-> SetSeq(d.known), last |-> d.last])
      /\ UNCHANGED <<shards, up, R, scur, fin, finBy, pend, barr, pcur, pfin, K, whyS, whyF, nst>>

Tick == up /\ Kind = "kinesis" /\ TickBody(FALSE)

Progress(s) ==
  /\ up /\ Kind = "kinesis" /\ s \in Ids /\ own[s] # 0 /\ cur[s] < MaxCur
  /\ cur' = [cur EXCEPT ![s] = @ + 1]
  /\ bad' = {} /\ Log([a |-> "Progress", s |-> s, c |-> cur[s] + 1])
  /\ UNCHANGED <<shards, up, R, known, asg, last, scur, own, fin, finBy, pend, barr, pcur, pfin, K, whyS, whyF, nst>>

\* embedded / httpapi readers advance every split they hold by one batch
RunnerRead(r) ==
  /\ up /\ Kind # "kinesis" /\ r \in 1..R
  /\ \E s \in Ids : own[s] = r
  /\ \A s \in Ids : own[s] = r => cur[s] < MaxCur
  /\ cur' = [s \in All |-> IF own[s] = r THEN cur[s] + 1 ELSE cur[s]]
  /\ bad' = {} /\ Log([a |-> "RunnerRead", r |-> r])
  /\ UNCHANGED <<shards, up, R, known, asg, last, scur, own, fin, finBy, pend, barr, pcur, pfin, K, whyS, whyF, nst>>

Finish(s) ==
  /\ up /\ s \in Ids /\ own[s] # 0 /\ shards[s].closed
  /\ own' = [own EXCEPT ![s] = 0]
  /\ fin' = fin \cup {s} /\ finBy' = [finBy EXCEPT ![s] = own[s]]
  /\ known' = known \ {s} /\ asg' = asg \ {s}
  /\ bad' = {} /\ Log([a |-> "Finish", s |-> s, r |-> own[s]])
  /\ UNCHANGED <<shards, up, R, last, scur, cur, pend, barr, pcur, pfin, K, whyS, whyF, nst>>

StartCkpt ==
  /\ up /\ ~pend
  /\ pend' = TRUE /\ barr' = {} /\ pcur' = NoCur
  /\ pfin' = {s \in fin : finBy[s] = 0 /\ own[s] = 0}
  /\ bad' = {} /\ Log([a |-> "StartCkpt"])
  /\ UNCHANGED <<shards, up, R, known, asg, last, scur, own, cur, fin, finBy, K, whyS, whyF, nst>>

Barrier(r) ==
  /\ up /\ pend /\ r \in (1..R) \ barr
  /\ barr' = barr \cup {r}
  /\ pcur' = [s \in All |-> IF own[s] = r THEN cur[s] ELSE pcur[s]]
  /\ pfin' = pfin \cup {s \in fin : finBy[s] = r /\ own[s] = 0}
  /\ bad' = {}
  /\ Log([a |-> "Barrier", r |-> r, states |-> [j \in 1..Len(SetSeq({s \in All : own[s] = r})) |->
             [s |-> SetSeq({s \in All : own[s] = r})[j], c |-> cur[SetSeq({s \in All : own[s] = r})[j]]]]])
  /\ UNCHANGED <<shards, up, R, known, asg, last, scur, own, cur, fin, finBy, pend, K, whyS, whyF, nst>>

Complete ==
  /\ up /\ pend /\ barr = 1..R
  /\ LET finK    == {s \in pfin : pcur[s] < 0}
         late    == fin \ finK
         base    == IF Dev_StateAtCompletion THEN known ELSE (known \cup fin) \ finK
         asgView == IF Dev_StateAtCompletion THEN asg ELSE (asg \cup fin) \ finK
         kn      == IF Pre_ForgetWithheld THEN base \cap asgView ELSE base
     IN  /\ K' = [has |-> TRUE, known |-> kn, last |-> last, cur |-> pcur, fin |-> finK,
                  whyS |-> whyS \cup (IF Dev_StateAtCompletion THEN late ELSE {}),
                  whyF |-> whyF \cup (IF Pre_ForgetWithheld THEN base \ asgView ELSE {})]
         /\ Log([a |-> "Complete", known |-> SetSeq(kn), last |-> last])
  /\ pend' = FALSE /\ bad' = {}
  /\ UNCHANGED <<shards, up, R, known, asg, last, scur, own, cur, fin, finBy, barr, pcur, pfin, whyS, whyF, nst>>

Steps ==
  \/ \E r \in Runners : Start(r)
  \/ Tick \/ StartCkpt \/ Complete
  \/ \E s \in All : Split(s) \/ Progress(s) \/ Finish(s)
  \/ \E s \in All, t \in All : Merge(s, t)
  \/ \E r \in 1..3 : Barrier(r) \/ RunnerRead(r)

\* generation: every behaviour ends with three discovery rounds; the last one
\* is where the replayer judges `lost`
Next ==
  IF ~LogOn THEN Steps
  ELSE /\ Len(hist) < MaxLen
       /\ IF up /\ Kind = "kinesis" /\ Len(hist) >= MaxLen - 3
          THEN TickBody(Len(hist) = MaxLen - 1)
          ELSE Steps

Spec == Init /\ [][Next]_vars

-----------------------------------------------------------------------------
\* all deviations FALSE: the mechanism keeps the property
DesignOK == bad = {}
\* deviations TRUE (the code as it is): every violation the model admits is
\* attributed to a named deviation
Attributed == \A b \in bad : b.dev # "?"

\* a shard is read by at most one runner, and only while the tracker has it assigned
Tracked == \A s \in All : own[s] # 0 => (s \in Ids /\ own[s] \in 1..R /\ (Kind = "kinesis" => s \in asg /\ s \in known))
AsgKnown == asg \subseteq known

TypeOK == /\ N <= MaxShards /\ last \in 0..MaxShards /\ R \in Runners
          /\ known \subseteq Ids /\ fin \subseteq Ids
          /\ \A s \in All : cur[s] \in 0..MaxCur /\ scur[s] \in -1..MaxCur /\ own[s] \in 0..3

\* finished-at-the-cut shards are never captured with a cursor
CutOK == K.has => \A s \in K.fin : K.cur[s] < 0

DepthOK == TLCGet("level") <= MaxDepth

Dump == (LogOn /\ Len(hist) >= MaxLen) => PrintT(<<"BEHAVIOUR", ToJson(hist)>>)

\* counterexample export (deviations on): print the history of every state
\* whose last action broke the property
CexDump == (LogOn /\ bad # {}) => PrintT(<<"BEHAVIOUR", ToJson(hist)>>)
=============================================================================
