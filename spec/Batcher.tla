---------------------------- MODULE Batcher ----------------------------
(* batching.EventBatcher as seen through its API (every method runs under one
   mutex, so each call is one atomic action).  C20, batcher half:
     - the concatenation of all batches handed out, followed by the current
       batch, is exactly the sequence of items added (HandedOK);
     - Flush(tok) with a token that is not the current batch's hands out
       nothing (StaleFlushesNothing, built into Flush);
     - a timer is armed exactly when a batch becomes non-empty, carries that
       batch's token, and is disarmed by the flush.                          *)
EXTENDS Integers, Sequences, TLC

CONSTANTS MaxSize, UseTimer, MaxOps
Current == -1
None == -2

VARIABLES added, batch, token, armed, lastSet, inflight, handed, nops
vars == <<added, batch, token, armed, lastSet, inflight, handed, nops>>

Init == added = <<>> /\ batch = <<>> /\ token = 0 /\ armed = None /\ lastSet = None /\ inflight = <<>> /\ handed = <<>> /\ nops = 0

Add(x) ==
  /\ added' = Append(added, x) /\ batch' = Append(batch, x)
  /\ armed' = IF batch = <<>> /\ UseTimer THEN token ELSE armed
  /\ lastSet' = IF batch = <<>> /\ UseTimer THEN token ELSE lastSet   \* the token is captured when the timer is SET
  /\ UNCHANGED <<token, handed, inflight>>

IsFullResult == Len(batch) >= MaxSize

FlushResult(tok) == IF batch = <<>> \/ (tok # Current /\ tok # token) THEN <<>> ELSE batch

Flush(tok) ==
  /\ IF FlushResult(tok) = <<>>
     THEN UNCHANGED <<batch, token, armed, handed>>
     ELSE /\ handed' = handed \o batch /\ batch' = <<>> /\ token' = token + 1 /\ armed' = None
  /\ UNCHANGED <<added, lastSet, inflight>>

\* timer expiry is two steps: the timer goes off (its callback is dispatched:
\* from then on Stop cannot recall it) and, later, the callback delivers on
\* BatchTimedOut the token the timer was SET with - possibly stale by then
Expire == armed # None /\ inflight' = Append(inflight, lastSet) /\ armed' = None
          /\ UNCHANGED <<added, batch, token, lastSet, handed>>
Deliver == inflight # <<>> /\ inflight' = Tail(inflight) /\ UNCHANGED <<added, batch, token, armed, lastSet, handed>>
DeliveredToken == Head(inflight)

Next == /\ nops < MaxOps /\ nops' = nops + 1
        /\ \/ Add(Len(added) + 1)
           \/ \E t \in {Current} \cup 0..(token + 1) : Flush(t)
           \/ Expire \/ Deliver
           \/ UNCHANGED <<added, batch, token, armed, lastSet, inflight, handed>>   \* IsFull
Spec == Init /\ [][Next]_vars

HandedOK == handed \o batch = added
ArmedOK == armed # None => (armed <= token /\ UseTimer)
ArmedCurrentHasBatch == armed = token => batch # <<>>
\* a delivered token never names a batch newer than the one whose timer expired
InflightOld == \A i \in 1..Len(inflight) : inflight[i] <= token
=============================================================================
