------------------------------ MODULE DkvAbs ------------------------------
(* What a user of dkv.DB relies on (C07, C08): the database is a map; a
   checkpoint freezes the map; opening a checkpoint yields the frozen map.
   This is the abstract specification that recorded executions of the real
   database are validated against (DkvAbsTrace.tla); Dkv.tla refines it
   (its ghost variables `oracle` and `snapAt` are exactly `m` and `snap`). *)
EXTENDS Integers, Sequences, FiniteSets, TLC

CONSTANTS NKeys, NVals, MaxOps
Keys == 1..NKeys
Absent == 0

VARIABLES m, snap, nops
vars == <<m, snap, nops>>

Init == m = [k \in Keys |-> Absent] /\ snap = [i \in {} |-> m] /\ nops = 0

Put(k, v) == m' = [m EXCEPT ![k] = v] /\ UNCHANGED snap
Delete(k) == m' = [m EXCEPT ![k] = Absent] /\ UNCHANGED snap
GetResult(k) == m[k]
\* ScanPrefix over the key set P selected by a prefix: exactly the live keys
ScanResult(P) == [k \in {x \in P : m[x] # Absent} |-> m[k]]
Checkpoint(id) == id \notin DOMAIN snap /\ snap' = [i \in DOMAIN snap \cup {id} |-> IF i = id THEN m ELSE snap[i]] /\ UNCHANGED m
RestoreResult(id) == snap[id]
Reopen(id) == id \in DOMAIN snap /\ m' = snap[id] /\ UNCHANGED snap

Next == /\ nops < MaxOps /\ nops' = nops + 1
        /\ \/ \E k \in Keys, v \in 1..NVals : Put(k, v)
           \/ \E k \in Keys : Delete(k)
           \/ \E id \in 1..3 : Checkpoint(id)
           \/ \E id \in DOMAIN snap : Reopen(id)
Spec == Init /\ [][Next]_vars

TypeOK == m \in [Keys -> 0..NVals]
\* a checkpoint never changes once taken
SnapStable == [][\A i \in DOMAIN snap : i \in DOMAIN snap' /\ snap'[i] = snap[i]]_vars
=============================================================================
