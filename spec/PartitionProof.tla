--------------------------- MODULE PartitionProof ---------------------------
(* TLAPS proof, for ALL key-group counts and operator counts, of what TLC checks on the grid in
   Partition!SpecGrid: the loop of partitioning.keyGroupRanges

       kgIndex := 0
       for i := 0; i < n; i++ { end := kgIndex + count/n (+1 if i < count%n); ranges[i] = {kgIndex, end}; kgIndex = end }

   starts range i at the closed form  i*q + min(i, r)  (q = count \div n, r = count % n), every range has
   q or q+1 key groups (Balanced), consecutive ranges are adjacent by construction (Contiguous), and the last
   range ends at count (Cover).  Checked with `tlapm spec/PartitionProof.tla` (see checks/c05.py, thorough). *)
EXTENDS Integers, TLAPS

\* q and r are characterised the way the Go specification defines / and % on non-negative operands
\* (x = q*y + r, 0 <= r < y); for count \in Nat, n >= 1 these are exactly count \div n and count % n.
\* (The installed TLAPS back-ends prove q \in Nat and r \in 0..n-1 from the \div/% definitions but not the
\* non-linear equation, so the Euclidean characterisation is the hypothesis.)
CONSTANTS count, n, q, r
ASSUME Pos == count \in Nat /\ n \in Nat /\ n >= 1
ASSUME Euclid == q \in Nat /\ r \in 0..(n - 1) /\ count = n * q + r

Min(a, b) == IF a < b THEN a ELSE b

VARIABLES i, kgIndex, size      \* size: number of key groups of the range built last
vars == <<i, kgIndex, size>>

Init == i = 0 /\ kgIndex = 0 /\ size = q
Step == /\ i < n
        /\ i' = i + 1
        /\ size' = q + (IF i < r THEN 1 ELSE 0)
        /\ kgIndex' = kgIndex + size'
Spec == Init /\ [][Step]_vars

Inv == /\ i \in 0..n /\ kgIndex \in Nat
       /\ kgIndex = i * q + Min(i, r)          \* closed form of the next range's start
       /\ size \in {q, q + 1}                  \* Balanced: sizes differ by at most one

LEMMA DivMod == q \in Nat /\ r \in 0..(n - 1) /\ count = n * q + r
  BY Euclid

THEOREM ClosedForm == Spec => []Inv
<1>1. Init => Inv
  BY Pos, DivMod DEF Init, Inv, Min
<1>2. Inv /\ [Step]_vars => Inv'
  <2> SUFFICES ASSUME Inv, [Step]_vars PROVE Inv'
    OBVIOUS
  <2>1. CASE Step
    <3>1. i \in 0..(n - 1) /\ i' = i + 1
      BY <2>1, Pos DEF Step, Inv
    <3>2. (i + 1) * q = i * q + q
      BY <3>1, DivMod
    <3>3. Min(i + 1, r) = Min(i, r) + (IF i < r THEN 1 ELSE 0)
      BY <3>1, DivMod DEF Min
    <3>a. kgIndex = i * q + Min(i, r)
      BY DEF Inv
    <3>b. kgIndex' = kgIndex + q + (IF i < r THEN 1 ELSE 0)
      BY <2>1, DivMod DEF Step, Inv
    <3>c. i * q \in Nat /\ Min(i, r) \in Nat /\ q \in Nat /\ (i + 1) * q \in Nat /\ kgIndex \in Nat
      BY <3>1, DivMod, Pos DEF Min, Inv
    <3>4. kgIndex' = (i + 1) * q + Min(i + 1, r)
      BY <3>a, <3>b, <3>c, <3>2, <3>3
    <3> QED
      BY <2>1, <3>1, <3>4, DivMod, Pos DEF Step, Inv
  <2>2. CASE UNCHANGED vars
    BY <2>2 DEF vars, Inv
  <2> QED
    BY <2>1, <2>2
<1> QED
  BY <1>1, <1>2, PTL DEF Spec

\* Cover: after the last iteration the next start is count, i.e. the last range ends at count
THEOREM Cover == Inv /\ i = n => kgIndex = count
  <1> SUFFICES ASSUME Inv, i = n PROVE kgIndex = count
    OBVIOUS
  <1>1. Min(n, r) = r
    BY DivMod, Pos DEF Min
  <1> QED
    BY <1>1, DivMod, Pos DEF Inv
=============================================================================
