---------------------------- MODULE OrderedRef ----------------------------
(* Common vocabulary of the C19 family ("in-memory ordered structures behave
   as ordered maps and priority queues").

   Keys are *byte strings*, modelled as finite sequences over the symbol
   alphabet 0..3 with the lexicographic order and the prefix relation of
   bytes.Compare / bytes.HasPrefix.  The replayer (harness/cmd/ordered)
   concretises every symbol to a fixed-width byte code through an order-
   preserving table chosen per run (0 -> 0x00, 1 -> 'a', 2 -> 'b', 3 -> 0xff;
   or 0x00/0x01/0x7f/0x80; or two-byte codes), so "", "\x00", "\x00\x00",
   "a", "a\x00", "ab", "b", "\xff", "\xff\xff" and friends are what the real
   structures see.

   The reference model of every structure is a plain sorted sequence / a
   function; the operators below are all it needs.                         *)
EXTENDS Integers, Sequences, FiniteSets, TLC

\* The key universe, in ascending byte order.  A model picks KeyIdx \subseteq 1..9.
U == << <<>>, <<0>>, <<0, 0>>, <<1>>, <<1, 0>>, <<1, 2>>, <<2>>, <<3>>, <<3, 3>> >>
\* a second universe (configuration override U <- UCarry): keys that end in the largest symbol right before a key
\* that is their "incremented prefix" (<<0, 3>> then <<1>>; <<1, 3>> then <<2>>) - with a byte table whose codes are
\* consecutive and whose largest code is 0xff this is where an upper bound computed by incrementing a prefix goes
\* wrong when the carry is not truncated
UCarry == << <<>>, <<0>>, <<0, 3>>, <<1>>, <<1, 0>>, <<1, 3>>, <<2>>, <<3>>, <<3, 3>> >>

RECURSIVE LexLess(_, _)
LexLess(a, b) ==
  IF a = <<>> THEN b # <<>>
  ELSE IF b = <<>> THEN FALSE
  ELSE IF a[1] < b[1] THEN TRUE
  ELSE IF a[1] > b[1] THEN FALSE
  ELSE LexLess(Tail(a), Tail(b))

LexLeq(a, b) == a = b \/ LexLess(a, b)
\* bytes.Compare
LexCmp(a, b) == IF a = b THEN 0 ELSE IF LexLess(a, b) THEN -1 ELSE 1

IsPrefix(p, k) == Len(p) <= Len(k) /\ SubSeq(k, 1, Len(p)) = p

\* U really is sorted and duplicate free (checked by every model as an ASSUME)
UOrdered == \A i \in 1..(Len(U) - 1) : LexLess(U[i], U[i + 1])

Range(s) == {s[i] : i \in DOMAIN s}

\* ascending sequence of a finite set of keys / of integers
RECURSIVE SortedKeys(_)
SortedKeys(S) ==
  IF S = {} THEN <<>>
  ELSE LET m == CHOOSE x \in S : \A y \in S : LexLeq(x, y)
       IN <<m>> \o SortedKeys(S \ {m})

RECURSIVE SortedInts(_)
SortedInts(S) ==
  IF S = {} THEN <<>>
  ELSE LET m == CHOOSE x \in S : \A y \in S : x <= y
       IN <<m>> \o SortedInts(S \ {m})

\* sorted (non-decreasing) sequence holding the elements of a sequence of integers
RECURSIVE InsertInt(_, _)
InsertInt(s, x) == IF s = <<>> THEN <<x>>
                   ELSE IF x < s[1] THEN <<x>> \o s ELSE <<s[1]>> \o InsertInt(Tail(s), x)
RECURSIVE SortInts(_)
SortInts(s) == IF s = <<>> THEN <<>> ELSE InsertInt(SortInts(Tail(s)), s[1])

\* remove the first occurrence of x
RECURSIVE RemoveFirst(_, _)
RemoveFirst(s, x) == IF s = <<>> THEN <<>>
                     ELSE IF s[1] = x THEN Tail(s) ELSE <<s[1]>> \o RemoveFirst(Tail(s), x)

RECURSIVE SumSeq(_)
SumSeq(s) == IF s = <<>> THEN 0 ELSE s[1] + SumSeq(Tail(s))

Prefix(s, n) == SubSeq(s, 1, IF n < Len(s) THEN n ELSE Len(s))

Last(s) == s[Len(s)]
Front(s) == SubSeq(s, 1, Len(s) - 1)

\* option values (TLC cannot compare a record with a string, so "none" is a record too)
None == [ok |-> FALSE, k |-> <<>>]
Some(k) == [ok |-> TRUE, k |-> k]
NoneI == [ok |-> FALSE, v |-> 0]
SomeI(v) == [ok |-> TRUE, v |-> v]
=============================================================================
