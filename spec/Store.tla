------------------------------ MODULE Store ------------------------------
(* Implementation-shaped model of the job checkpoint store of reduction
   (storage/snapshots/store.go, snapshot.go, savepoint_artifact.go pathSegment,
   storage/locations LocalDirectory.List order) and of the receiving end of its
   retention notifications (dkv/recovery CheckpointList.RetainOnly).
   DESIGN.md calls this the checkpoint part of Job.tla.  Decides C12 and C13.

   One action per API call / critical section / storage operation:

     caller (job task queue)  : CreateCheckpoint, CreateSavepoint, OpAck(id, op),
                                SrAck(id, sr, states)  -- any id, any sender
     publication goroutine n  : PublishWrite(n)   fileStore.Write + the locked
                                                  section of finishSnapshotAsync
     spawned by it, unordered : PublishDelete(d)  fileStore.Remove(obsolete)
                                NotifySend(n)     the goroutine's channel send
     job's receiver loop      : NotifyDeliver     UpdateRetainedCheckpoints on
                                                  every operator's DKV
     fault                    : Restart = crash (every storage operation not yet
                                executed is lost) + NewStore over the same
                                storage + LoadCheckpoint

   The model is the REPAIRED design (fix commits for DESIGN 7 #16 #18 #19 #28 on
   branch verif-store).  The switches Pre_* re-enable what the code did before
   those commits; they are not listed findings.  The checks use them (a) to show
   that the invariants are not vacuous (TLC must find the counterexample) and
   (b) to generate schedules only the unrepaired design admits, which the real
   code must serialise or survive.
     Pre_DupSrAppended    #16  a duplicate runner ack's split states are appended
     Pre_ListLexical      #18  LoadCheckpoint takes the first *.snapshot of the
                               listing; base64url text order /= numeric order
     Pre_LateClobbers     #19  a publication that finishes after a newer one
                               replaces it, deletes its file, announces itself
     Pre_NotifyUnordered  #19  notification goroutines send in any order
     Pre_RetainDropsNewer #28  RetainOnly drops checkpoints newer than every
                               retained id (still being assembled)
   Two more switches describe designs the code never had; they generate the
   schedules a regression of that kind would admit (the real code must
   serialise them or stay within the property):
     Pre_AckUnlocked           an acknowledgement releases stateMu between its
                               bookkeeping and finishSnapshot (the splitter's
                               Checkpoint()); the complete snapshot stays pending
                               in between: AckFinish(f) is the second half
     Pre_ForwardConcurrent     RpcMode: the job's receiver loop takes the next
                               retained-set while UpdateRetainedCheckpoints
                               requests of the previous one are still in flight

   Burst = TRUE restricts the call strings to back-to-back acknowledgements:
   while a checkpoint is pending only its next missing acknowledgement is
   enabled (one successor per state), so that many overlapping publications
   (every order of their write / delete / notify steps, a subscriber that
   receives late) are enumerated exhaustively.

   RpcMode = TRUE models the job -> operator boundary instead of an atomic
   delivery: Forward (the job's receiver loop takes one retained-set and issues
   UpdateRetainedCheckpoints to every operator) and OpHandle(o, i) (operator o
   handles one of the requests in flight to it; requests in flight to the same
   operator at the same time are not ordered by the transport).

   Not modelled here (C15): pendingSnapshot is never cleared when the assembly
   is replaced (#17) -- `pend` only goes away by completion or Restart, as in
   the code; RegisterSourceSplitter is called once per store (#26).          *)
EXTENDS Integers, Sequences, FiniteSets, TLC, Json

CONSTANTS Ops, Srs,        \* the assembly (sets of node names)
          XOp, XSr,        \* a foreign operator / source runner
          StartId,         \* storage initially holds the snapshot of StartId (0 = empty)
          IdSpan,          \* ids stay <= StartId + IdSpan
          MaxLen,          \* steps per behaviour
          MaxRestarts,
          MaxInFlight,     \* concurrent publications
          Acts,            \* enabled action classes
          TokCounts,       \* numbers of split states an ack may carry
          MaxTok,          \* bound on split-state tokens handed to one pending checkpoint
          AckOffsets,      \* ids an ack may name: last id handed out + k - 1, k in AckOffsets (0 late, 1 current, 2 future)
          DirMode,         \* TRUE: enumerate directory states, only Restart
          Burst,           \* TRUE: acknowledgements of a pending checkpoint arrive back to back
          RpcMode,         \* TRUE: job -> operator requests are separate steps (Forward / OpHandle)
          Pre_DupSrAppended, Pre_ListLexical, Pre_LateClobbers,
          Pre_NotifyUnordered, Pre_RetainDropsNewer,
          Pre_AckUnlocked, Pre_ForwardConcurrent

VARIABLES ckptId,      \* storeState.checkpointID
          pend,        \* storeState.pendingSnapshot
          cur,         \* storeState.completedSnapshots (0 = none)
          files,       \* ids of the *.snapshot files in storage
          writes,      \* publications whose Write has not executed
          dels,        \* spawned Remove calls not executed
          ntfs,        \* spawned notification goroutines that have not sent (spawn order)
          chan,        \* notifications sent, not yet delivered (FIFO channel)
          delivered,   \* retained-sets delivered in this incarnation
          held,        \* held[op] = DKV checkpoint ids operator op keeps
          nfin,        \* completions in this incarnation (splitter.Checkpoint calls)
          fin,         \* Pre_AckUnlocked: finishSnapshot calls running outside the lock
          rpc,         \* RpcMode: rpc[op] = UpdateRetainedCheckpoints requests in flight to op (issue order)
          told,        \* RpcMode: told[op] = id named by the last request op handled (0 = none)
          restarts,
          \* ghosts
          handed,      \* ids handed out in this incarnation
          written,     \* ids whose snapshot file was ever written (all incarnations)
          ackd,        \* <<id, node>> acked since id was handed out (this incarnation)
          bad,         \* names of properties broken by an action (action-level ghosts)
          hist

vars == <<ckptId, pend, cur, files, writes, dels, ntfs, chan, delivered, held, nfin, fin, rpc, told,
          restarts, handed, written, ackd, bad, hist>>
view == <<ckptId, pend, cur, files, writes, dels, ntfs, chan, delivered, held, nfin, fin, rpc, told,
          restarts, handed, written, ackd, bad>>

Max(S) == IF S = {} THEN 0 ELSE CHOOSE x \in S : \A y \in S : y <= x
Last(s) == s[Len(s)]
Range(s) == {s[i] : i \in DOMAIN s}
\* depth-bounded exhaustive runs: the depth is part of the state (sound and deterministic)
viewN == <<view, Len(hist)>>
\* cover generation: states are distinguished by the step that led to them
viewT == <<view, IF hist = <<>> THEN <<>> ELSE Last(hist)>>

-----------------------------------------------------------------------------
(* File name order.  pathSegment(id) = base64url(bigendian(2^64-1-id)); for
   id < 2^28 only the last five characters differ: sextets 7..10 and the
   final 4-bit group (shifted left by 2).  LocalDirectory.List (WalkDir) and S3
   list in byte order of the names.                                          *)
Rank(d) == IF d < 26 THEN 65 + d ELSE IF d < 52 THEN 97 + d - 26
           ELSE IF d < 62 THEN 48 + d - 52 ELSE IF d = 62 THEN 45 ELSE 95
Name(id) == LET r == 268435455 - id
            IN <<Rank((r \div 4194304) % 64), Rank((r \div 65536) % 64),
                 Rank((r \div 1024) % 64), Rank((r \div 16) % 64), Rank((r % 16) * 4)>>
RECURSIVE LexLessFrom(_, _, _)
LexLessFrom(a, b, i) == IF i > Len(a) THEN FALSE
                        ELSE IF a[i] # b[i] THEN a[i] < b[i] ELSE LexLessFrom(a, b, i + 1)
NameLess(x, y) == LexLessFrom(Name(x), Name(y), 1)
FirstListed(S) == CHOOSE x \in S : \A y \in S \ {x} : NameLess(x, y)

-----------------------------------------------------------------------------
NoPend == [on |-> FALSE, id |-> 0, sp |-> FALSE, opDone |-> {}, ops |-> <<>>,
           srDone |-> {}, acks |-> [s \in Srs |-> <<>>], states |-> <<>>, ntok |-> 0]
NewPend(id, sp) == [NoPend EXCEPT !.on = TRUE, !.id = id, !.sp = sp]

Window == StartId .. (StartId + IdSpan)

Init ==
  /\ IF DirMode
     THEN /\ files \in {S \in SUBSET Window : Cardinality(S) \in 1..3}
          /\ ckptId = 0 /\ cur = 0
     ELSE /\ files = IF StartId = 0 THEN {} ELSE {StartId}
          /\ ckptId = StartId /\ cur = StartId
  /\ written = files
  /\ pend = NoPend /\ writes = {} /\ dels = {} /\ ntfs = <<>> /\ chan = <<>>
  /\ delivered = <<>> /\ held = [o \in Ops |-> IF cur = 0 THEN {} ELSE {cur}]
  /\ nfin = 0 /\ restarts = 0 /\ handed = {} /\ ackd = {} /\ bad = {} /\ hist = <<>>
  /\ fin = {} /\ rpc = [o \in Ops |-> <<>>] /\ told = [o \in Ops |-> 0]

\* projection logged with every step (what the replayer compares); `bad` names
\* the properties this step breaks: action-level ghosts plus state predicates
\* evaluated in the successor state
StateBad(c, f, h) ==
  (IF written' # {} /\ Max(written') \notin f THEN {"NewestSurvives"} ELSE {})
  \cup (IF c # 0 /\ \E o \in Ops : c \notin h[o] THEN {"OperatorsKeepNewest"} ELSE {})
Proj(c, p, f, w, d, nt, ch, h, b) ==
  [cur |-> c, pid |-> IF p.on THEN p.id ELSE 0, files |-> f,
   w |-> {x.id : x \in w}, d |-> d, nt |-> nt, ch |-> ch, held |-> h,
   newest |-> Max(written'), fin |-> {x.k : x \in fin'}, rpc |-> rpc',
   bad |-> (b \ bad) \cup StateBad(c, f, h)]
Log(r) == hist' = Append(hist, r @@ Proj(cur', pend', files', writes', dels', ntfs', chan', held', bad'))

-----------------------------------------------------------------------------
\* Store.CreateCheckpoint / CreateSavepoint
Floor == Max(written \cup handed)

Create(sp) ==
  /\ (IF sp THEN "Savepoint" ELSE "Create") \in Acts
  /\ UNCHANGED <<cur, files, writes, dels, ntfs, chan, delivered, held, nfin, fin, rpc, told, restarts, written>>
  /\ Burst => Cardinality(writes) + Cardinality(fin) < MaxInFlight
  /\ IF pend.on
     THEN /\ UNCHANGED <<ckptId, handed, ackd, bad>>
          /\ IF sp /\ ~pend.sp
             THEN /\ pend' = [pend EXCEPT !.sp = TRUE]
                  /\ Log([a |-> "Create", sp |-> sp, ret |-> "folded", id |-> pend.id, floor |-> Floor])
             ELSE /\ pend' = pend
                  /\ Log([a |-> "Create", sp |-> sp, ret |-> "inprogress", id |-> 0, floor |-> Floor])
     ELSE /\ ckptId < StartId + IdSpan
          /\ ckptId' = ckptId + 1
          /\ pend' = NewPend(ckptId + 1, sp)
          /\ handed' = handed \cup {ckptId + 1}
          /\ ackd' = {x \in ackd : x[1] # ckptId + 1}
          /\ bad' = bad \cup (IF ckptId + 1 <= Floor THEN {"IdsStrictlyIncrease"} ELSE {})
          /\ Log([a |-> "Create", sp |-> sp, ret |-> "created", id |-> ckptId + 1, floor |-> Floor])

\* ids an acknowledgement may name: the pending/last id, an older one, a future one
AckIds == {i \in {ckptId + k - 1 : k \in AckOffsets} : i >= 0}

Complete(p) == p.opDone = Ops /\ p.srDone = Srs

\* exactly one entry per operator; per runner exactly the states of its one counted (first) ack
\* (tokens are unique, so sets suffice)
Whole(ops, states, cands) ==
  /\ Range(ops) = Ops /\ Len(ops) = Cardinality(Ops)
  /\ \A s \in Srs : Len(cands[s]) >= 1
  /\ LET want == UNION {Range(cands[s][1]) : s \in Srs}
     IN Range(states) = want /\ Len(states) = Cardinality(want)

\* checkpoint ids whose publication was decided in this incarnation
Decided == {w.id : w \in writes} \cup {f.id : f \in fin} \cup (written \cap handed)

\* common tail of AddOperatorSnapshot / AddSourceSnapshot: isComplete => finishSnapshot.
\* The code runs finishSnapshot (the splitter's Checkpoint(), spawning the publication) and clears
\* pendingSnapshot inside the same critical section; with Pre_AckUnlocked the lock is released after
\* the bookkeeping and the complete snapshot stays pending until AckFinish.
AfterAck(p) ==
  IF p.on /\ Complete(p)
  THEN /\ Cardinality(writes) + Cardinality(fin) < MaxInFlight
       /\ bad' = bad \cup (IF \A nd \in Ops \cup Srs : <<p.id, nd>> \in ackd' THEN {} ELSE {"OnlyWhenAllAcked"})
                     \cup (IF Whole(p.ops, p.states, p.acks) THEN {} ELSE {"PublishedWhole"})
                     \cup (IF p.id \in Decided THEN {"PublishedOnce"} ELSE {})
       /\ IF Pre_AckUnlocked
          THEN /\ fin' = fin \cup {[id |-> p.id, sp |-> p.sp, ops |-> p.ops, states |-> p.states,
                                     cands |-> p.acks, k |-> nfin + Cardinality(fin) + 1]}
               /\ pend' = p
               /\ UNCHANGED <<writes, nfin>>
          ELSE /\ writes' = writes \cup {[id |-> p.id, sp |-> p.sp, ops |-> p.ops, states |-> p.states,
                                           cands |-> p.acks, spl |-> nfin + 1]}
               /\ nfin' = nfin + 1
               /\ pend' = NoPend
               /\ UNCHANGED fin
  ELSE /\ pend' = p /\ UNCHANGED <<writes, nfin, fin, bad>>

\* what an acknowledgement step logs about the publication it decides
PubOf(p2) == IF p2.on /\ Complete(p2)
             THEN [id |-> p2.id, ops |-> p2.ops, states |-> p2.states, cands |-> p2.acks,
                   spl |-> nfin + Cardinality(fin) + 1, again |-> p2.id \in Decided, open |-> Pre_AckUnlocked]
             ELSE [id |-> 0]

Good(id) == pend.on /\ pend.id = id

OpAck(id, op) ==
  /\ (IF Good(id) /\ op \in Ops /\ op \notin pend.opDone THEN "OpAck" ELSE "BadAck") \in Acts
  /\ UNCHANGED <<ckptId, cur, files, dels, ntfs, chan, delivered, rpc, told, restarts, handed, written>>
  /\ ackd' = IF id \in handed THEN ackd \cup {<<id, op>>} ELSE ackd
  /\ LET ret == IF ~pend.on THEN "nopending" ELSE IF pend.id # id THEN "wrongid" ELSE "ok"
         counts == Good(id) /\ op \in Ops /\ op \notin pend.opDone
         p2 == IF counts THEN [pend EXCEPT !.opDone = @ \cup {op}, !.ops = Append(@, op)] ELSE pend
         \* the operator took DKV checkpoint `id` before it acknowledged
         dkv == counts /\ id \notin held[op]
     IN \* an acknowledgement that does not name the pending checkpoint is refused at once
        /\ IF Good(id) THEN AfterAck(p2) ELSE pend' = p2 /\ UNCHANGED <<writes, nfin, fin, bad>>
        /\ held' = IF dkv THEN [held EXCEPT ![op] = @ \cup {id}] ELSE held
        /\ Log([a |-> "OpAck", id |-> id, op |-> op, ret |-> ret, dkv |-> dkv, pub |-> IF Good(id) THEN PubOf(p2) ELSE [id |-> 0]])

SrAck(id, sr, cnt) ==
  /\ (IF Good(id) /\ sr \in Srs /\ sr \notin pend.srDone THEN "SrAck" ELSE "BadAck") \in Acts
  /\ UNCHANGED <<ckptId, cur, files, dels, ntfs, chan, delivered, held, rpc, told, restarts, handed, written>>
  /\ ackd' = IF id \in handed THEN ackd \cup {<<id, sr>>} ELSE ackd
  /\ LET ret == IF ~pend.on THEN "nopending" ELSE IF pend.id # id THEN "wrongid"
                ELSE IF sr \notin Srs THEN "unknown" ELSE "ok"
         base == id * 100 + (IF Good(id) THEN pend.ntok ELSE 90)
         toks == [i \in 1..cnt |-> base + i]
         match == Good(id) /\ sr \in Srs
         first == match /\ sr \notin pend.srDone
         p1 == IF Good(id) THEN [pend EXCEPT !.ntok = @ + (IF cnt = 0 THEN 1 ELSE cnt)] ELSE pend
         p2 == IF first THEN [p1 EXCEPT !.srDone = @ \cup {sr}, !.acks[sr] = Append(@, toks), !.states = @ \o toks]
               ELSE IF match THEN [p1 EXCEPT !.acks[sr] = Append(@, toks),
                                             !.states = IF Pre_DupSrAppended THEN @ \o toks ELSE @]
               ELSE p1
     IN /\ Good(id) => pend.ntok + cnt <= MaxTok
        \* a wrong id or an unknown runner is refused before the completion test
        /\ IF match THEN AfterAck(p2) ELSE pend' = p2 /\ UNCHANGED <<writes, nfin, fin, bad>>
        /\ Log([a |-> "SrAck", id |-> id, sr |-> sr, states |-> toks, ret |-> ret,
                pub |-> IF match THEN PubOf(p2) ELSE [id |-> 0]])

\* Pre_AckUnlocked only: the second half of an acknowledgement that found the snapshot complete --
\* splitter.Checkpoint() returns, pendingSnapshot is cleared if it is still this one, the
\* publication goroutine is spawned
AckFinish(f) ==
  /\ UNCHANGED <<ckptId, cur, files, dels, ntfs, chan, delivered, held, rpc, told, restarts, handed, written, ackd, bad>>
  /\ fin' = fin \ {f}
  /\ nfin' = nfin + 1
  /\ writes' = writes \cup {[id |-> f.id, sp |-> f.sp, ops |-> f.ops, states |-> f.states, cands |-> f.cands, spl |-> f.k]}
  /\ pend' = IF pend.on /\ pend.id = f.id THEN NoPend ELSE pend
  /\ Log([a |-> "AckFinish", id |-> f.id, k |-> f.k])

-----------------------------------------------------------------------------
\* publication goroutine of checkpoint w.id: fileStore.Write returns, then the
\* locked section of finishSnapshotAsync
PublishWrite(w) ==
  /\ "Write" \in Acts
  /\ UNCHANGED <<ckptId, pend, chan, delivered, held, nfin, fin, rpc, told, restarts, handed, ackd>>
  /\ files' = files \cup {w.id}
  /\ written' = written \cup {w.id}
  /\ writes' = writes \ {w}
  /\ LET late == cur > w.id
     IN IF late /\ ~Pre_LateClobbers
        THEN \* superseded: it is itself the obsolete one
             /\ dels' = dels \cup {[by |-> w.id, ids |-> {w.id}]}
             /\ UNCHANGED <<cur, ntfs>>
        ELSE /\ cur' = w.id
             /\ dels' = dels \cup (IF cur = 0 THEN {} ELSE {[by |-> w.id, ids |-> {cur}]})
             /\ ntfs' = IF cur = 0 THEN ntfs ELSE Append(ntfs, w.id)
  /\ bad' = bad \cup (IF cur' # Max({cur} \cup {w.id}) THEN {"CurrentIsNewest"} ELSE {})
  /\ Log([a |-> "PublishWrite", id |-> w.id, sp |-> w.sp])

PublishDelete(d) ==
  /\ "Delete" \in Acts
  /\ UNCHANGED <<ckptId, pend, cur, writes, ntfs, chan, delivered, held, nfin, fin, rpc, told, restarts, handed, written, ackd>>
  /\ files' = files \ d.ids
  /\ dels' = dels \ {d}
  /\ bad' = bad \cup (IF Max(written) \in d.ids THEN {"NewestSurvives"} ELSE {})
  /\ Log([a |-> "PublishDelete", by |-> d.by, ids |-> d.ids])

\* the notification goroutine of publication n performs its channel send; the
\* repaired code chains the goroutines so that they send in spawn (= id) order
NotifySend(i) ==
  /\ "Notify" \in Acts
  /\ UNCHANGED <<ckptId, pend, cur, files, writes, dels, delivered, held, nfin, fin, rpc, told, restarts, handed, written, ackd, bad>>
  /\ i \in DOMAIN ntfs
  /\ Pre_NotifyUnordered \/ i = 1
  /\ ntfs' = SubSeq(ntfs, 1, i - 1) \o SubSeq(ntfs, i + 1, Len(ntfs))
  /\ chan' = Append(chan, ntfs[i])
  /\ Log([a |-> "NotifySend", id |-> ntfs[i]])

\* the job's receiver loop takes one retained-set from the channel and every
\* operator's DKV applies RetainOnly
Retain(S, n) == IF Pre_RetainDropsNewer THEN S \cap {n} ELSE {x \in S : x >= n}
NotifyDeliver ==
  /\ "Notify" \in Acts /\ ~RpcMode
  /\ UNCHANGED <<ckptId, pend, cur, files, writes, dels, ntfs, nfin, fin, rpc, told, restarts, handed, written, ackd>>
  /\ chan # <<>>
  /\ LET n == Head(chan)
     IN /\ chan' = Tail(chan)
        /\ delivered' = Append(delivered, n)
        /\ held' = [o \in Ops |-> Retain(held[o], n)]
        /\ bad' = bad \cup (IF delivered # <<>> /\ n < Last(delivered) THEN {"RetainNamesNewest"} ELSE {})
                      \cup (IF \E o \in Ops : cur \in held[o] /\ cur \notin Retain(held[o], n) THEN {"OperatorsKeepNewest"} ELSE {})
        /\ Log([a |-> "NotifyDeliver", id |-> n,
                panics |-> {o \in Ops : n \notin held[o]}])   \* RetainOnly panics when it holds none of the named ids

\* RpcMode.  The job's receiver loop (jobs.New) takes one retained-set from the channel and calls
\* assembly.UpdateRetainedCheckpoints: one request per operator, all in flight together; the loop
\* receives again only when every response is in.
Forward ==
  /\ "Notify" \in Acts /\ RpcMode
  /\ UNCHANGED <<ckptId, pend, cur, files, writes, dels, ntfs, held, nfin, fin, told, restarts, handed, written, ackd>>
  /\ chan # <<>>
  /\ Pre_ForwardConcurrent \/ \A o \in Ops : rpc[o] = <<>>
  /\ LET n == Head(chan)
     IN /\ chan' = Tail(chan)
        /\ delivered' = Append(delivered, n)
        /\ rpc' = [o \in Ops |-> Append(rpc[o], n)]
        /\ bad' = bad \cup (IF delivered # <<>> /\ n < Last(delivered) THEN {"RetainNamesNewest"} ELSE {})
        /\ Log([a |-> "Forward", id |-> n, busy |-> {o \in Ops : rpc[o] # <<>>}])

\* operator o handles one of the requests in flight to it (HandleRemoveCheckpoints -> RetainOnly)
OpHandle(o, i) ==
  /\ "Notify" \in Acts /\ RpcMode
  /\ UNCHANGED <<ckptId, pend, cur, files, writes, dels, ntfs, chan, delivered, nfin, fin, restarts, handed, written, ackd>>
  /\ i \in DOMAIN rpc[o]
  /\ LET n == rpc[o][i]
     IN /\ rpc' = [rpc EXCEPT ![o] = SubSeq(@, 1, i - 1) \o SubSeq(@, i + 1, Len(@))]
        /\ told' = [told EXCEPT ![o] = n]
        /\ held' = [held EXCEPT ![o] = Retain(@, n)]
        /\ bad' = bad \cup (IF n < told[o] THEN {"RetainNamesNewest"} ELSE {})
                      \cup (IF cur \in held[o] /\ cur \notin Retain(held[o], n) THEN {"OperatorsKeepNewest"} ELSE {})
        /\ Log([a |-> "OpHandle", op |-> o, id |-> n, pos |-> i])

\* crash + new Store over the same storage + LoadCheckpoint
Restart ==
  /\ "Restart" \in Acts
  /\ UNCHANGED <<files, written>>
  /\ restarts < MaxRestarts
  /\ restarts' = restarts + 1
  /\ pend' = NoPend /\ writes' = {} /\ dels' = {} /\ ntfs' = <<>> /\ chan' = <<>> /\ delivered' = <<>>
  /\ nfin' = 0 /\ handed' = {} /\ ackd' = {}
  /\ fin' = {} /\ rpc' = [o \in Ops |-> <<>>] /\ told' = [o \in Ops |-> 0]
  /\ LET pick == IF files = {} THEN 0 ELSE IF Pre_ListLexical THEN FirstListed(files) ELSE Max(files)
     IN /\ ckptId' = pick /\ cur' = pick
        /\ held' = [o \in Ops |-> IF pick = 0 THEN {} ELSE {pick}]
        /\ bad' = bad \cup (IF pick # Max(files) THEN {"LoadsNewest"} ELSE {})
        /\ Log([a |-> "Restart", pick |-> pick, want |-> Max(files), first |-> IF files = {} THEN 0 ELSE FirstListed(files)])

\* Burst: the next missing acknowledgement of the pending checkpoint (operators first)
BurstAck ==
  IF pend.opDone # Ops THEN OpAck(pend.id, CHOOSE o \in Ops \ pend.opDone : TRUE)
  ELSE \E c \in TokCounts : SrAck(pend.id, CHOOSE s \in Srs \ pend.srDone : TRUE, c)

Next ==
  /\ Len(hist) < MaxLen
  /\ IF DirMode THEN restarts = 0 /\ Restart
     ELSE IF Burst /\ pend.on /\ ~Complete(pend) THEN BurstAck
     ELSE \/ Create(FALSE) \/ Create(TRUE)
          \/ \E id \in AckIds : \E op \in Ops \cup {XOp} : OpAck(id, op)
          \/ \E id \in AckIds : \E sr \in Srs \cup {XSr} : \E c \in TokCounts : SrAck(id, sr, c)
          \/ \E f \in fin : AckFinish(f)
          \/ \E w \in writes : PublishWrite(w)
          \/ \E d \in dels : PublishDelete(d)
          \/ \E i \in DOMAIN ntfs : NotifySend(i)
          \/ NotifyDeliver
          \/ Forward
          \/ \E o \in Ops : \E i \in DOMAIN rpc[o] : OpHandle(o, i)
          \/ Restart

Spec == Init /\ [][Next]_vars

-----------------------------------------------------------------------------
(* C12 *)
\* a publication exists only for a checkpoint every node of the assembly acked
OnlyWhenAllAcked == \A w \in writes : \A nd \in Ops \cup Srs : <<w.id, nd>> \in ackd
PublishedWhole == \A w \in writes : Whole(w.ops, w.states, w.cands)
\* one pending checkpoint: ids handed out and neither completed nor lost
AtMostOnePending == Cardinality({i \in handed : i \notin {w.id : w \in writes} /\ i \notin written}) <= 1
\* ghost-recorded action properties: IdsStrictlyIncrease, OnlyWhenAllAcked, PublishedWhole,
\* CurrentIsNewest, NewestSurvives, RetainNamesNewest (monotone), OperatorsKeepNewest, LoadsNewest
NoBad == bad = {}
\* a checkpoint id is published at most once: no two publications of one id in flight
PublishedOnce == \A w1, w2 \in writes : w1.id = w2.id => w1 = w2

(* C13 *)
NewestSurvives == written # {} => Max(written) \in files
\* at rest the last retained-set delivered names the newest completed checkpoint
Quiet == writes = {} /\ fin = {} /\ ntfs = <<>> /\ chan = <<>> /\ \A o \in Ops : rpc[o] = <<>>
RetainNamesNewest == /\ (Quiet /\ delivered # <<>>) => Last(delivered) = cur
                     \* at the job -> operator boundary: the last request an operator handled
                     /\ Quiet => \A o \in Ops : told[o] # 0 => told[o] = cur
\* every operator still holds the DKV checkpoint of the newest completed job checkpoint
OperatorsKeepNewest == cur # 0 => \A o \in Ops : cur \in held[o]
CurrentIsNewest == Quiet => cur = Max(files \cup {cur})

TypeOK == /\ ckptId \in Nat /\ cur \in Nat /\ files \subseteq Nat
          /\ Cardinality(writes) + Cardinality(fin) <= MaxInFlight

-----------------------------------------------------------------------------
\* replay-behaviour export: Dump for -simulate / exhaustive histories (maximal
\* behaviours); DumpAll with VIEW viewT prints one shortest history per
\* (incoming step, state) pair of the bounded state graph: a transition cover.
DumpAll == hist # <<>> => PrintT(<<"BEHAVIOUR", ToJson(hist)>>)
Dump == (Len(hist) >= MaxLen \/ ~ENABLED Next) => PrintT(<<"BEHAVIOUR", ToJson(hist)>>)
=============================================================================
