---------------------------- MODULE Savepoint ----------------------------
(* Property C14: savepoints are self-contained and restore the checkpointed
   job state; requesting one does not disturb the running job and folds into
   a checkpoint that is already in progress.

   Implementation-shaped model of
     storage/snapshots/store.go            CreateCheckpoint, CreateSavepoint, Add*Snapshot,
                                           finishSnapshot(Async), LoadCheckpoint(savepointURI)
     storage/snapshots/savepoint_artifact.go  CreateSavepointArtifact, RestoreCheckpointFromSavepointArtifact
     dkv/recovery/list_files.go            ListFiles / ListCheckpointFiles
     dkv/recovery/checkpoint_list.go       Add, Save, RetainOnly (+ Destroy of dropped WALs)
     jobs/job.go                           HandleCreateSavepoint, ticker, SavepointURI start

   One action per critical section / storage operation:

     Ev            one source record (burst) read, routed and applied by its operator
     Flush(o)      memtable of o -> new L0 table            (dkv background)
     Compact(o)    L0 (+ deeper) tables of o -> one deeper table; unreferenced table files go
     Tick          job ticker: Store.CreateCheckpoint; ErrCheckpointInProgress => nothing happens
     Sp            HandleCreateSavepoint -> Store.CreateSavepoint: folds into the pending
                   checkpoint (created = FALSE, nothing is started) or starts a new one
     SpAgain       a second request while the pending checkpoint already is a savepoint
     (Tick/Sp that start checkpoint n: StartCheckpoint(n) reaches every runner, which captures
      its cursors - the cut - and acknowledges BEFORE it forwards the barrier)
     Ack(SR)       the runners' acknowledgements reach the store; the barriers flow and every
                   operator takes its DKV checkpoint n: WAL file n saved, entry n appended to its
                   checkpoints document
     Ack(o)        operator o's acknowledgement, in any order; the last one completes the
                   checkpoint: pending is cleared AT ONCE, publication is an asynchronous task;
                   the job checkpoint lists the operator checkpoints in ack order
     PubWrite      the task writes the job snapshot file, drops the previous one, queues the
                   retention notification [n]; for a savepoint it goes on to the artifact
     Retain(o)     operator o: RetainOnly(ids) + Save: WALs of dropped DKV checkpoints are
                   deleted, table files nothing references any more go
     SpCopyOp(o)   CreateSavepointArtifact, operator o's turn (ack order): READ o's checkpoints document AS
                   IT IS NOW, list the files of one of its entries, copy them and the document;
                   after the last operator: copy the job snapshot file (= savepoint complete,
                   its URI exists)
     Wipe          all working storage and all job checkpoint files are deleted
     Restore(N)    new job with SavepointURI: copy back what the copied documents list, then
                   every new operator opens DKV checkpoint n of the documents it is handed

   Deviation (DESIGN 7 #23): Dev_ListLatest = TRUE models recovery.ListFiles as found
   ("Always use the latest checkpoint": the LAST entry of the document, whatever id the
   savepoint has). FALSE = the repaired code: the entry whose id is the savepoint's.

   RetainKeepsNewer: FALSE = RetainOnly drops every entry not named (tree at 2c5b947);
   TRUE = entries newer than every named id are kept (store family's repair of #28).

   Overlapping publications: finishSnapshotAsync runs on its own goroutine per checkpoint, so the job
   snapshot write of checkpoint n can still be in flight when checkpoint n+1 completes and is
   published. PubWrite(t) takes ANY task; a task older than the newest published checkpoint is
   SUPERSEDED: it replaces nothing, removes nothing, announces nothing - but a superseded SAVEPOINT
   still gets its artifact (its id was handed out); its own job snapshot file goes afterwards.
   SpHold = TRUE is a generation directive: the savepoint's write is held until a newer checkpoint has
   been published (every generated behaviour then has the overlap).

   Savepoint chains (Gens = 2): a Restore into the same worker count that is not the last generation's
   does not end the behaviour: the job started from savepoint n keeps running (checkpoint ids continue
   above n, the operators' lists start with the one entry n they were opened from), takes further
   checkpoints and a savepoint of its own, is wiped and restored again - every savepoint, also one
   taken by a job that was itself started from a savepoint, restores ITS OWN cut.

   A file is a record [o, k, id, ev]; its content (`ev`, the events whose effects it holds) is
   part of its name because table and WAL files are immutable. The checkpoints document of
   operator o is ck[o] (RetainOnly+Save and Add+Save are single steps here; their inner
   schedule is C08/C09's subject, Dkv.tla). *)
EXTENDS Integers, Sequences, FiniteSets, TLC, Json

CONSTANTS NOps,            \* operators (= workers) of the running job
          MaxEv,           \* events (bursts) at most
          MaxCkpt,         \* checkpoint ids handed out at most
          MaxFlush,        \* memtable flushes at most (all operators)
          MaxCompact,      \* compactions at most
          RestoreNs,       \* operator counts a restore may choose from
          Dev_ListLatest,  \* DESIGN 7 #23
          RetainKeepsNewer,
          SpAfter,         \* the savepoint is requested only after SpAfter checkpoints of this generation's job have been
                           \* published (0 for exhaustive runs; generation spreads the request over the job's life with it)
          SpHold,          \* generation directive: the savepoint's snapshot write waits until a newer checkpoint is published
          Gens,            \* savepoint generations: 1 = savepoint, wipe, restore; 2 = the restored job goes on to a second one
          MaxLen           \* behaviour length bound (generation; large for exhaustive runs)

VARIABLES delivered,  \* events 1..delivered have been applied (event e by operator Owner(e))
          mem,        \* [Ops -> SUBSET Ev]   unflushed events (memtable = tail of the WAL)
          l0,         \* [Ops -> Seq(File)]   live L0 tables, oldest first
          deep,       \* [Ops -> SUBSET File] live tables of deeper levels
          ntab, nwal, \* [Ops -> Nat]         next table / WAL file number
          ck,         \* [Ops -> Seq(Entry)]  the operator's checkpoint list = its saved document
          work,       \* set of File          files present in working storage
          nflush, ncompact,
          nextId,     \* store.state.checkpointID
          pending,    \* store.state.pendingSnapshot: [id (0 = none), sp, acks, ord (operators in ack order)]
          pubq,       \* publication tasks not yet written: set of [id, sp, ord]
          completed,  \* id of store.state.completedSnapshots (0 = none)
          jobFiles,   \* ids with a job snapshot file in job storage
          retq,       \* retention notifications on their way: Seq([id, todo])
          nsp, nspErr, nbusy,
          spId, spStage, spNext, spOrd, spFiles, spDocs,   \* the savepoint artifact (spOrd: its operator checkpoints in ack order) being / having been built
          cut,        \* [id -> delivered at the barrier]  (ghost: the cut of checkpoint id)
          taken,      \* [Ops -> [id -> Entry]]            (ghost: operator o's DKV checkpoint id as taken)
          phase,      \* "run" | "wiped" | "restored"
          restored,   \* result of the last Restore (n = 0: none yet)
          gen,        \* savepoint generation: 1 = the first job, 2 = the job started from the first savepoint
          hist

vars == <<delivered, mem, l0, deep, ntab, nwal, ck, work, nflush, ncompact, nextId, pending, pubq,
          completed, jobFiles, retq, nsp, nspErr, nbusy, spId, spStage, spNext, spOrd, spFiles, spDocs, cut, taken,
          phase, restored, gen, hist>>
view == <<delivered, mem, l0, deep, ntab, nwal, ck, work, nflush, ncompact, nextId, pending, pubq,
          completed, jobFiles, retq, nsp, nspErr, nbusy, spId, spStage, spNext, spOrd, spFiles, spDocs, cut, taken,
          phase, restored, gen>>

Ops == 1..NOps
Ev  == 1..MaxEv
SR  == 0                     \* the source runners' acknowledgements (released together)
Owner(e) == ((e - 1) % NOps) + 1
Range(s) == {s[i] : i \in DOMAIN s}

File(o, k, id, ev) == [o |-> o, k |-> k, id |-> id, ev |-> ev]
DocFile(o) == File(o, "doc", 0, {})
NoEntry == [id |-> 0, wal |-> File(0, "wal", 0, {}), tabs |-> {}]
NoPending == [id |-> 0, sp |-> FALSE, acks |-> {}, ord |-> <<>>]

EntryFiles(e) == {e.wal} \cup e.tabs
Content(fs) == UNION {f.ev : f \in fs}

\* entry of a document: by id, or "the latest"
ById(doc, n) == IF \E i \in DOMAIN doc : doc[i].id = n
                THEN doc[CHOOSE i \in DOMAIN doc : doc[i].id = n] ELSE NoEntry
Latest(doc) == IF doc = <<>> THEN NoEntry ELSE doc[Len(doc)]
\* recovery.ListFiles / ListCheckpointFiles as used by the artifact code
Listed(doc, n) == IF Dev_ListLatest THEN Latest(doc) ELSE ById(doc, n)

\* table files something of operator o still refers to
Referenced(o, ckl, l0o, deepo) == Range(l0o) \cup deepo \cup UNION {e.tabs : e \in Range(ckl)}
Sweep(o, w, ckl, l0o, deepo) ==
  {f \in w : ~(f.o = o /\ f.k = "sst" /\ f \notin Referenced(o, ckl, l0o, deepo))}

Init ==
  /\ delivered = 0
  /\ mem = [o \in Ops |-> {}] /\ l0 = [o \in Ops |-> <<>>] /\ deep = [o \in Ops |-> {}]
  /\ ntab = [o \in Ops |-> 0] /\ nwal = [o \in Ops |-> 0]
  /\ ck = [o \in Ops |-> <<>>] /\ work = {}
  /\ nflush = 0 /\ ncompact = 0
  /\ nextId = 0 /\ pending = NoPending /\ pubq = {} /\ completed = 0 /\ jobFiles = {} /\ retq = <<>>
  /\ nsp = 0 /\ nspErr = 0 /\ nbusy = 0
  /\ spId = 0 /\ spStage = "none" /\ spNext = 0 /\ spOrd = <<>> /\ spFiles = {} /\ spDocs = [o \in Ops |-> <<>>]
  /\ cut = [i \in 1..MaxCkpt |-> 0]
  /\ taken = [o \in Ops |-> [i \in 1..MaxCkpt |-> NoEntry]]
  /\ phase = "run"
  /\ restored = [ok |-> FALSE, n |-> 0, ev |-> {}, cursor |-> 0, N |-> 0]
  /\ gen = 1
  /\ hist = <<>>

Log(r) == hist' = Append(hist, r)

JobVars  == <<nextId, pending, pubq, completed, jobFiles, retq>>
SpVars   == <<spId, spStage, spNext, spOrd, spFiles, spDocs>>
DataVars == <<delivered, mem, l0, deep, ntab, nwal, nflush, ncompact>>

-----------------------------------------------------------------------------
(* data path *)

\* While a runner's acknowledgement is outstanding its event loop is inside createCheckpoint (no reads);
\* while an operator's acknowledgement is outstanding its event loop is inside handleCheckpointBarrier
\* (holding o.mu) and the runner whose barrier completed the alignment is blocked in that call, so which
\* records still get through depends on barrier arrival order: the model delivers records only while no
\* checkpoint is in progress at the store (between the last acknowledgement and the next start).
CanDeliver(o) == pending.id = 0

Ev1 ==
  /\ phase = "run" /\ delivered < MaxEv /\ CanDeliver(Owner(delivered + 1))
  /\ delivered' = delivered + 1
  /\ mem' = [mem EXCEPT ![Owner(delivered + 1)] = @ \cup {delivered + 1}]
  /\ Log([a |-> "Ev", e |-> delivered + 1, o |-> Owner(delivered + 1)])
  /\ UNCHANGED <<l0, deep, ntab, nwal, ck, work, nflush, ncompact, JobVars, nsp, nspErr, nbusy, SpVars, cut, taken, phase, restored, gen>>

Flush(o) ==
  /\ phase = "run" /\ mem[o] # {} /\ nflush < MaxFlush
  /\ LET t == File(o, "sst", ntab[o], mem[o])
     IN /\ l0' = [l0 EXCEPT ![o] = Append(@, t)]
        /\ work' = work \cup {t}
  /\ mem' = [mem EXCEPT ![o] = {}]
  /\ ntab' = [ntab EXCEPT ![o] = @ + 1]
  /\ nflush' = nflush + 1
  /\ Log([a |-> "Flush", o |-> o])
  /\ UNCHANGED <<delivered, deep, nwal, ck, ncompact, JobVars, nsp, nspErr, nbusy, SpVars, cut, taken, phase, restored, gen>>

Compact(o) ==
  /\ phase = "run" /\ l0[o] # <<>> /\ ncompact < MaxCompact
  /\ LET t == File(o, "sst", ntab[o], Content(Range(l0[o]) \cup deep[o]))
     IN /\ deep' = [deep EXCEPT ![o] = {t}]
        /\ l0' = [l0 EXCEPT ![o] = <<>>]
        /\ work' = Sweep(o, work \cup {t}, ck[o], <<>>, {t})
  /\ ntab' = [ntab EXCEPT ![o] = @ + 1]
  /\ ncompact' = ncompact + 1
  /\ Log([a |-> "Compact", o |-> o])
  /\ UNCHANGED <<delivered, mem, nwal, ck, nflush, JobVars, nsp, nspErr, nbusy, SpVars, cut, taken, phase, restored, gen>>

-----------------------------------------------------------------------------
(* checkpoint coordination *)

\* operator o's DKV checkpoint n (db.Checkpoint + wait): WAL n saved, entry n appended, document saved
EntryNow(o, n) == [id |-> n, wal |-> File(o, "wal", nwal[o], mem[o]), tabs |-> Range(l0[o]) \cup deep[o]]

\* StartCheckpoint(n) reaches every runner: each captures its split cursors (the cut) and sends its
\* acknowledgement BEFORE it forwards the barrier (SourceRunner.createCheckpoint, then outputStream)
StartNew(n, sp) ==
  /\ nextId' = n
  /\ pending' = [id |-> n, sp |-> sp, acks |-> {}, ord |-> <<>>]
  /\ cut' = [cut EXCEPT ![n] = delivered]

\* the barriers of checkpoint n are aligned at every operator: every operator takes DKV checkpoint n
OpCkptAll(n) ==
  /\ ck' = [o \in Ops |-> Append(ck[o], EntryNow(o, n))]
  /\ taken' = [o \in Ops |-> [taken[o] EXCEPT ![n] = EntryNow(o, n)]]
  /\ work' = work \cup {EntryNow(o, n).wal : o \in Ops} \cup {DocFile(o) : o \in Ops}
  /\ nwal' = [o \in Ops |-> nwal[o] + 1]

\* ids stay reserved for what every behaviour must be able to reach: the savepoint request of this and of
\* every later generation and, under SpHold, the checkpoint that overtakes each of them
SpReqId == IF pending.sp THEN pending.id
           ELSE IF \E t \in pubq : t.sp THEN (CHOOSE t \in pubq : t.sp).id ELSE 0
NeedOver == SpHold /\ (nsp = 0 \/ (SpReqId # 0 /\ nextId = SpReqId))   \* the overtaking checkpoint is still to be started
Future == (Gens - gen) * (IF SpHold THEN 2 ELSE 1) + (IF nsp = 0 THEN 1 ELSE 0) + (IF NeedOver THEN 1 ELSE 0)
\* a tick that starts a checkpoint: the overtaker itself, or an id nothing else needs
TickMay == IF nsp = 1 /\ NeedOver THEN MaxCkpt - nextId >= Future ELSE MaxCkpt - nextId - 1 >= Future

Tick ==
  /\ phase = "run"
  /\ IF pending.id # 0
     THEN /\ nbusy = 0 /\ nbusy' = 1     \* one busy tick per behaviour is enough
          /\ Log([a |-> "Tick", res |-> "busy", id |-> 0])
          /\ UNCHANGED <<nextId, pending, cut>>
     ELSE /\ TickMay
          /\ StartNew(nextId + 1, FALSE)
          /\ Log([a |-> "Tick", res |-> "started", id |-> nextId + 1, cut |-> delivered])
          /\ UNCHANGED nbusy
  /\ UNCHANGED <<delivered, mem, l0, deep, ntab, nwal, ck, taken, work, nflush, ncompact, pubq, completed, jobFiles, retq,
                 nsp, nspErr, SpVars, phase, restored, gen>>

Sp ==
  /\ phase = "run" /\ nsp = 0 /\ completed >= restored.n + SpAfter
  /\ pending.id = 0 => MaxCkpt - nextId >= Future
  /\ nsp' = 1
  /\ IF pending.id # 0
     THEN \* fold: the in-progress checkpoint is promoted, nothing is started
          /\ pending' = [pending EXCEPT !.sp = TRUE]
          /\ Log([a |-> "Sp", id |-> pending.id, created |-> FALSE, cut |-> cut[pending.id]])
          /\ UNCHANGED <<nextId, cut>>
     ELSE /\ StartNew(nextId + 1, TRUE)
          /\ Log([a |-> "Sp", id |-> nextId + 1, created |-> TRUE, cut |-> delivered])
  /\ UNCHANGED <<delivered, mem, l0, deep, ntab, nwal, ck, taken, work, nflush, ncompact, pubq, completed, jobFiles, retq,
                 nspErr, nbusy, SpVars, phase, restored, gen>>

\* "savepoint already in-progress": an error, or the same id again - never a second checkpoint
SpAgain ==
  /\ phase = "run" /\ pending.id # 0 /\ pending.sp /\ nspErr = 0
  /\ nspErr' = 1
  /\ Log([a |-> "SpAgain", id |-> pending.id])
  /\ UNCHANGED <<DataVars, ck, work, JobVars, nsp, nbusy, SpVars, cut, taken, phase, restored, gen>>

\* who = SR: the runners' acknowledgements (released together), after which the barriers flow and every
\* operator checkpoints; who = o: operator o's acknowledgement (it can only exist after that)
Ack(who) ==
  /\ phase = "run" /\ pending.id # 0 /\ who \notin pending.acks
  /\ who # SR => SR \in pending.acks
  /\ LET acks == pending.acks \cup {who}
         full == acks = Ops \cup {SR}
         ord == IF who = SR THEN pending.ord ELSE Append(pending.ord, who)   \* snapshot.operatorCheckpoints is in ack order
     IN /\ IF full
           THEN /\ pending' = NoPending     \* cleared at once; publication is asynchronous
                /\ pubq' = pubq \cup {[id |-> pending.id, sp |-> pending.sp, ord |-> ord]}
           ELSE /\ pending' = [pending EXCEPT !.acks = acks, !.ord = ord]
                /\ UNCHANGED pubq
        /\ Log([a |-> "Ack", who |-> who, id |-> pending.id, full |-> full])
  /\ IF who = SR THEN OpCkptAll(pending.id) ELSE UNCHANGED <<ck, taken, work, nwal>>
  /\ UNCHANGED <<delivered, mem, l0, deep, ntab, nflush, ncompact, nextId, completed, jobFiles, retq, nsp, nspErr, nbusy, SpVars, cut, phase, restored, gen>>

\* finishSnapshotAsync up to (not including) the artifact. Every completed checkpoint is published by its own
\* goroutine: the writes finish in ANY order. A task older than the newest published checkpoint is superseded
\* ("obsolete on arrival"): it replaces nothing, removes nothing and announces nothing; its own file is removed
\* again - for a savepoint only after the artifact has been built from it.
PubWrite(t) ==
  /\ phase = "run" /\ t \in pubq
  /\ (SpHold /\ t.sp) => completed > t.id
  /\ LET sup == t.id < completed
     IN /\ pubq' = pubq \ {t}
        /\ IF sup
           THEN /\ jobFiles' = IF t.sp THEN jobFiles \cup {t.id} ELSE jobFiles
                /\ UNCHANGED <<retq, completed>>
           ELSE /\ jobFiles' = (jobFiles \ {completed}) \cup {t.id}
                /\ retq' = IF completed # 0 THEN Append(retq, [id |-> t.id, todo |-> Ops]) ELSE retq
                /\ completed' = t.id
        /\ IF t.sp
           THEN /\ spId' = t.id /\ spStage' = "copy" /\ spNext' = 1 /\ spOrd' = t.ord
                /\ UNCHANGED <<spFiles, spDocs>>
           ELSE UNCHANGED SpVars
        /\ Log([a |-> "PubWrite", id |-> t.id, sp |-> t.sp, cut |-> cut[t.id], retain |-> ~sup /\ completed # 0, sup |-> sup])
  /\ UNCHANGED <<DataVars, ck, work, nextId, pending, nsp, nspErr, nbusy, cut, taken, phase, restored, gen>>

Kept(doc, n) == SelectSeq(doc, LAMBDA e : e.id = n \/ (RetainKeepsNewer /\ e.id > n))

\* HandleRemoveCheckpoints -> db.UpdateRetainedCheckpoints([n]): RetainOnly + Save (+ Destroy)
Retain(o) ==
  /\ phase = "run" /\ retq # <<>> /\ o \in retq[1].todo
  /\ LET n == retq[1].id
         keep == Kept(ck[o], n)
         dropped == {e \in Range(ck[o]) : e \notin Range(keep)}
     IN /\ ById(ck[o], n) # NoEntry       \* otherwise RetainOnly panics (DESIGN 7 #28: not this property)
        /\ ck' = [ck EXCEPT ![o] = keep]
        /\ work' = Sweep(o, work \ {e.wal : e \in dropped}, keep, l0[o], deep[o])
        /\ retq' = IF retq[1].todo = {o} THEN Tail(retq)
                   ELSE [retq EXCEPT ![1].todo = @ \ {o}]
        /\ Log([a |-> "Retain", o |-> o, id |-> n, late |-> Latest(ck[o]).id # n])
  /\ UNCHANGED <<DataVars, nextId, pending, pubq, completed, jobFiles, nsp, nspErr, nbusy, SpVars, cut, taken, phase, restored, gen>>

-----------------------------------------------------------------------------
(* the savepoint artifact *)

\* what the repaired code does at this moment, whatever Dev_ListLatest says: `must` in the log =
\* "this copy step cannot fail" (the entry is in the document, so its files are protected)
CopyMust(o) == LET e == ById(ck[o], spId) IN e # NoEntry /\ EntryFiles(e) \subseteq work

SpCopyOp(o) ==
  /\ phase = "run" /\ spStage = "copy" /\ spOrd[spNext] = o
  /\ LET e == Listed(ck[o], spId)
         ok == e # NoEntry /\ EntryFiles(e) \subseteq work
         last == spNext = NOps
         jobOk == spId \in jobFiles
         done == ok /\ last /\ jobOk
     IN /\ jobFiles' = IF done /\ spId < completed THEN jobFiles \ {spId} ELSE jobFiles
        /\ IF ok
           THEN /\ spFiles' = spFiles \cup EntryFiles(e) \cup {DocFile(o)}
                /\ spDocs' = [spDocs EXCEPT ![o] = ck[o]]
                /\ spStage' = IF last THEN (IF jobOk THEN "done" ELSE "failed") ELSE "copy"
                /\ spNext' = spNext + 1
           ELSE /\ spStage' = "failed"
                /\ UNCHANGED <<spFiles, spDocs, spNext>>
        /\ Log([a |-> "SpCopyOp", o |-> o, id |-> spId, last |-> last, ok |-> ok /\ (last => jobOk),
                must |-> CopyMust(o) /\ (last => jobOk),
                docIds |-> [i \in DOMAIN ck[o] |-> ck[o][i].id]])
  /\ UNCHANGED <<DataVars, ck, work, nextId, pending, pubq, completed, retq, nsp, nspErr, nbusy, spId, spOrd, cut, taken, phase, restored, gen>>

Wipe ==
  /\ phase = "run" /\ spStage = "done"
  /\ phase' = "wiped"
  /\ work' = {} /\ jobFiles' = {}
  /\ Log([a |-> "Wipe"])
  /\ UNCHANGED <<DataVars, ck, nextId, pending, pubq, completed, retq, nsp, nspErr, nbusy, SpVars, cut, taken, restored, gen>>

\* LoadCheckpoint with savepointURI: RestoreCheckpointFromSavepointArtifact (copy back what the copied
\* documents list) and then the deploy: every new operator opens DKV checkpoint spId of the documents
\* it is handed (LoadCheckpointList looks the entry up BY ID and panics when it is missing)
Restore(N) ==
  /\ phase = "wiped"
  /\ gen < Gens => N = NOps            \* a chain goes on with the same worker count (checkpoints of a rescaled job: C06)
  /\ LET back(o) == LET e == Listed(spDocs[o], spId)
                    IN IF e # NoEntry /\ EntryFiles(e) \subseteq spFiles /\ DocFile(o) \in spFiles
                       THEN EntryFiles(e) \cup {DocFile(o)} ELSE {}
         copyOk == \A o \in Ops : back(o) # {}
         w == UNION {back(o) : o \in Ops}
         ent(o) == ById(spDocs[o], spId)
         loadOk == \A o \in Ops : ent(o) # NoEntry /\ EntryFiles(ent(o)) \subseteq w
         ok == copyOk /\ loadOk
         goOn == ok /\ gen < Gens
     IN /\ work' = w
        /\ restored' = [ok |-> ok, n |-> spId,
                        ev |-> IF ok THEN UNION {Content(EntryFiles(ent(o))) : o \in Ops} ELSE {},
                        cursor |-> cut[spId], N |-> N]
        /\ Log([a |-> "Restore", N |-> N, id |-> spId, cut |-> cut[spId], ok |-> ok, last |-> ~goOn])
        /\ IF goOn
           THEN \* the job started from savepoint spId is the running job now: LoadCheckpoint put checkpoint spId into
                \* completedSnapshots (no job snapshot file in working storage) and continues the id counter; every new
                \* operator opened entry spId of its predecessor's document (LoadCheckpointList keeps that one entry):
                \* level list as saved, WAL replayed into the memtable; the sources resume at the cut
                /\ phase' = "run" /\ gen' = gen + 1
                /\ delivered' = cut[spId]
                /\ mem' = [o \in Ops |-> ent(o).wal.ev]
                /\ l0' = [o \in Ops |-> <<>>]
                /\ deep' = [o \in Ops |-> ent(o).tabs]
                /\ ck' = [o \in Ops |-> <<ent(o)>>]
                /\ nextId' = spId /\ completed' = spId
                /\ pending' = NoPending /\ pubq' = {} /\ jobFiles' = {} /\ retq' = <<>>
                /\ nsp' = 0 /\ nspErr' = 0 /\ nbusy' = 0
                /\ spId' = 0 /\ spStage' = "none" /\ spNext' = 0 /\ spOrd' = <<>> /\ spFiles' = {}
                /\ spDocs' = [o \in Ops |-> <<>>]
                /\ UNCHANGED <<ntab, nwal, nflush, ncompact, cut, taken>>
           ELSE /\ phase' = "restored"
                /\ UNCHANGED <<DataVars, ck, JobVars, nsp, nspErr, nbusy, SpVars, cut, taken, gen>>

-----------------------------------------------------------------------------
Done == phase = "restored" \/ spStage = "failed"

Next ==
  /\ Len(hist) < MaxLen /\ ~Done
  /\ \/ Ev1
     \/ \E o \in Ops : Flush(o) \/ Compact(o) \/ Retain(o) \/ SpCopyOp(o)
     \/ Tick \/ Sp \/ SpAgain
     \/ \E w \in Ops \cup {SR} : Ack(w)
     \/ (\E t \in pubq : PubWrite(t)) \/ Wipe
     \/ \E N \in RestoreNs : Restore(N)

Spec == Init /\ [][Next]_vars

-----------------------------------------------------------------------------
(* C14 *)

\* files(savepoint n) \supseteq Needed(n), Needed computed from each operator's checkpoint n AS TAKEN
Needed(n) == UNION {EntryFiles(taken[o][n]) \cup {DocFile(o)} : o \in Ops}
SavepointClosed ==
  spStage = "done" =>
     /\ Needed(spId) \subseteq spFiles
     /\ \A o \in Ops : ById(spDocs[o], spId) = taken[o][spId]

\* state (and timers: they live in the same DKV) and source positions restored = those of checkpoint n
\* (every Restore: also the one a chain goes on from)
RestoredEqualsSnap ==
  restored.n # 0 =>
     /\ restored.ok
     /\ restored.ev = 1..cut[restored.n]
     /\ restored.cursor = cut[restored.n]

\* a complete savepoint is complete for good: nothing the running job does later takes it apart
\* (spFiles only grows; working-storage deletions never touch savepoint storage - by construction here,
\* checked on the real directory by the replayer)

\* at most one checkpoint in progress; ids handed out only grow
AtMostOnePending == pending.id # 0 => pending.id = nextId
\* CreateSavepoint while a checkpoint is pending returns that id and starts nothing
FoldsIntoPending ==
  [][ (nsp' = 1 /\ nsp = 0 /\ pending.id # 0) =>
        /\ nextId' = nextId /\ pending'.id = pending.id /\ pending'.acks = pending.acks
        /\ UNCHANGED <<ck, work, cut, taken, nwal>> ]_vars

\* the savepoint request (when it folds) and every copy step leave the running job's world alone
SpStep == \/ nsp' = 1 /\ nsp = 0 /\ pending.id # 0
          \/ spStage = "copy" /\ phase' = "run" /\ (spFiles' # spFiles \/ spStage' # spStage)
\* (the one file that may go is the savepoint's OWN job snapshot when it was superseded: nothing refers to it)
Undisturbed ==
  [][ SpStep => /\ UNCHANGED <<delivered, mem, l0, deep, ck, work, completed, retq, nextId, pubq>>
                /\ jobFiles' \subseteq jobFiles /\ jobFiles \ jobFiles' \subseteq {spId}
                /\ (jobFiles' # jobFiles => spId < completed /\ spStage' = "done") ]_vars

\* liveness as safety: a savepoint whose id was handed out and whose checkpoint was published either has its
\* artifact or the copy is still under way - unless the copy genuinely could not succeed: when the artifact code
\* came to operator o, retention (of a NEWER published checkpoint) had already dropped entry n from o's document,
\* or a newer publication had already removed job snapshot n. "failed" is reached in no other way.
SpFailedOnlyIfDropped ==
  [][ (spStage = "copy" /\ spStage' = "failed") =>
         \/ ById(ck[spOrd[spNext]], spId) = NoEntry
         \/ spId \notin jobFiles ]_vars
\* and whenever it could not succeed a newer checkpoint has been published (a savepoint nothing overtook is produced)
\* (with RetainOnly as repaired; without the repair a LATE notification of an older checkpoint drops entry n: #28)
SpProducedUnlessOvertaken ==
  (RetainKeepsNewer /\ spStage = "failed") => completed > spId

\* every published checkpoint is the state at its cut and - as long as the operators still retain it -
\* restorable from working storage, savepoint or not
PublishedIsCut ==
  (phase = "run" /\ completed # 0) =>
     \A o \in Ops : LET e == taken[o][completed]
                    IN /\ Content(EntryFiles(e)) = {x \in 1..cut[completed] : Owner(x) = o}
                       /\ (ById(ck[o], completed) # NoEntry => EntryFiles(e) \subseteq work)

TypeOK ==
  /\ gen \in 1..Gens
  /\ delivered \in 0..MaxEv /\ nextId \in 0..MaxCkpt
  /\ spStage \in {"none", "copy", "done", "failed"}
  /\ phase \in {"run", "wiped", "restored"}
  /\ pending.id \in 0..MaxCkpt

-----------------------------------------------------------------------------
(* behaviour export *)
Dump == (Done \/ Len(hist) >= MaxLen) => PrintT(<<"BEHAVIOUR", ToJson(hist)>>)

\* counterexample export (run with Dev_ListLatest = TRUE): print the history of every behaviour in which
\* the artifact code listed another entry than the savepoint's own
Bad == \/ ~SavepointClosed
       \/ ~RestoredEqualsSnap
CexDump == (Bad /\ Done) => PrintT(<<"BEHAVIOUR", ToJson(hist)>>)
=============================================================================
