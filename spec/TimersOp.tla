---------------------------- MODULE TimersOp ----------------------------
(* Event-time timers at the level of one operator.Operator
   (reduction/workers/operator/operator.go): what lies between "the timer is
   due in the TimerRegistry" and "TimerExpired was given to the handler", and
   how that interacts with barrier-aligned checkpoints, recovery and
   re-deployment.  Properties C10 (exactly once, survives recovery) and the
   operator half of C11 (the handler is told Min(up)), judged AT THE HANDLER.
   The timer store itself (cache, key groups, heap) is Timers.tla; here it is a
   set.

   Abs (ghost):
     pend      timers registered by a handler response (accepted: later than
               the operator watermark at that moment) whose TimerExpired has
               not been given to the handler yet, in the current timeline
     up[sr]    latest watermark per upstream runner of the current deployment
               (epoch until it reports);  Min(up) = the operator watermark
   Impl (one action per event handled by the operator's loop):
     store     the timer store (DKV)
     batch     EventBatcher of handler events: keyed events and TimerExpired
               events.  AdvanceWatermark deletes a due timer from `store` and
               adds its TimerExpired to `batch`; the batch goes to the handler
               when it holds BatchMax items, when the batch timer fires
               (Timeout), and before the DKV checkpoint is taken.
     bar       runners whose barrier of the open checkpoint has arrived
               (they send nothing until the checkpoint completes: alignment
               itself is C02's subject)
     ckpt      what the latest completed checkpoint holds
     told      the watermark the next handler call will be told

   Ev(sr,k,t) is a keyed event for key k whose handler response registers the
   timer (k,t).  Restore = the process is lost, a fresh Operator is deployed
   from the latest completed checkpoint.  Redeploy(ck) = a second HandleDeploy
   on the SAME Operator object (the job re-assembles), from the latest
   checkpoint or from nothing; it happens only with no checkpoint open and an
   empty batch (what a redeployed operator does with the old assembly's open
   checkpoint / pending batch is DESIGN 7 #22, property C15).

   Deviations (generators of adversarial schedules only, FALSE = the code):
     Dev_FlushAtFirstBarrier  the pending batch is flushed when the FIRST
        barrier of a checkpoint arrives instead of right before the DKV
        checkpoint: a TimerExpired that entered the batch between two barriers
        is in neither `store` nor the handler's state at the checkpoint.
     Dev_StaleToldWM  the watermark told to the handler is a copy refreshed
        only by watermark messages; Redeploy does not reset it.              *)
EXTENDS Integers, Sequences, FiniteSets, TLC, Json

CONSTANTS NK, MaxT, NSR, BatchMax,
          MaxEv, MaxAdv, MaxCkpt, MaxRestore, MaxRedeploy, MaxTimeout,
          MaxLen,           \* history length after which only the final drain runs
          ScratchRedeploy,  \* Redeploy without a checkpoint is allowed
          Sim,              \* generation: action arguments are drawn at random (one successor per action class)
          Directed,         \* generation from a deviating model: once the deviation has shown, go straight to its consequences
          Dev_FlushAtFirstBarrier, Dev_StaleToldWM

VARIABLES pend, up,                         \* Abs
          store, batch, bar, ckpt, told,    \* Impl
          bad,                              \* a handler call was told something else than Min(up)
          nev, nadv, nckpt, nrest, nred, nto, done, hist

vars == <<pend, up, store, batch, bar, ckpt, told, bad, nev, nadv, nckpt, nrest, nred, nto, done, hist>>
view == <<pend, up, store, batch, bar, ckpt, told, bad, nev, nadv, nckpt, nrest, nred, nto, done>>

Keys == 1..NK
SRs  == 1..NSR
TT   == 0..MaxT
Tm(k, t) == [k |-> k, t |-> t]
Lt(a, b) == a.t < b.t \/ (a.t = b.t /\ a.k < b.k)
MinOf(S) == CHOOSE x \in S : \A y \in S : x = y \/ Lt(x, y)
RECURSIVE Sorted(_)
Sorted(S) == IF S = {} THEN <<>> ELSE <<MinOf(S)>> \o Sorted(S \ {MinOf(S)})
MinInt(S) == CHOOSE x \in S : \A y \in S : x <= y
MinUp(u) == MinInt({u[s] : s \in SRs})
Pick(S) == IF Sim /\ S # {} THEN {RandomElement(S)} ELSE S

EvItem(k, t) == [ty |-> "e", k |-> k, t |-> t]
XItem(x)     == [ty |-> "x", k |-> x.k, t |-> x.t]
XOf(b) == {Tm(b[i].k, b[i].t) : i \in {j \in 1..Len(b) : b[j].ty = "x"}}

-----------------------------------------------------------------------------
\* The pipeline state threaded through one action:
\*   b batch, s store, p pend, dl items given to the handler so far in this action, bd bad
St0 == [b |-> batch, s |-> store, p |-> pend, dl |-> <<>>, bd |-> bad]

\* processEventBatch: one handler call with the whole batch; it is told `tw`,
\* the operator watermark is w.  The response registers the timers of the
\* keyed events (TimerRegistry.SetTimer accepts t later than its watermark).
RECURSIVE ApplyItems(_, _, _, _, _)
ApplyItems(b, i, s, p, w) ==
  IF i > Len(b) THEN <<s, p>>
  ELSE LET it == b[i]
           x  == Tm(it.k, it.t)
       IN IF it.ty = "e"
          THEN IF it.t > w THEN ApplyItems(b, i + 1, s \cup {x}, p \cup {x}, w)
                           ELSE ApplyItems(b, i + 1, s, p, w)
          ELSE ApplyItems(b, i + 1, s, p \ {x}, w)

Flush(st, w, tw) ==
  IF st.b = <<>> THEN st
  ELSE LET r == ApplyItems(st.b, 1, st.s, st.p, w)
       IN [b |-> <<>>, s |-> r[1], p |-> r[2], dl |-> st.dl \o st.b, bd |-> st.bd \/ tw # w]

Add(st, it, w, tw) ==
  LET st2 == [st EXCEPT !.b = Append(@, it)]
  IN IF Len(st2.b) >= BatchMax THEN Flush(st2, w, tw) ELSE st2

\* handleWatermark's loop over the timers AdvanceWatermark yields
RECURSIVE FireAll(_, _, _, _, _)
FireAll(st, d, i, w, tw) ==
  IF i > Len(d) THEN st
  ELSE FireAll(Add([st EXCEPT !.s = @ \ {d[i]}], XItem(d[i]), w, tw), d, i + 1, w, tw)

-----------------------------------------------------------------------------
NoCkpt == [has |-> FALSE, id |-> 0, store |-> {}, pend |-> {}]

Init ==
  /\ pend = {} /\ up = [s \in SRs |-> 0]
  /\ store = {} /\ batch = <<>> /\ bar = {} /\ ckpt = NoCkpt /\ told = 0 /\ bad = FALSE
  /\ nev = 0 /\ nadv = 0 /\ nckpt = 0 /\ nrest = 0 /\ nred = 0 /\ nto = 0 /\ done = FALSE /\ hist = <<>>

\* every step carries the operator watermark after it (what a handler call of this step must be told) and the
\* items the model gives to the handler in it
Log(r) == hist' = Append(hist, r @@ [wm |-> MinUp(up')])
Out(st) == /\ batch' = st.b /\ store' = st.s /\ pend' = st.p /\ bad' = st.bd

Ev(sr, k, t) ==
  /\ nev < MaxEv /\ sr \notin bar
  /\ LET st == Add(St0, EvItem(k, t), MinUp(up), told)
     IN /\ Out(st) /\ nev' = nev + 1
        /\ UNCHANGED <<up, bar, ckpt, told, nadv, nckpt, nrest, nred, nto, done>>
        /\ Log([a |-> "Ev", sr |-> sr, k |-> k, t |-> t, dl |-> st.dl])

Adv(sr, t) ==
  /\ sr \notin bar /\ t >= up[sr]
  /\ LET u2 == [up EXCEPT ![sr] = t]
         w  == MinUp(u2)
         d  == Sorted({x \in store : x.t <= w})
         st == FireAll(St0, d, 1, w, w)          \* the told copy is refreshed before the first delivery
     IN /\ up' = u2 /\ told' = w /\ Out(st) /\ nadv' = nadv + 1
        /\ UNCHANGED <<bar, ckpt, nev, nckpt, nrest, nred, nto, done>>
        /\ Log([a |-> "Adv", sr |-> sr, t |-> t, dl |-> st.dl])

\* checkpoint barrier of runner sr; the last one takes the DKV checkpoint and reports it
Barrier(sr) ==
  /\ sr \notin bar
  /\ LET first == bar = {}
         last  == bar \cup {sr} = SRs
         w     == MinUp(up)
         st1   == IF first /\ Dev_FlushAtFirstBarrier THEN Flush(St0, w, told) ELSE St0
         st2   == IF last /\ ~Dev_FlushAtFirstBarrier THEN Flush(st1, w, told) ELSE st1
         id    == IF first THEN nckpt + 1 ELSE nckpt
     IN /\ first => nckpt < MaxCkpt
        /\ Out(st2) /\ nckpt' = id
        /\ bar' = IF last THEN {} ELSE bar \cup {sr}
        /\ ckpt' = IF last THEN [has |-> TRUE, id |-> id, store |-> st2.s, pend |-> st2.p] ELSE ckpt
        /\ UNCHANGED <<up, told, nev, nadv, nrest, nred, nto, done>>
        /\ Log([a |-> "Barrier", sr |-> sr, id |-> id, last |-> last, dl |-> st2.dl,
                cpend |-> IF last THEN Sorted(st2.p) ELSE <<>>])

\* the batch timer (EventBatching.MaxDelay) fires
Timeout ==
  /\ nto < MaxTimeout /\ batch # <<>>
  /\ LET st == Flush(St0, MinUp(up), told)
     IN /\ Out(st) /\ nto' = nto + 1
        /\ UNCHANGED <<up, bar, ckpt, told, nev, nadv, nckpt, nrest, nred, done>>
        /\ Log([a |-> "Timeout", dl |-> st.dl])

\* the process is lost at any point; a fresh Operator is deployed from the latest completed checkpoint
Restore ==
  /\ ckpt.has /\ nrest < MaxRestore
  /\ store' = ckpt.store /\ pend' = ckpt.pend /\ batch' = <<>> /\ bar' = {}
  /\ up' = [s \in SRs |-> 0] /\ told' = 0 /\ nrest' = nrest + 1
  /\ UNCHANGED <<ckpt, bad, nev, nadv, nckpt, nred, nto, done>>
  /\ Log([a |-> "Restore", id |-> ckpt.id, pend |-> Sorted(ckpt.pend)])

\* the same Operator object is deployed again
Redeploy(ck) ==
  /\ nred < MaxRedeploy /\ bar = {} /\ batch = <<>>
  /\ IF ck THEN ckpt.has ELSE ScratchRedeploy
  /\ store' = IF ck THEN ckpt.store ELSE {}
  /\ pend' = IF ck THEN ckpt.pend ELSE {}
  /\ ckpt' = IF ck THEN ckpt ELSE NoCkpt
  /\ up' = [s \in SRs |-> 0] /\ told' = IF Dev_StaleToldWM THEN told ELSE 0
  /\ nred' = nred + 1
  /\ UNCHANGED <<batch, bar, bad, nev, nadv, nckpt, nrest, nto, done>>
  /\ Log([a |-> "Redeploy", ck |-> ck, id |-> IF ck THEN ckpt.id ELSE 0, pend |-> Sorted(pend')])

\* end of the behaviour: the batch timer fires a last time
Finish ==
  /\ LET st == Flush(St0, MinUp(up), told)
     IN /\ Out(st) /\ done' = TRUE
        /\ UNCHANGED <<up, bar, ckpt, told, nev, nadv, nckpt, nrest, nred, nto>>
        /\ Log([a |-> "Finish", dl |-> st.dl])

-----------------------------------------------------------------------------
CkptBad == ckpt.has /\ ckpt.store # ckpt.pend
Stale   == told # MinUp(up)
Lagging == {s \in SRs : up[s] < MaxT}
Exhausted == /\ nev >= MaxEv /\ nadv >= MaxAdv /\ nckpt >= MaxCkpt
             /\ (nrest >= MaxRestore \/ ~ckpt.has)

Next ==
  /\ ~done
  /\ IF Directed /\ CkptBad /\ nrest < MaxRestore
     THEN Restore                                   \* the inexact checkpoint is used
     ELSE IF Directed /\ bar # {} /\ XOf(batch) # {}
     THEN Barrier(MinInt(SRs \ bar))               \* a TimerExpired is waiting in the batch while a checkpoint is open
     ELSE IF Len(hist) >= MaxLen \/ Exhausted \/ (Directed /\ (CkptBad \/ bad))
     THEN \* final drain: an open checkpoint completes, every upstream reaches MaxT, everything pending must fire
          IF bar # {} THEN Barrier(MinInt(SRs \ bar))
          ELSE IF Lagging # {} THEN Adv(MinInt(Lagging), MaxT)
          ELSE Finish
     ELSE IF Directed /\ Stale
     THEN \* the stale copy is shown to the handler before a watermark refreshes it
          \/ \E s \in Pick(SRs \ bar), k \in Pick(Keys), t \in Pick(TT) : Ev(s, k, t)
          \/ Timeout
     ELSE \/ \E s \in Pick(SRs \ bar), k \in Pick(Keys), t \in Pick(TT) : Ev(s, k, t)
          \/ (nadv < MaxAdv /\ \E s \in Pick(SRs \ bar) : \E t \in Pick({x \in TT : x >= up[s]}) : Adv(s, t))
          \/ \E s \in Pick(SRs \ bar) : Barrier(s)
          \/ Timeout
          \/ Restore
          \/ \E ck \in Pick(BOOLEAN) : Redeploy(ck)

Spec == Init /\ [][Next]_vars

-----------------------------------------------------------------------------
\* C10 at the handler
NoneLost   == pend = store \cup XOf(batch)            \* a registered timer is in the store or on its way to the handler
FiredOnce  == /\ store \cap XOf(batch) = {}
              /\ Cardinality(XOf(batch)) = Cardinality({i \in 1..Len(batch) : batch[i].ty = "x"})
NotEarly   == \A x \in XOf(batch) : x.t <= MinUp(up)
\* "a timer pending at a checkpoint is still pending after restore, one that fired before it does not fire again"
CkptExact  == ~CkptBad
\* C11 (operator half)
HandlerWM  == ~bad
ToldFresh  == ~Stale
TypeOK     == /\ pend \subseteq {Tm(k, t) : k \in Keys, t \in TT} /\ store \subseteq {Tm(k, t) : k \in Keys, t \in TT}
              /\ Len(batch) < BatchMax /\ bar # SRs /\ \A s \in SRs : up[s] \in TT

Dump    == done => PrintT(<<"BEHAVIOUR", ToJson(hist)>>)
\* witnesses of a deviation: complete behaviours in which it has shown
DumpBad == (done /\ (CkptBad \/ bad)) => PrintT(<<"BEHAVIOUR", ToJson(hist)>>)
=============================================================================
