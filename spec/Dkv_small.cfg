SPECIFICATION Spec
CONSTANTS
  Keys = {1, 2, 3}
  Vals = {1}
  Prefixes = {{1, 2}, {1, 2, 3}}
  MemCap = 2  PutSz = 1  DelSz = 1
  L0Trigger = 2
  MaxOps = 4  MaxReads = 1  MaxCkpt = 2  MaxReopen = 1  MaxRetain = 1  MaxLen = 1000
  Dev_MemOldestFirst = FALSE  Dev_L0OldestFirst = FALSE  Dev_ScanDropsMemTomb = FALSE
  Dev_GetLevelsFirst = FALSE  Dev_EndSeqLastKey = FALSE  Dev_RotateDropsLatest = FALSE  Dev_TableIdReuse = FALSE
INVARIANTS GetOK ScanOK RestoreOK FilesSafe LiveTablesExist SeqOK
VIEW view
CHECK_DEADLOCK FALSE
