------------------------------ MODULE Rescale ------------------------------
(* C06  Rescaling redistributes checkpointed state completely and exclusively.

   Implementation-shaped model of what happens to the keyed state and the timers of a job when a checkpoint taken
   with M operators is restored into N operators (and that job is checkpointed and rescaled again).  Transcribed from
   reduction-dev/reduction:

     partitioning/key_space.go           keyGroupRanges, AssignRanges      -> Partition.tla (INSTANCE; verified by C05)
     storage/snapshots/snapshot.go       addOperatorSnapshot: operator checkpoints are kept in ACK order  -> TakeCkpt(perm)
     jobs/assembly.go Deploy             new operator j gets Pick(checkpoints, AssignRanges(newRanges, ackRanges)[j])
     workers/operator/operator.go        HandleDeploy: handles in the order given, dkv.Open, OperatorPartition(own range)
     dkv/recovery/checkpoint_list.go     LoadCheckpointList: the documents are merged into the first: WAL lists
                                         concatenated; with more than one document EVERY table goes to L0 (repaired)
     dkv/db.go Start                     seqNum := composite LatestSeqNum (max endSeqNum of every loaded table);
                                         WAL entries replayed in list order through Put/Delete iff OwnsKey(entry)
     dkv/db.go Put/Delete/rotate         memtable + WAL, flush = one L0 table, then the compaction loop
     dkv/sst/compaction.go               two regimes selected by the verif tunables: "major" (everything into one
                                         base-level table whenever L0 holds 2 tables) / "minor" (L0+L1 -> one L1 table)
     dkv/db.go ScanPrefix,               a read = memtables merged (newest sequence number wins) with the tables that the
     dkv/sst/level_list.go               level list selects for the prefix: every L0 table whose key range contains the
       AllTablesForPrefix, table.go      prefix, and per deeper level a BINARY SEARCH over the tables in list order
                                         followed by a forward walk while the range still contains the prefix.  SST tables
                                         are shared wholesale between the new operators: foreign entries stay in them and
                                         are hidden only because an operator never asks for a key (group) it does not own.
     dkv/db.go UpdateRetainedCheckpoints, when the job has completed a checkpoint and goes on (jobs.Job: retained = [that id]) every operator
     dkv/recovery/checkpoint_list.go     drops the composite checkpoint it was restored from and deletes that checkpoint's WAL files --
                                         files that the other operators restored from the same old checkpoint delete as well (Resume)
     workers/operator/keyed_state_store.go GetState = ScanPrefix(<group><0x00><len><subject key>)
     workers/operator/timer_store.go       timers of own key group g = ScanPrefix(<group g><0x01>); firing deletes the entry

   Abstract state (what the property talks about): oracle.st (subject key -> value) and oracle.tm (pending timers) of
   the whole job.  C06: after every restore, and after every later write / flush / timer firing, what operator j sees
   for a key it owns (and the timers that fire at j) is exactly the oracle restricted to the groups j owns.

   Every state entry has a residence at checkpoint time -- WAL only (written after the last flush), an L0 table (one
   flush) or a deeper level (compaction) -- produced by the Write / Flush actions of the old operators.

   Repaired defects are kept as named deviations so that TLC can still produce their witnesses (checks/c06.py replays
   them on the real code, which must not reproduce them any more):
     Dev_MultiWalPanic   Checkpoint.Document panicked for a checkpoint with several WALs (a DB restored from >= 2 handles
                         keeps the composite checkpoint in its list, so its NEXT checkpoint crashed the operator)
     Dev_DeleteMissingFails  deleting a WAL file that is already gone was an error on the local file system: two new operators
                         restored from the same old checkpoint both delete its WAL in their first retention round; the
                         second one failed, kept the removal pending and failed every later checkpoint
     Dev_ConcatLevels    the composite's levels were the per-level concatenation of the documents' levels in handle
                         (= ack) order: below L0 the binary search over such a level misses tables (not sorted; and after
                         a second rescale the tables of different instances overlap, which no order repairs)
   and two design-level mutations used to show that the model (and through replay the harness) notices them:
     Dev_SeqFromFirst    restored sequence counter taken from the first source instead of the maximum
     Dev_ReplayAll       WAL replay not filtered by the new owner's range                                           *)
EXTENDS Integers, Sequences, FiniteSets, TLC, Json

CONSTANTS
  Counts,      \* key-group counts explored
  MaxOps,      \* operator count of every generation is in 1..MaxOps
  NGens,       \* number of rescale steps: generations 1 .. NGens+1
  NKeys,       \* subject keys 1..NKeys
  Times,       \* timer times (positive integers); {} = no timers
  BigGroups,   \* key groups used when the count is larger than 8 (prefix bytes on both sides of 0x80)
  MaxW1, MaxW2, MaxW3,  \* write budget of generation 1, 2, 3
  MaxFl,       \* flushes per operator and generation
  MaxWm,       \* watermark advances per generation
  MaxCk,       \* checkpoints per generation (a second one follows a retention round of the first)
  Regimes,     \* subset of {"major", "minor"}
  MaxLen,      \* history bound for behaviour generation
  Canon,       \* TRUE: only canonical orders of independent steps (operators in turn, writes of a segment in
               \* entry order, keys' groups non-decreasing) -- exhaustive runs; FALSE: scripted behaviours
  Dev_MultiWalPanic, Dev_ConcatLevels, Dev_DeleteMissingFails, Dev_SeqFromFirst, Dev_ReplayAll

VARIABLES cfg, gen, pc, ops, ckpts, files, oracle, bud, cur, stamp, crashed, hist
vars == <<cfg, gen, pc, ops, ckpts, files, oracle, bud, cur, stamp, crashed, hist>>
view == <<cfg, gen, pc, ops, ckpts, files, oracle, bud, cur, stamp, crashed>>

P == INSTANCE Partition WITH KGH <- <<>>, GridMaxCount <- 1, GridMaxN <- 1, BoundaryCount <- 1, BoundaryNs <- {},
                             Keep <- 0, DeclMaxCount <- 0, AssignCounts <- {}, AssignMaxOps <- 0, s <- 0

SetMax(S) == CHOOSE x \in S : \A y \in S : y <= x
SetMin(S) == CHOOSE x \in S : \A y \in S : x <= y
RECURSIVE SortedSeq(_)
SortedSeq(S) == IF S = {} THEN <<>> ELSE LET x == SetMin(S) IN <<x>> \o SortedSeq(S \ {x})
RECURSIVE Flat(_)
Flat(ss) == IF ss = <<>> THEN <<>> ELSE Head(ss) \o Flat(Tail(ss))
EmptyFn == [x \in {} |-> 0]

(* ------------------------------------------------------------- entities *)
\* A DB entry is either THE state entry of subject key k, or the timer (k, t).
TimeSeq == SortedSeq(Times)
NT      == Len(TimeSeq)
Ents    == 1..(NKeys * (1 + NT))
StateEnt(k) == k
IsTimer(e)  == e > NKeys
KeyOf(e)    == ((e - 1) % NKeys) + 1
TimeOf(e)   == TimeSeq[(e - 1) \div NKeys]
TimerEnts   == {e \in Ents : IsTimer(e)}
TM == IF Times = {} THEN 1 ELSE SetMax(Times) + 1

Grp(e) == cfg.grp[KeyOf(e)]
\* byte order of the encoded DB keys: <group:2><0x00><len><subject key>.. before <group:2><0x01><time:8><subject key>
\* (the harness uses subject keys of one length whose byte order is the order of their numbers)
Ord(e) == IF IsTimer(e) THEN ((Grp(e) * 2 + 1) * TM + TimeOf(e)) * (NKeys + 1) + KeyOf(e)
                        ELSE (Grp(e) * 2 * TM) * (NKeys + 1) + KeyOf(e)
\* a prefix as the interval of Ord values of the keys that have it
StatePrefix(k) == <<Ord(StateEnt(k)), Ord(StateEnt(k))>>
TimerPrefix(g) == <<(g * 2 + 1) * TM * (NKeys + 1), (g * 2 + 2) * TM * (NKeys + 1) - 1>>
PrefixOf(e)    == IF IsTimer(e) THEN TimerPrefix(Grp(e)) ELSE StatePrefix(KeyOf(e))

(* --------------------------------------------------------------- tables *)
Newest(S) == CHOOSE x \in S : \A y \in S : x.s >= y.s       \* S: set of [s, v] entries of one key
MkTable(ents) == LET D == DOMAIN ents IN
  [lo |-> SetMin({Ord(e) : e \in D}), hi |-> SetMax({Ord(e) : e \in D}), end |-> SetMax({ents[e].s : e \in D}), ents |-> ents]
\* kv.MergeEntries over whole tables: per key the entry with the largest sequence number (tombstones are kept)
MergeTables(tbs) == LET D == UNION {DOMAIN t.ents : t \in tbs} IN
  MkTable([e \in D |-> Newest({t.ents[e] : t \in {u \in tbs : e \in DOMAIN u.ents}})])
RangeOf(seq) == {seq[i] : i \in 1..Len(seq)}
AllTables(lv) == UNION {RangeOf(lv[l]) : l \in 1..6}
Latest(lv) == LET T == AllTables(lv) IN IF T = {} THEN 0 ELSE SetMax({t.end : t \in T})    \* LevelList.LatestSeqNum

\* Table.RangePrefixCompare / RangeContainsPrefix against a prefix interval p
Cmp(t, p) == IF (t.lo >= p[1] /\ t.lo <= p[2]) \/ (t.hi >= p[1] /\ t.hi <= p[2]) THEN 0
             ELSE IF t.lo > p[2] THEN 1 ELSE IF t.hi < p[1] THEN -1 ELSE 0
\* slices.BinarySearchFunc(levelTables, prefix, RangePrefixCompare): 0-based i, j
RECURSIVE BS(_, _, _, _)
BS(tb, p, i, j) == IF i >= j THEN i ELSE LET h == (i + j) \div 2 IN
                     IF Cmp(tb[h + 1], p) < 0 THEN BS(tb, p, h + 1, j) ELSE BS(tb, p, i, h)
RECURSIVE Run(_, _, _)
Run(tb, p, i) == IF i <= Len(tb) /\ Cmp(tb[i], p) = 0 THEN {i} \cup Run(tb, p, i + 1) ELSE {}
\* LevelList.AllTablesForPrefix at level index l (1 = L0)
Sel(tb, l, p) == IF l = 1 THEN {i \in 1..Len(tb) : Cmp(tb[i], p) = 0}
                 ELSE LET i0 == BS(tb, p, 0, Len(tb)) IN
                      IF i0 < Len(tb) /\ Cmp(tb[i0 + 1], p) = 0 THEN Run(tb, p, i0 + 1) ELSE {}

(* ---------------------------------------------------------------- reads *)
None == [s |-> 0, v |-> 0]
\* DB.ScanPrefix(p) projected on entry e: LevelList.ScanPrefix merges the selected tables and drops a tombstone, the
\* result is merged with the memtable entry (larger sequence number wins; tombstone => nothing)
Vis(db, e, p) ==
  LET hits == UNION {{db.lv[l][i].ents[e] : i \in {x \in Sel(db.lv[l], l, p) : e \in DOMAIN db.lv[l][x].ents}} : l \in 1..6}
      t1   == IF hits = {} THEN None ELSE Newest(hits)
      tb   == IF t1.v = 0 THEN None ELSE t1
      r    == IF e \in DOMAIN db.mem THEN (IF db.mem[e].s > tb.s THEN db.mem[e] ELSE tb) ELSE tb
  IN r.v
Owns(db, e) == P!Includes(db.rng, Grp(e))                     \* OperatorPartition.OwnsKey
VisState(db, k) == Vis(db, StateEnt(k), StatePrefix(k))
VisTimers(db)   == {e \in TimerEnts : Owns(db, e) /\ Vis(db, e, PrefixOf(e)) # 0}     \* TimerStore scans its own groups only

(* ------------------------------------------------------------- database *)
FreshDB(rng, reg) == [rng |-> rng, reg |-> reg, seq |-> 0, mem |-> EmptyFn, wal |-> <<>>, lv |-> [l \in 1..6 |-> <<>>],
                      src |-> {}, stuck |-> FALSE, wm |-> 0, fl |-> 0, lastE |-> 0, canFl |-> FALSE]
MemPut(mem, e, s, v) == [x \in DOMAIN mem \cup {e} |-> IF x = e THEN [s |-> s, v |-> v] ELSE mem[x]]
DbWrite(db, e, v) == [db EXCEPT !.seq = @ + 1, !.mem = MemPut(@, e, db.seq + 1, v), !.wal = Append(@, [e |-> e, v |-> v])]
RECURSIVE DbWriteAll(_, _)
DbWriteAll(db, ws) == IF ws = <<>> THEN db ELSE DbWriteAll(DbWrite(db, Head(ws).e, Head(ws).v), Tail(ws))

\* rotateMemtable's flush task followed by the compaction loop, run to quiescence
Compacted(lv, reg) ==
  IF Len(lv[1]) < 2 THEN lv
  ELSE IF reg = "major" THEN [l \in 1..6 |-> IF l = 6 THEN <<MergeTables(AllTables(lv))>> ELSE <<>>]
  ELSE [l \in 1..6 |-> IF l = 1 THEN <<>> ELSE IF l = 2 THEN <<MergeTables(RangeOf(lv[1]) \cup RangeOf(lv[2]))>> ELSE lv[l]]
DbFlush(db) == [db EXCEPT !.lv = Compacted([db.lv EXCEPT ![1] = Append(@, MkTable(db.mem))], db.reg),
                          !.mem = EmptyFn, !.wal = <<>>, !.fl = @ + 1, !.lastE = 0, !.canFl = FALSE]

(* ---------------------------------------------------------------- restore *)
\* dkv.Open(handles) for the operator owning rng; docs = the operator checkpoints it was handed, in that order
Restore(rng, reg, docs) ==
  IF docs = <<>> THEN FreshDB(rng, reg)
  ELSE LET cat(l) == Flat([i \in 1..Len(docs) |-> docs[i].lv[l]])
           all    == Flat([i \in 1..Len(docs) |-> Flat(docs[i].lv)])
           \* tables of different instances are ordered relative to each other by sequence number only: all into L0
           lv     == IF Len(docs) = 1 THEN docs[1].lv
                     ELSE IF Dev_ConcatLevels THEN [l \in 1..6 |-> cat(l)]
                     ELSE [l \in 1..6 |-> IF l = 1 THEN all ELSE <<>>]
           latest == IF Dev_SeqFromFirst THEN Latest(docs[1].lv) ELSE Latest(lv)
           base   == [FreshDB(rng, reg) EXCEPT !.lv = lv, !.seq = latest, !.src = {docs[i].wid : i \in 1..Len(docs)}]
           walAll == Flat([i \in 1..Len(docs) |-> docs[i].wal])
           mine   == SelectSeq(walAll, LAMBDA w : Dev_ReplayAll \/ P!Includes(rng, Grp(w.e)))
       IN DbWriteAll(base, mine)

(* ----------------------------------------------------------------- spec *)
GroupsOf(c) == IF c <= 8 THEN 0..(c - 1) ELSE {g \in BigGroups : g < c}
EntOfOrd(x) == CHOOSE e \in Ents : Ord(e) = x
TmSeq(S) == LET q == SortedSeq({Ord(e) : e \in S}) IN [i \in 1..Len(q) |-> <<KeyOf(EntOfOrd(q[i])), TimeOf(EntOfOrd(q[i]))>>]
ExpSnap == [st |-> oracle.st, tm |-> TmSeq(oracle.tm)]
Lay(db) == [l \in 1..6 |-> Len(db.lv[l])]
Log(r) == hist' = Append(hist, r)
Budget(g) == [w |-> IF g = 1 THEN MaxW1 ELSE IF g = 2 THEN MaxW2 ELSE MaxW3, wm |-> MaxWm, ck |-> MaxCk]
NOps == Len(ops)

InitWith(c, g, m, reg) ==
  /\ cfg = [count |-> c, grp |-> g]
  /\ gen = 1 /\ pc = "run"
  /\ ops = [i \in 1..m |-> FreshDB(P!Ranges(c, m)[i], reg)]
  /\ ckpts = <<>> /\ files = {}
  /\ oracle = [st |-> [k \in 1..NKeys |-> 0], tm |-> {}]
  /\ bud = Budget(1) /\ cur = 1 /\ stamp = 0 /\ crashed = FALSE
  /\ hist = <<[a |-> "Init", count |-> c, grp |-> g, n |-> m, reg |-> reg]>>
Init == \E c \in Counts, m \in 1..MaxOps, reg \in Regimes : \E g \in [1..NKeys -> GroupsOf(c)] :
  /\ Canon => \A k \in 1..(NKeys - 1) : g[k] <= g[k + 1]
  /\ InitWith(c, g, m, reg)

\* the handler of operator o processes one event for the key of entry e: put (v > 0) / delete (v = 0) of the state
\* entry, or registration of timer e (a timer at or before the operator's watermark is a no-op in the code: not offered)
Write(o, e, put) ==
  /\ pc = "run" /\ bud.w > 0 /\ Owns(ops[o], e)
  /\ Canon => (o >= cur /\ (o = cur => e > ops[o].lastE))
  /\ IsTimer(e) => (put /\ TimeOf(e) > ops[o].wm)
  /\ LET v == IF put THEN stamp + 1 ELSE 0
         db == [DbWrite(ops[o], e, v) EXCEPT !.lastE = e, !.canFl = put /\ ~IsTimer(e)]
     IN /\ ops' = [ops EXCEPT ![o] = db]
        /\ oracle' = IF IsTimer(e) THEN [oracle EXCEPT !.tm = @ \cup {e}] ELSE [oracle EXCEPT !.st[KeyOf(e)] = v]
        /\ Log([a |-> "W", o |-> o, k |-> KeyOf(e), t |-> IF IsTimer(e) THEN TimeOf(e) ELSE 0, v |-> v,
                exp |-> [st |-> oracle'.st, tm |-> TmSeq(oracle'.tm)], lay |-> Lay(db)])
  /\ stamp' = stamp + 1 /\ bud' = [bud EXCEPT !.w = @ - 1] /\ cur' = o
  /\ UNCHANGED <<cfg, gen, pc, ckpts, files, crashed>>

\* the memtable of operator o fills up with the write just made (the harness pads that value): flush + compaction
Flush(o) ==
  /\ pc = "run" /\ (Canon => o >= cur) /\ ops[o].canFl /\ ops[o].fl < MaxFl
  /\ LET db == DbFlush(ops[o]) IN
     /\ ops' = [ops EXCEPT ![o] = db]
     /\ Log([a |-> "Flush", o |-> o, exp |-> ExpSnap, lay |-> Lay(db)])
  /\ cur' = o
  /\ UNCHANGED <<cfg, gen, pc, ckpts, files, oracle, bud, stamp, crashed>>

\* watermark t reaches operator o: every pending timer it sees up to t fires (and is deleted)
AdvanceWm(o, t) ==
  /\ pc = "run" /\ bud.wm > 0 /\ (Canon => o >= cur) /\ t > ops[o].wm
  /\ LET fired == {e \in VisTimers(ops[o]) : TimeOf(e) <= t}
         want  == {e \in oracle.tm : Owns(ops[o], e) /\ TimeOf(e) <= t}
         dels  == [i \in 1..Cardinality(fired) |-> [e |-> CHOOSE e \in fired : Ord(e) = SortedSeq({Ord(x) : x \in fired})[i], v |-> 0]]
         db    == [DbWriteAll(ops[o], dels) EXCEPT !.wm = t, !.canFl = FALSE]
     IN /\ ops' = [ops EXCEPT ![o] = db]
        /\ oracle' = [oracle EXCEPT !.tm = @ \ want]
        /\ Log([a |-> "Wm", o |-> o, t |-> t, fire |-> TmSeq(want), pred |-> TmSeq(fired),
                exp |-> [st |-> oracle.st, tm |-> TmSeq(oracle.tm \ want)], lay |-> Lay(db)])
  /\ bud' = [bud EXCEPT !.wm = @ - 1] /\ cur' = o
  /\ UNCHANGED <<cfg, gen, pc, ckpts, files, stamp, crashed>>

Perms(n) == {f \in [1..n -> 1..n] : \A a, b \in 1..n : a # b => f[a] # f[b]}
\* the WAL file a checkpoint seals is named after the checkpoint (stamp counts them too) and the operator
CkptOf(db, wid) == [rng |-> db.rng, lv |-> db.lv, wal |-> db.wal, wid |-> wid]
WouldPanic == Dev_MultiWalPanic /\ \E o \in 1..NOps : Cardinality(ops[o].src) > 1
CkptFails  == WouldPanic \/ \E o \in 1..NOps : ops[o].stuck

\* barrier: every operator checkpoints; the job records the acknowledgements in the order perm
TakeCkpt(perm) ==
  /\ pc = "run" /\ bud.ck > 0 /\ (gen <= NGens \/ bud.ck > 1)
  /\ crashed' = CkptFails
  /\ ckpts' = [i \in 1..NOps |-> CkptOf(ops[perm[i]], (stamp + 1) * 10 + perm[i])]
  /\ files' = files \cup {(stamp + 1) * 10 + o : o \in 1..NOps}
  /\ pc' = "acked" /\ stamp' = stamp + 1 /\ bud' = [bud EXCEPT !.ck = @ - 1]
  /\ ops' = [o \in 1..NOps |-> [ops[o] EXCEPT !.canFl = FALSE]]     \* a flush directly follows the write that causes it
  /\ Log([a |-> "Ckpt", perm |-> perm, exp |-> ExpSnap, crash |-> CkptFails])
  /\ UNCHANGED <<cfg, gen, oracle, cur>>

\* the job goes on with the same operators: the completed checkpoint is the only retained one, every operator drops
\* the (composite) checkpoint it was restored from and deletes the WAL files of that checkpoint (operators in turn)
RECURSIVE RetainFold(_, _, _)
RetainFold(os, i, fs) ==
  IF i > Len(os) THEN [ops |-> os, files |-> fs]
  ELSE LET miss == \E w \in os[i].src : w \notin fs
           db   == [os[i] EXCEPT !.src = {}, !.stuck = @ \/ (Dev_DeleteMissingFails /\ miss)]
       IN RetainFold([os EXCEPT ![i] = db], i + 1, fs \ os[i].src)
Resume ==
  /\ pc = "acked" /\ ~crashed /\ bud.ck > 0
  /\ LET r == RetainFold(ops, 1, files) IN ops' = r.ops /\ files' = r.files
  /\ pc' = "run" /\ ckpts' = <<>>
  /\ Log([a |-> "Resume", exp |-> ExpSnap])
  /\ UNCHANGED <<cfg, gen, oracle, bud, cur, stamp, crashed>>

\* jobs.Assembly.Deploy with n2 operators from the recorded checkpoint
Deploy(n2, reg) ==
  /\ pc = "acked" /\ ~crashed /\ gen <= NGens
  /\ LET to   == P!Ranges(cfg.count, n2)
         from == [i \in 1..Len(ckpts) |-> ckpts[i].rng]
         A    == P!Assign(to, from)
         docs(j) == [x \in 1..Cardinality(A[j]) |-> ckpts[SortedSeq(A[j])[x] + 1]]
         new  == [j \in 1..n2 |-> Restore(to[j], reg, docs(j))]
     IN /\ ops' = new
        /\ Log([a |-> "Deploy", n |-> n2, reg |-> reg, asg |-> [j \in 1..n2 |-> SortedSeq(A[j])],
                must |-> [j \in 1..n2 |-> SortedSeq({x - 1 : x \in {y \in 1..Len(from) : P!SharesGroup(to[j], from[y])}})],
                may  |-> [j \in 1..n2 |-> SortedSeq({x - 1 : x \in {y \in 1..Len(from) : P!SharesGroup(to[j], from[y]) \/ P!Size(from[y]) = 0}})],
                exp |-> ExpSnap, lay |-> [j \in 1..n2 |-> Lay(new[j])]])
  /\ gen' = gen + 1 /\ pc' = "run" /\ bud' = Budget(gen + 1) /\ cur' = 1 /\ ckpts' = <<>>
  /\ UNCHANGED <<cfg, files, oracle, stamp, crashed>>

\* end of the behaviour: the operators of the last generation take one more checkpoint (they must be able to)
Finish ==
  /\ pc = "run" /\ gen = NGens + 1
  /\ crashed' = CkptFails /\ pc' = "done"
  /\ Log([a |-> "Finish", exp |-> ExpSnap, crash |-> CkptFails])
  /\ UNCHANGED <<cfg, gen, ops, ckpts, files, oracle, bud, cur, stamp>>

Done == pc = "done" \/ crashed
Next ==
  /\ ~Done /\ Len(hist) < MaxLen
  /\ \/ \E o \in 1..NOps, e \in Ents, put \in BOOLEAN : Write(o, e, put)
     \/ \E o \in 1..NOps : Flush(o)
     \/ \E o \in 1..NOps, t \in Times : AdvanceWm(o, t)
     \/ \E p \in Perms(NOps) : TakeCkpt(p)
     \/ \E n2 \in 1..MaxOps, reg \in Regimes : Deploy(n2, reg)
     \/ Resume
     \/ Finish
Spec == Init /\ [][Next]_vars

(* ------------------------------------------------------------ properties *)
\* what operator o shows for the keys / timers of the groups it owns is the job's abstract state
StateOK  == \A o \in 1..NOps : \A k \in 1..NKeys : Owns(ops[o], StateEnt(k)) => VisState(ops[o], k) = oracle.st[k]
TimersOK == \A o \in 1..NOps : VisTimers(ops[o]) = {e \in oracle.tm : Owns(ops[o], e)}
\* every key group has exactly one owner among the operators of a generation (so the two above cover every key)
OneOwner == \A k \in 1..NKeys : Cardinality({o \in 1..NOps : Owns(ops[o], StateEnt(k))}) = 1
\* the rescaled job keeps working: checkpointing again neither crashes an operator nor fails
NoCrash  == ~crashed
\* sequence numbers continue above everything loaded: a memtable entry is newer than every table entry of its key
SeqOK    == \A o \in 1..NOps : \A t \in AllTables(ops[o].lv) : t.end <= ops[o].seq

Dump    == (Done \/ Len(hist) >= MaxLen) => PrintT(<<"BEHAVIOUR", ToJson(hist)>>)
CexDump == (~StateOK \/ ~TimersOK \/ crashed) => PrintT(<<"BEHAVIOUR", ToJson(hist)>>)
=============================================================================
