---------------------------- MODULE Partition ----------------------------
(* C05  Key routing agrees with state ownership for every configuration.

   Transcribed from reduction-dev/reduction:
     partitioning/key_space.go        keyGroupRanges (the loop), NewKeySpace (rangeLookup table),
                                      KeyGroup (hash % count), RangeIndex, AssignRanges
     partitioning/key_group_range.go  IncludesKeyGroup, Overlaps, Size
   Operators are 0-based in the code; position i+1 of a TLA+ sequence is operator i.

   What TLC does with this module:
     SpecGrid    one state per iteration of the keyGroupRanges loop, for every (count, n) of the grid and
                 the boundary pairs: closed form at every iteration, Contiguous /\ Cover /\ Disjoint /\
                 Balanced /\ lookup table at the end; prints the final ranges as JSON (RANGES lines) so the
                 harness can compare what the real partitioning package returns with them.
     SpecAssign  AssignRanges(to, from) for every permutation of `from` (operator checkpoints arrive in
                 ack order): every new range is assigned exactly the old ranges it shares a key group
                 with; prints the expected assignment (ASSIGN lines) for the harness.
     PartitionTrace.tla validates (key, group, operator) events recorded at the three real call sites.

   The hash clause.  MurmurHash3-32 is NOT computed in TLA+.  KGH is a CONSTANT function
   key id -> <<hi16, lo16>> produced by an independent from-the-paper reference implementation
   (harness/cmd/partition/ref.go, pinned by published vectors); TLC only reduces it modulo the
   key-group count and compares.                                                                  *)
EXTENDS Integers, Sequences, FiniteSets, TLC, Json

CONSTANTS
  KGH,            \* key id -> <<hi16, lo16>> (reference hash halves); the model value NoKeys in runs without keys
  GridMaxCount, GridMaxN,         \* grid  count \in 1..GridMaxCount, n \in 1..GridMaxN
  BoundaryCount, BoundaryNs,      \* boundary pairs (BoundaryCount, n), n \in BoundaryNs
  Keep,                           \* final ranges are kept in the state (and printed) when n <= Keep
  DeclMaxCount,                   \* the quadratic (declarative) forms are evaluated when count <= DeclMaxCount
  AssignCounts, AssignMaxOps      \* SpecAssign: count \in AssignCounts, old and new operator counts 1..AssignMaxOps

VARIABLE s
vars == <<s>>

Min(a, b) == IF a < b THEN a ELSE b
Max(a, b) == IF a > b THEN a ELSE b
SetMax(S) == CHOOSE x \in S : \A y \in S : y <= x

(* ------------------------------------------------------------------ ranges *)
\* keyGroupRanges(keyGroupCount, rangeCount): biggerRangeCount = count % n ranges of minKGInRange+1 groups first
RECURSIVE RangesLoop(_, _, _, _, _)
RangesLoop(count, n, i, kgIndex, acc) ==
  IF i = n THEN acc
  ELSE LET end == kgIndex + (count \div n) + (IF i < count % n THEN 1 ELSE 0)
       IN RangesLoop(count, n, i + 1, end, Append(acc, [start |-> kgIndex, end |-> end]))
Ranges(count, n) == RangesLoop(count, n, 0, 0, <<>>)

Size(r) == r.end - r.start
Includes(r, g) == r.start <= g /\ g < r.end                        \* KeyGroupRange.IncludesKeyGroup
Overlaps(r, o) == o.start < r.end /\ o.end > r.start               \* KeyGroupRange.Overlaps (code)
SharesGroup(a, b) == Max(a.start, b.start) < Min(a.end, b.end)     \* \E g : Includes(a,g) /\ Includes(b,g)

\* NewKeySpace: rangeLookup := make([]uint16, count); for i, r := range ranges { for j in r { rangeLookup[j] = i } }
\* (zero default, last writer wins) evaluated at one group g
LookupAt(R, g) == LET S == {i \in 1..Len(R) : Includes(R[i], g)} IN IF S = {} THEN 0 ELSE SetMax(S) - 1
Lookup(R, count) == [g \in 0..(count - 1) |-> LookupAt(R, g)]
\* the same table built the way the two nested loops write it when ranges are sequential from 0
RECURSIVE LookupSeqFrom(_, _)
LookupSeqFrom(R, i) == IF i > Len(R) THEN <<>> ELSE [j \in 1..Size(R[i]) |-> i - 1] \o LookupSeqFrom(R, i + 1)

\* the operator a key group is routed to / owned by
Owner(count, n, g) == LookupAt(Ranges(count, n), g)

(* -------------------------------------------------------------- properties *)
WellFormed(R)      == \A i \in 1..Len(R) : 0 <= R[i].start /\ R[i].start <= R[i].end
Contiguous(R)      == \A i \in 1..(Len(R) - 1) : R[i + 1].start = R[i].end
Cover(R, count)    == /\ \A g \in 0..(count - 1) : \E i \in 1..Len(R) : Includes(R[i], g)
                      /\ \A i \in 1..Len(R) : R[i].end <= count
Disjoint(R)        == \A i \in 1..Len(R) : \A j \in (i + 1)..Len(R) : ~SharesGroup(R[i], R[j])
Balanced(R)        == \A i \in 1..Len(R) : \A j \in 1..Len(R) : Size(R[i]) - Size(R[j]) <= 1
StartCF(count, n, i) == i * (count \div n) + Min(i, count % n)     \* start of operator i's range (0-based i)
ClosedForm(R, count) == \A i \in 1..Len(R) : R[i].start = StartCF(count, Len(R), i - 1) /\ R[i].end = StartCF(count, Len(R), i)
\* linear forms (telescoping): WellFormed /\ Contiguous /\ ends fixed  <=>  consecutive intervals partition 0..count-1
CoverLinear(R, count) == WellFormed(R) /\ Contiguous(R) /\ R[1].start = 0 /\ R[Len(R)].end = count
LookupOK(R, count) == \A g \in 0..(count - 1) : Includes(R[LookupAt(R, g) + 1], g)
LookupSeqOK(R, count) == LET L == LookupSeqFrom(R, 1) IN
                         Len(L) = count /\ \A g \in 0..(count - 1) : Includes(R[L[g + 1] + 1], g)
\* what C05 states about the ranges operators work with, without fixing their order or which get the extra group
RECURSIVE SumSizes(_, _)
SumSizes(R, i)     == IF i > Len(R) THEN 0 ELSE Size(R[i]) + SumSizes(R, i + 1)
Tiles(R, count)    == /\ WellFormed(R) /\ \A i \in 1..Len(R) : R[i].end <= count
                      /\ Disjoint(R) /\ SumSizes(R, 1) = count     \* => every key group in exactly one range
\* a key group has exactly one owner
SingleOwner(R, count) == \A g \in 0..(count - 1) : Cardinality({i \in 1..Len(R) : Includes(R[i], g)}) = 1

(* ------------------------------------------------------------ hash / keys *)
\* (hi * 65536 + lo) % c without leaving TLC's 32-bit integers
HashMod(h, c) == ((((h[1] % c) * 256) % c) * 256 + h[2]) % c
KG(count, k) == HashMod(KGH[k], count)                  \* KeySpace.KeyGroup: murmur.Hash(key, 0) % keyGroupCount
\* call sites
RouteOK(count, n, k, to)           == to = Owner(count, n, KG(count, k))                  \* operatorCluster.routeEvent
PrefixOK(count, k, prefix)         == prefix = KG(count, k)                               \* encodeDBKey / encodeTimerKey
StoreOK(count, n, op, k, prefix)   == PrefixOK(count, k, prefix) /\ Owner(count, n, prefix) = op
OwnsOK(count, n, op, k, res)       == res = (Owner(count, n, KG(count, k)) = op)          \* OperatorPartition.OwnsKey

(* --------------------------------------------------------------- SpecGrid *)
GridConfigs == {<<c, n>> : c \in 1..GridMaxCount, n \in 1..GridMaxN} \cup {<<BoundaryCount, n>> : n \in BoundaryNs}

GInit == \E cf \in GridConfigs :
           s = [count |-> cf[1], n |-> cf[2], i |-> 0, kgIndex |-> 0, ranges |-> <<>>, lo |-> -1, hi |-> -1]
\* one iteration of the loop in keyGroupRanges
GStep == /\ s.i < s.n
         /\ LET end == s.kgIndex + (s.count \div s.n) + (IF s.i < s.count % s.n THEN 1 ELSE 0)
                sz  == end - s.kgIndex
            IN s' = [s EXCEPT !.i = @ + 1, !.kgIndex = end,
                              !.ranges = IF s.n <= Keep THEN Append(@, [start |-> s.kgIndex, end |-> end]) ELSE @,
                              !.lo = IF @ = -1 THEN sz ELSE Min(@, sz),
                              !.hi = IF @ = -1 THEN sz ELSE Max(@, sz)]
SpecGrid == GInit /\ [][GStep]_vars

GDone == s.i = s.n
\* every iteration: the next range starts at the closed form i*q + min(i, r)
IterClosedForm == s.kgIndex = StartCF(s.count, s.n, s.i)
\* the loop cannot leave a gap (start of range i+1 is end of range i by construction), so with the two facts
\* below the ranges partition 0..count-1 into consecutive intervals whose sizes differ by at most one
FinalCover    == GDone => s.kgIndex = s.count
FinalBalanced == GDone => s.hi - s.lo <= 1 /\ s.lo >= 0
FinalRanges   == (GDone /\ s.n <= Keep) =>
                   LET R == s.ranges IN
                   /\ R = Ranges(s.count, s.n)
                   /\ WellFormed(R) /\ Contiguous(R) /\ CoverLinear(R, s.count) /\ Disjoint(R) /\ Balanced(R)
                   /\ ClosedForm(R, s.count) /\ LookupSeqOK(R, s.count) /\ Tiles(R, s.count)
FinalDeclarative == (GDone /\ s.n <= Keep /\ s.count <= DeclMaxCount) =>
                   LET R == s.ranges IN
                   /\ Cover(R, s.count) /\ SingleOwner(R, s.count) /\ LookupOK(R, s.count)
                   /\ LookupSeqFrom(R, 1) = [g \in 1..s.count |-> Lookup(R, s.count)[g - 1]]
GridDump == (GDone /\ s.n <= Keep) =>
              \* one string per line (TLC wraps long tuples): "RANGES [count,n,[[start,end],...]]"
              PrintT("RANGES " \o ToJson(<<s.count, s.n, [i \in 1..Len(s.ranges) |-> <<s.ranges[i].start, s.ranges[i].end>>]>>))

(* ------------------------------------------------------------- SpecAssign *)
\* AssignRanges(to, from) as repaired (fix: independent of the order of `from`): for every new range the
\* indices (0-based, ascending) of the old ranges that Overlap it
Assign(to, from) == [t \in 1..Len(to) |-> {j - 1 : j \in {x \in 1..Len(from) : Overlaps(to[t], from[x])}}]

\* the two-pointer sweep the code used before the fix (defect #20: correct only when `from` is sorted by start)
RECURSIVE SkipTo(_, _, _), Collect(_, _, _)
SkipTo(from, fi, toR)  == IF fi <= Len(from) /\ from[fi].end <= toR.start THEN SkipTo(from, fi + 1, toR) ELSE fi
Collect(from, j, toR)  == IF j <= Len(from) /\ from[j].start < toR.end
                          THEN (IF Overlaps(toR, from[j]) THEN {j - 1} ELSE {}) \cup Collect(from, j + 1, toR)
                          ELSE {}
RECURSIVE SweepFrom(_, _, _, _)
SweepFrom(to, from, t, fi) == IF t > Len(to) THEN <<>>
                              ELSE LET f2 == SkipTo(from, fi, to[t]) IN <<Collect(from, f2, to[t])>> \o SweepFrom(to, from, t + 1, f2)
AssignSweep(to, from) == SweepFrom(to, from, 1, 1)

\* what rescaling needs (C06): all old ranges sharing a key group, and beyond those only old ranges that hold nothing
AssignDemanded(to, from, A) ==
  \A t \in 1..Len(to) :
    /\ {j - 1 : j \in {x \in 1..Len(from) : SharesGroup(to[t], from[x])}} \subseteq A[t]
    /\ A[t] \subseteq {j - 1 : j \in {x \in 1..Len(from) : SharesGroup(to[t], from[x]) \/ Size(from[x]) = 0}}

Perms(m) == {f \in [1..m -> 1..m] : \A a, b \in 1..m : a # b => f[a] # f[b]}
AInit == \E c \in AssignCounts, m \in 1..AssignMaxOps, n \in 1..AssignMaxOps : \E p \in Perms(m) :
           s = [count |-> c, m |-> m, n |-> n, perm |-> p]
SpecAssign == AInit /\ [][FALSE]_vars

AFrom == LET old == Ranges(s.count, s.m) IN [j \in 1..s.m |-> old[s.perm[j]]]    \* old ranges in ack order
ATo   == Ranges(s.count, s.n)
AssignOK == AssignDemanded(ATo, AFrom, Assign(ATo, AFrom))
\* the repair changes nothing where the sweep was right: `from` sorted
SweepAgreesWhenSorted == (\A j \in 1..s.m : s.perm[j] = j) => AssignSweep(ATo, AFrom) = Assign(ATo, AFrom)
\* (not an invariant: TLC finds the ack orders on which the old sweep drops an overlap; run by checks/c05.py --
\*  must be violated, showing that the model distinguishes the two algorithms)
SweepOK == AssignDemanded(ATo, AFrom, AssignSweep(ATo, AFrom))
SetSeq(S) == LET RECURSIVE F(_)
                 F(T) == IF T = {} THEN <<>> ELSE LET x == CHOOSE x \in T : \A y \in T : x <= y IN <<x>> \o F(T \ {x})
             IN F(S)
AssignDump == PrintT("ASSIGN " \o ToJson([count |-> s.count,
                 from |-> [j \in 1..s.m |-> <<AFrom[j].start, AFrom[j].end>>],
                 to   |-> [t \in 1..s.n |-> <<ATo[t].start, ATo[t].end>>],
                 must |-> [t \in 1..s.n |-> SetSeq({j - 1 : j \in {x \in 1..s.m : SharesGroup(ATo[t], AFrom[x])}})],
                 may  |-> [t \in 1..s.n |-> SetSeq({j - 1 : j \in {x \in 1..s.m : SharesGroup(ATo[t], AFrom[x]) \/ Size(AFrom[x]) = 0}})]]))
=============================================================================
