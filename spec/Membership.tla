---------------------------- MODULE Membership ----------------------------
(* Property C15: the job runs only on a full, live assembly and checkpointing
   resumes.  Implementation-shaped model of

     jobs/job.go       serial task queue; evaluateClusterStatus after every
                       membership event; start() on its own goroutine
     jobs/registry.go  sorted by id, first WorkerCount chosen (NewAssembly)
     jobs/liveness.go  heartbeat map, Purge at the next evaluate
     jobs/assembly.go  Deploy to every member in parallel, StartCheckpoint to runners
     storage/snapshots/store.go   pendingSnapshot, registered splitters, publication
     workers/operator  in-flight checkpoint (barrier alignment) of an operator
     workers/sourcerunner  queued StartCheckpoint of a runner

   Nodes are <<"op", i>> and <<"sr", i>>, i \in 1..N; registry order = index
   order.  Time: hb[n] is the AGE class of n's last heartbeat (2 = in this
   period, 1 = in the previous one, 0 = older = expired, -1 = no entry; `now`
   is the constant 2); Advance ages every entry by one period.  The replayer
   advances the frozen clock by 3 s per Advance with the default 5 s deadline,
   so a heartbeat expires after two Advances without a new one.  Expiry is
   noticed by the next evaluation (Purge), as in the code.

   The spec is written to the REPAIRED design.  The three leftovers of an old
   assembly that the unrepaired code kept (DESIGN 7 #17, #22, #26) are named
   deviations; with one of them TRUE, TLC produces the schedules on which the
   unrepaired code never completes a checkpoint again (CexDump):
     Dev_PendingNotCleared   store.pendingSnapshot survives a new assembly
     Dev_OpKeepsCheckpoint   Operator.HandleDeploy keeps o.checkpoint
     Dev_SplitterAppended    RegisterSourceSplitter appends on every start
   Two further deviations (seeded regressions, witness generation):
     Dev_TickerNotRecreated              the periodic checkpoint ticker is created only once (checkpointTicker == nil) while
                                         every pause still Stop()s it: after the first recovery nothing starts a checkpoint
     Dev_StaleCheckpointSurvivesRedeploy HandleDeploy drops o.checkpoint only while barriers are still missing: a survivor
                                         whose checkpoint had every barrier but whose acknowledgement the job refused (the
                                         pending checkpoint was discarded by the new start) keeps it through the redeploy

   ticker: the job's periodic "checkpointing" ticker on a clock where Stop is effective (production SystemClock):
   "none" never created, "live", "stopped".  Created by the task that sets Running, stopped wherever the job pauses.
*)
EXTENDS Integers, Sequences, FiniteSets, TLC, Json

CONSTANTS W,          \* config.WorkerCount
          N,          \* node ids per kind (N - W standby workers)
          MaxEv,      \* bound on membership / fault / tick events
          MaxFlaky,   \* bound on failing Deploy RPCs (liveness variant: only those of LIVE nodes are bounded)
          Boot,       \* workers 1..Boot are registered (and their assembly is being started) in the initial state
          MaxLen,     \* behaviour length (generation); large for exhaustive runs
          Focus,      \* TRUE (targeted generation only): no idle heartbeats, faults strike members of the assembly
          Faults,     \* subset of {"Kill", "Deregister"}: the fault actions that are enabled
          Live,       \* TRUE: liveness variant (no history, ids renormalised, fault budget MaxEv)
          Dev_PendingNotCleared, Dev_OpKeepsCheckpoint, Dev_SplitterAppended,
          Dev_TickerNotRecreated, Dev_StaleCheckpointSurvivesRedeploy

VARIABLES reg, hb, now, alive, status, asm, st, ckptId, pend, publishing, completed,
          splitters, dep, sck, ock, msgs, nev, nflaky, pubs, taint, ticker, hist

vars == <<reg, hb, now, alive, status, asm, st, ckptId, pend, publishing, completed,
          splitters, dep, sck, ock, msgs, nev, nflaky, pubs, taint, ticker, hist>>
view == <<reg, hb, now, alive, status, asm, st, ckptId, pend, publishing, completed,
          splitters, dep, sck, ock, msgs, nev, nflaky, pubs, taint, ticker>>

Ids   == 1..N
Kinds == {"op", "sr"}
Node  == Kinds \X Ids
Op(i) == <<"op", i>>
Sr(i) == <<"sr", i>>
OpsOf(S) == {n[2] : n \in {m \in S : m[1] = "op"}}
SrsOf(S) == {n[2] : n \in {m \in S : m[1] = "sr"}}
NodesOf(ops, srs) == {Op(i) : i \in ops} \cup {Sr(i) : i \in srs}

NoAsm  == [ops |-> {}, srs |-> {}, gen |-> 0]
NoSt   == [ph |-> "none", ck |-> 0, out |-> {}, failed |-> FALSE]
NoPend == [on |-> FALSE, id |-> 0, ops |-> {}, srs |-> {}, acked |-> {}, gen |-> 0]
NoDep  == [gen |-> 0, ck |-> 0, ops |-> {}, srs |-> {}]
NoOck  == [on |-> FALSE, id |-> 0, got |-> {}, gen |-> 0]

Init ==
  /\ reg = [op |-> 1..Boot, sr |-> 1..Boot] /\ hb = [n \in Node |-> IF n[2] <= Boot THEN 2 ELSE -1] /\ now = 2 /\ alive = Node
  /\ status = (IF Boot >= W THEN "Starting" ELSE "Init")
  /\ asm = (IF Boot >= W THEN [ops |-> 1..W, srs |-> 1..W, gen |-> 1] ELSE NoAsm)
  /\ st = (IF Boot >= W THEN [NoSt EXCEPT !.ph = "spawned"] ELSE NoSt)
  /\ ckptId = 0 /\ pend = NoPend /\ publishing = {} /\ completed = 0 /\ splitters = 0
  /\ dep = [n \in Node |-> NoDep] /\ sck = [i \in Ids |-> 0] /\ ock = [i \in Ids |-> NoOck]
  /\ msgs = {} /\ nev = 0 /\ nflaky = 0 /\ pubs = 0 /\ taint = {} /\ ticker = "none" /\ hist = <<>>

Log(r) == hist' = IF Live THEN hist ELSE Append(hist, r)

\* first k elements of a set of integers
RECURSIVE FirstK(_, _)
FirstK(S, k) == IF k = 0 \/ S = {} THEN {}
                ELSE LET m == CHOOSE x \in S : \A y \in S : x <= y IN {m} \cup FirstK(S \ {m}, k - 1)

SetSeq(S) == LET RECURSIVE F(_)
                 F(T) == IF T = {} THEN <<>> ELSE LET m == CHOOSE x \in T : \A y \in T : x <= y IN <<m>> \o F(T \ {m})
             IN F(S)

-----------------------------------------------------------------------------
(* evaluateClusterStatus: a function of (registry, liveness map, status, assembly)
   -> the same after the evaluation.  r: registry, h: liveness map.            *)
Expired(h) == {n \in Node : h[n] = 0}
Purged(r, h) == [op |-> r.op \ OpsOf(Expired(h)), sr |-> r.sr \ SrsOf(Expired(h))]
PurgedHb(h) == [n \in Node |-> IF n \in Expired(h) THEN -1 ELSE h[n]]
Healthy(a, r) == a.ops \subseteq r.op /\ a.srs \subseteq r.sr
Enough(r) == Cardinality(r.op) >= W /\ Cardinality(r.sr) >= W

\* result record of an evaluation
Eval(r0, h0, s0, a0) ==
  LET r == Purged(r0, h0)
      h == PurgedHb(h0)
  IN IF s0 = "Running" /\ ~Healthy(a0, r)
       THEN [reg |-> r, hb |-> h, status |-> "Paused", asm |-> a0, spawn |-> FALSE]
     ELSE IF s0 \in {"Init", "Paused"} /\ Enough(r)
       THEN [reg |-> r, hb |-> h, status |-> "Starting",
             asm |-> [ops |-> FirstK(r.op, W), srs |-> FirstK(r.sr, W),
                      \* liveness variant: the hot retry loop over the same members does not count as a new generation
                      gen |-> IF Live /\ a0.ops = FirstK(r.op, W) /\ a0.srs = FirstK(r.sr, W) THEN a0.gen ELSE a0.gen + 1],
             spawn |-> TRUE]
     ELSE [reg |-> r, hb |-> h, status |-> s0, asm |-> a0, spawn |-> FALSE]

\* wherever the job pauses it stops its checkpoint ticker
Stopped(t) == IF t = "live" THEN "stopped" ELSE t
ApplyEval(e) ==
  /\ reg' = e.reg /\ hb' = e.hb /\ status' = e.status /\ asm' = e.asm
  /\ st' = IF e.spawn THEN [NoSt EXCEPT !.ph = "spawned"] ELSE st
  /\ ticker' = IF status = "Running" /\ e.status # "Running" THEN Stopped(ticker) ELSE ticker

EvObs(e) == [status |-> e.status, ops |-> SetSeq(e.reg.op), srs |-> SetSeq(e.reg.sr), spawn |-> e.spawn,
             aops |-> SetSeq(e.asm.ops), asrs |-> SetSeq(e.asm.srs)]

-----------------------------------------------------------------------------
\* HandleRegister{Operator,SourceRunner}: registration and heartbeat are the same RPC
Register(n) ==
  /\ (Live \/ nev < MaxEv) /\ n \in alive
  /\ Focus => (hb[n] < 2 \/ ~(IF n[1] = "op" THEN n[2] \in reg.op ELSE n[2] \in reg.sr))
  /\ LET r1 == IF n[1] = "op" THEN [reg EXCEPT !.op = @ \cup {n[2]}] ELSE [reg EXCEPT !.sr = @ \cup {n[2]}]
         h1 == [hb EXCEPT ![n] = now]
         e  == Eval(r1, h1, status, asm)
     IN /\ ApplyEval(e)
        /\ Log([a |-> "Register", kind |-> n[1], i |-> n[2], ev |-> EvObs(e)])
  /\ nev' = IF Live THEN nev ELSE nev + 1
  /\ UNCHANGED <<now, alive, ckptId, pend, publishing, completed, splitters, dep, sck, ock, msgs, nflaky, pubs, taint>>

\* where a fault strikes (used to derive the scenarios run on real workers)
FaultCtx(n) == [member  |-> n \in NodesOf(asm.ops, asm.srs) /\ status \in {"Starting", "Running"},
                status  |-> status, ph |-> st.ph, pending |-> pend.on /\ pend.gen = asm.gen,
                standby |-> Cardinality({m \in alive \ NodesOf(asm.ops, asm.srs) : m[1] = n[1] /\ m[2] \in (IF n[1] = "op" THEN reg.op ELSE reg.sr)})]

\* a node leaves: its process state and the messages addressed to it are gone
Gone(n) ==
  /\ alive' = alive \ {n}
  /\ msgs' = IF n[1] = "op" THEN {m \in msgs : m.o # n[2]} ELSE msgs
  /\ sck' = IF n[1] = "sr" THEN [sck EXCEPT ![n[2]] = 0] ELSE sck
  /\ ock' = IF n[1] = "op" THEN [ock EXCEPT ![n[2]] = NoOck] ELSE ock

\* graceful stop of a node: it deregisters and exits
Deregister(n) ==
  /\ "Deregister" \in Faults /\ nev < MaxEv /\ n \in alive /\ (IF n[1] = "op" THEN n[2] \in reg.op ELSE n[2] \in reg.sr)
  /\ Focus => (n \in NodesOf(asm.ops, asm.srs) /\ status \in {"Starting", "Running"})
  /\ LET r1 == IF n[1] = "op" THEN [reg EXCEPT !.op = @ \ {n[2]}] ELSE [reg EXCEPT !.sr = @ \ {n[2]}]
         e  == Eval(r1, hb, status, asm)
     IN /\ ApplyEval(e)
        /\ Log([a |-> "Deregister", kind |-> n[1], i |-> n[2], ev |-> EvObs(e), ctx |-> FaultCtx(n)])
  /\ Gone(n)
  /\ nev' = nev + 1
  /\ UNCHANGED <<now, ckptId, pend, publishing, completed, splitters, dep, nflaky, pubs, taint>>

\* a node dies without a word (also during deployment / with a checkpoint open)
Kill(n) ==
  /\ "Kill" \in Faults /\ nev < MaxEv /\ n \in alive /\ hb[n] # -1
  /\ Focus => (n \in NodesOf(asm.ops, asm.srs) /\ status \in {"Starting", "Running"})
  /\ Gone(n)
  /\ nev' = nev + 1
  /\ Log([a |-> "Kill", kind |-> n[1], i |-> n[2], ctx |-> FaultCtx(n)])
  /\ UNCHANGED <<reg, hb, now, status, asm, st, ckptId, pend, publishing, completed, splitters, dep, nflaky, pubs, taint, ticker>>

\* the clock passes one heartbeat deadline: every node that has not heartbeated
\* since the previous Advance is now expired (noticed at the next membership event).
\* In the liveness variant expiring a LIVE registered node is a fault (costs budget).
\* hb holds AGES, not times: 2 = heartbeat in this period, 1 = in the previous one, 0 = older (expired), -1 = no entry
Advance ==
  /\ ~Live /\ nev < MaxEv
  /\ \E n \in Node : hb[n] > 0
  /\ hb' = [n \in Node |-> IF hb[n] <= 0 THEN hb[n] ELSE hb[n] - 1]
  /\ nev' = nev + 1
  /\ Log([a |-> "Advance"])
  /\ UNCHANGED <<reg, now, alive, status, asm, st, ckptId, pend, publishing, completed, splitters, dep, sck, ock, msgs, nflaky, pubs, taint, ticker>>

\* liveness variant: time passes; live nodes heartbeat in time, dead ones expire ...
AdvanceLive ==
  /\ Live /\ \E n \in Node \ alive : hb[n] > 0
  /\ hb' = [n \in Node |-> IF n \notin alive /\ hb[n] > 0 THEN 0 ELSE hb[n]]
  /\ UNCHANGED <<reg, now, alive, status, asm, st, ckptId, pend, publishing, completed, splitters, dep, sck, ock, msgs, nev, nflaky, pubs, taint, ticker, hist>>
\* ... unless a live node's heartbeats are delayed beyond the deadline (a fault)
ExpireLive(n) ==
  /\ Live /\ nev < MaxEv /\ n \in alive /\ hb[n] > 0
  /\ hb' = [hb EXCEPT ![n] = 0] /\ nev' = nev + 1
  /\ UNCHANGED <<reg, now, alive, status, asm, st, ckptId, pend, publishing, completed, splitters, dep, sck, ock, msgs, nflaky, pubs, taint, ticker, hist>>

-----------------------------------------------------------------------------
(* start() on its own goroutine.  StartAssembly = its first half: (repaired:
   the pending checkpoint of the previous assembly is discarded), read the
   newest completed checkpoint, create + register the splitter, send Deploy to
   every member.                                                             *)
StartAssembly ==
  /\ st.ph = "spawned"
  /\ st' = [ph |-> "deploying", ck |-> IF Live THEN 0 ELSE completed, out |-> NodesOf(asm.ops, asm.srs), failed |-> FALSE]
  /\ pend' = IF Dev_PendingNotCleared THEN pend ELSE NoPend
  /\ splitters' = IF Dev_SplitterAppended THEN splitters + 1 ELSE 1
  /\ taint' = taint \cup (IF Dev_PendingNotCleared /\ pend.on THEN {"Dev_PendingNotCleared"} ELSE {})
                    \cup (IF Dev_SplitterAppended /\ splitters >= 1 THEN {"Dev_SplitterAppended"} ELSE {})
  /\ Log([a |-> "StartAssembly", ops |-> SetSeq(asm.ops), srs |-> SetSeq(asm.srs), ck |-> completed, gen |-> asm.gen])
  /\ UNCHANGED <<reg, hb, now, alive, status, asm, ckptId, publishing, completed, dep, sck, ock, msgs, nev, nflaky, pubs, ticker>>

\* the task start() queues when every Deploy has returned
Finish(out2, failed2) ==
  IF out2 # {} THEN /\ st' = [st EXCEPT !.out = out2, !.failed = failed2]
                    /\ UNCHANGED <<reg, hb, status, asm, ticker>>
  ELSE IF failed2
    THEN \* "failed to start job": Paused (a ticker, if any, is stopped), then evaluate
         LET e == Eval(reg, hb, "Paused", asm) IN
         /\ reg' = e.reg /\ hb' = e.hb /\ status' = e.status /\ asm' = e.asm
         /\ st' = IF e.spawn THEN [NoSt EXCEPT !.ph = "spawned"] ELSE NoSt
         /\ ticker' = Stopped(ticker)
    ELSE \* splitter.Start, "running", a NEW checkpoint ticker, evaluate (which may pause again at once)
         LET e == Eval(reg, hb, "Running", asm)
             t1 == IF Dev_TickerNotRecreated /\ ticker # "none" THEN ticker ELSE "live"
         IN
         /\ reg' = e.reg /\ hb' = e.hb /\ status' = e.status /\ asm' = e.asm /\ st' = NoSt
         /\ ticker' = IF e.status # "Running" THEN Stopped(t1) ELSE t1

FinObs(out2, failed2) ==
  IF out2 # {} THEN [done |-> FALSE]
  ELSE IF failed2 THEN [done |-> TRUE, ok |-> FALSE, ev |-> EvObs(Eval(reg, hb, "Paused", asm))]
  ELSE [done |-> TRUE, ok |-> TRUE, ev |-> EvObs(Eval(reg, hb, "Running", asm))]

\* a live member answers its Deploy: it is (re)deployed from the checkpoint start() read.
\* Repaired design: whatever it held of an earlier deployment is gone.
DeployDone(n) ==
  /\ st.ph = "deploying" /\ n \in st.out /\ n \in alive
  /\ dep' = [dep EXCEPT ![n] = [gen |-> asm.gen, ck |-> st.ck, ops |-> asm.ops, srs |-> asm.srs]]
  /\ IF n[1] = "op"
       THEN LET \* the operator's checkpoint had every barrier of its deployment but was never acknowledged successfully
                complete == ock[n[2]].on /\ ock[n[2]].got = dep[n].srs
                keep == Dev_OpKeepsCheckpoint \/ (Dev_StaleCheckpointSurvivesRedeploy /\ complete)
            IN
            /\ ock' = IF keep THEN ock ELSE [ock EXCEPT ![n[2]] = NoOck]
            /\ taint' = taint \cup (IF Dev_OpKeepsCheckpoint /\ ock[n[2]].on THEN {"Dev_OpKeepsCheckpoint"} ELSE {})
                               \cup (IF Dev_StaleCheckpointSurvivesRedeploy /\ complete THEN {"Dev_StaleCheckpointSurvivesRedeploy"} ELSE {})
            /\ sck' = sck
       ELSE /\ sck' = [sck EXCEPT ![n[2]] = 0] /\ ock' = ock /\ taint' = taint
  /\ Finish(st.out \ {n}, st.failed)
  /\ Log([a |-> "DeployDone", kind |-> n[1], i |-> n[2], ck |-> st.ck, fin |-> FinObs(st.out \ {n}, st.failed)])
  /\ msgs' = IF n[1] = "op" THEN {m \in msgs : m.o # n[2]} ELSE {m \in msgs : m.s # n[2]}
  /\ UNCHANGED <<now, alive, ckptId, pend, publishing, completed, splitters, nev, nflaky, pubs>>

\* the Deploy RPC to n fails: n is dead, or (bounded) a live node refuses
DeployFail(n) ==
  /\ st.ph = "deploying" /\ n \in st.out
  /\ (n \in alive \/ ~Live) => nflaky < MaxFlaky     \* a live node refuses / (generation) the retry loop is bounded
  /\ nflaky' = IF n \in alive \/ ~Live THEN nflaky + 1 ELSE nflaky
  /\ Finish(st.out \ {n}, TRUE)
  /\ Log([a |-> "DeployFail", kind |-> n[1], i |-> n[2], fin |-> FinObs(st.out \ {n}, TRUE)])
  /\ UNCHANGED <<now, alive, ckptId, pend, publishing, completed, splitters, dep, sck, ock, msgs, nev, pubs, taint>>

-----------------------------------------------------------------------------
\* the "checkpointing" ticker (registered while Running)
Tick ==
  /\ status = "Running" /\ ticker = "live" /\ (IF Live THEN publishing = {} ELSE nev < MaxEv)
  /\ nev' = IF Live THEN nev ELSE nev + 1
  /\ pubs' = IF Live THEN 0 ELSE pubs
  /\ IF pend.on
       THEN /\ Log([a |-> "Tick", created |-> FALSE, id |-> 0, srs |-> <<>>])
            /\ UNCHANGED <<ckptId, pend, sck>>
       ELSE /\ ckptId' = ckptId + 1
            /\ pend' = [on |-> TRUE, id |-> ckptId + 1, ops |-> asm.ops, srs |-> asm.srs, acked |-> {}, gen |-> asm.gen]
            /\ sck' = [i \in Ids |-> IF i \in asm.srs /\ Sr(i) \in alive THEN ckptId + 1 ELSE sck[i]]
            /\ Log([a |-> "Tick", created |-> TRUE, id |-> ckptId + 1, srs |-> SetSeq(asm.srs)])
  /\ UNCHANGED <<reg, hb, now, alive, status, asm, st, publishing, completed, splitters, dep, ock, msgs, nflaky, taint, ticker>>

\* store.Add*Snapshot: accepted iff it is for the pending checkpoint and from one of its nodes
Accepts(n, id) == pend.on /\ pend.id = id /\ n \in NodesOf(pend.ops, pend.srs)
AfterAck(n, id) ==
  IF ~Accepts(n, id) THEN pend
  ELSE [pend EXCEPT !.acked = @ \cup {n}]
Complete(p) == p.on /\ p.acked = NodesOf(p.ops, p.srs)
\* finishSnapshot panics unless exactly one splitter is registered
Panics(p) == Complete(p) /\ splitters # 1

JobAck(n, id) ==
  LET p == AfterAck(n, id) IN
  /\ pend' = IF Complete(p) /\ ~Panics(p) THEN NoPend ELSE p
  /\ publishing' = IF Complete(p) /\ ~Panics(p) THEN publishing \cup {p.id} ELSE publishing
  /\ taint' = taint \cup (IF Panics(p) THEN {"Dev_SplitterAppended"} ELSE {})

AckObs(n, id) == LET p == AfterAck(n, id) IN
  [ok |-> Accepts(n, id) /\ ~Panics(p), panic |-> Panics(p), complete |-> Complete(p) /\ ~Panics(p),
   \* cur: the ack belongs to a checkpoint of the assembly the job is running on (only then is its fate demanded by C15)
   cur |-> pend.on /\ pend.id = id /\ pend.gen = asm.gen /\ status = "Running"]

\* runner s takes its queued StartCheckpoint: acks to the job, then a barrier to every operator of ITS deployment
SrCkpt(s) ==
  /\ sck[s] # 0 /\ Sr(s) \in alive /\ dep[Sr(s)].gen # 0
  /\ JobAck(Sr(s), sck[s])
  /\ msgs' = IF Accepts(Sr(s), sck[s])
               THEN msgs \cup {[s |-> s, o |-> o, id |-> sck[s], gen |-> dep[Sr(s)].gen] : o \in {x \in dep[Sr(s)].ops : Op(x) \in alive}}
               ELSE msgs
  /\ sck' = [sck EXCEPT ![s] = 0]
  /\ Log([a |-> "SrCkpt", i |-> s, id |-> sck[s], ack |-> AckObs(Sr(s), sck[s])])
  /\ UNCHANGED <<reg, hb, now, alive, status, asm, st, ckptId, completed, splitters, dep, ock, nev, nflaky, pubs, ticker>>

\* operator o receives the barrier of runner s
OpBarrier(m) ==
  /\ m \in msgs /\ Op(m.o) \in alive /\ m.gen = dep[Op(m.o)].gen
  /\ msgs' = msgs \ {m}
  /\ LET c0 == ock[m.o]
         c1 == IF c0.on THEN c0 ELSE [on |-> TRUE, id |-> m.id, got |-> {}, gen |-> dep[Op(m.o)].gen]
         mismatch == c1.id # m.id          \* "checkpoint ID mismatch": the barrier is refused, the operator stays stuck
         c2 == IF mismatch THEN c1 ELSE [c1 EXCEPT !.got = @ \cup {m.s}]
         all == ~mismatch /\ c2.got = dep[Op(m.o)].srs
     IN IF all
          THEN /\ JobAck(Op(m.o), m.id)
               /\ ock' = [ock EXCEPT ![m.o] = IF Accepts(Op(m.o), m.id) /\ ~Panics(AfterAck(Op(m.o), m.id)) THEN NoOck ELSE c2]
               \* (ack.ok = FALSE with redeploying = TRUE: the LATE acknowledgement of a checkpoint the new start has discarded,
               \*  from a survivor whose Deploy is still outstanding; its checkpoint object stays, complete and unacknowledged)
               /\ Log([a |-> "OpBarrier", s |-> m.s, o |-> m.o, id |-> m.id, all |-> TRUE, ack |-> AckObs(Op(m.o), m.id),
                       redeploying |-> (st.ph = "deploying" /\ Op(m.o) \in st.out)])
          ELSE /\ ock' = [ock EXCEPT ![m.o] = c2]
               /\ Log([a |-> "OpBarrier", s |-> m.s, o |-> m.o, id |-> m.id, all |-> FALSE, refused |-> mismatch])
               /\ UNCHANGED <<pend, publishing, taint>>
  /\ UNCHANGED <<reg, hb, now, alive, status, asm, st, ckptId, completed, splitters, dep, sck, nev, nflaky, pubs, ticker>>

\* finishSnapshotAsync of checkpoint id: the file is written, CurrentCheckpoint moves
Quiescent == msgs = {} /\ ~pend.on /\ \A i \in Ids : sck[i] = 0 \/ dep[Sr(i)].gen = 0
Publish(id) ==
  /\ id \in publishing
  /\ publishing' = publishing \ {id}
  /\ pubs' = IF Live THEN 1 ELSE pubs + 1
  /\ IF Live /\ publishing = {id} /\ Quiescent
       THEN \* renormalise ids (liveness variant only): nothing refers to an id any more except stale operator leftovers
            /\ completed' = 1 /\ ckptId' = 1
            /\ ock' = [i \in Ids |-> IF ock[i].on THEN [ock[i] EXCEPT !.id = 0] ELSE ock[i]]
       ELSE /\ completed' = IF id > completed THEN id ELSE completed
            /\ UNCHANGED <<ckptId, ock>>
  /\ Log([a |-> "Publish", id |-> id, completed |-> IF id > completed THEN id ELSE completed])
  /\ UNCHANGED <<reg, hb, now, alive, status, asm, st, pend, splitters, dep, sck, msgs, nev, nflaky, taint, ticker>>

-----------------------------------------------------------------------------
Internal == StartAssembly \/ (\E n \in Node : DeployDone(n) \/ DeployFail(n))
            \/ (\E s \in Ids : SrCkpt(s)) \/ (\E m \in msgs : OpBarrier(m)) \/ (\E id \in publishing : Publish(id))
\* targeted generation: a start() in flight finishes before the next event (except that a node may be killed meanwhile)
Calm == Focus => st.ph = "none"
External == (\E n \in Node : (Calm /\ (Register(n) \/ Deregister(n))) \/ Kill(n)) \/ Advance \/ (Calm /\ Tick)

Next == Len(hist) < MaxLen /\ (Internal \/ External)

Spec == Init /\ [][Next]_vars

-----------------------------------------------------------------------------
(* Safety *)
TypeOK == /\ status \in {"Init", "Paused", "Starting", "Running"}
          /\ st.ph \in {"none", "spawned", "deploying"}
          /\ (status = "Starting") = (st.ph # "none")
          /\ ticker \in {"none", "live", "stopped"}

\* every Deploy / StartCheckpoint goes to a member of an assembly of exactly W registered operators and W registered runners
FullAsm(a) == Cardinality(a.ops) = W /\ Cardinality(a.srs) = W
DeployOnlyToLiveFull ==
  /\ status \in {"Starting", "Running"} => FullAsm(asm)
  /\ status = "Running" => Healthy(asm, reg)
  /\ pend.on /\ ~Dev_PendingNotCleared => /\ Cardinality(pend.ops) = W /\ Cardinality(pend.srs) = W

\* a job that is Running has no member it knows to be gone; an expired or deregistered member pauses it at once
StopsUsingDeadAssembly ==
  status = "Running" => (asm.ops \subseteq reg.op /\ asm.srs \subseteq reg.sr)

\* every member of a running assembly was deployed for THIS assembly from the checkpoint that was newest when it started
RedeployFromNewest ==
  /\ status = "Running" => \A n \in NodesOf(asm.ops, asm.srs) : dep[n].gen = asm.gen
  /\ st.ph = "deploying" => st.ck <= completed
  /\ status = "Running" => \A n, m \in NodesOf(asm.ops, asm.srs) : dep[n].ck = dep[m].ck

\* safety form of "checkpointing resumes": nothing of an old assembly is left where it blocks the new one
NoLeftover ==
  status = "Running" =>
    /\ pend.on => (pend.gen = asm.gen /\ pend.ops = asm.ops /\ pend.srs = asm.srs)
    /\ splitters = 1
    /\ \A o \in asm.ops : ock[o].on => ock[o].gen = asm.gen

\* "new checkpoints complete again": a running job has a live periodic checkpoint ticker (on a clock where Stop is effective)
TickerLive == status = "Running" => ticker = "live"

Safety == TypeOK /\ DeployOnlyToLiveFull /\ StopsUsingDeadAssembly /\ RedeployFromNewest /\ NoLeftover /\ TickerLive

-----------------------------------------------------------------------------
(* Liveness (Live = TRUE; MaxEv = fault budget): as long as enough nodes stay alive,
   the job gets back to Running and keeps publishing checkpoints. *)
EnoughAlive == Cardinality(OpsOf(alive)) >= W /\ Cardinality(SrsOf(alive)) >= W
Fair == /\ WF_vars(StartAssembly) /\ WF_vars(AdvanceLive) /\ WF_vars(Tick)
        /\ \A n \in Node : WF_vars(DeployDone(n)) /\ WF_vars(DeployFail(n)) /\ WF_vars(Register(n))
        /\ \A s \in Ids : WF_vars(SrCkpt(s))
        /\ WF_vars(\E m \in msgs : OpBarrier(m))
        /\ WF_vars(\E id \in publishing : Publish(id))
LiveNext == \/ StartAssembly \/ (\E n \in Node : DeployDone(n) \/ DeployFail(n) \/ Register(n) \/ Deregister(n) \/ Kill(n))
            \/ (\E s \in Ids : SrCkpt(s)) \/ (\E m \in msgs : OpBarrier(m)) \/ (\E id \in publishing : Publish(id))
            \/ AdvanceLive \/ (\E n \in Node : ExpireLive(n)) \/ Tick
LiveSpec == Init /\ [][LiveNext]_vars /\ Fair
RunsAgain == <>[](~EnoughAlive) \/ <>[](status = "Running")
CheckpointsResume == <>[](~EnoughAlive) \/ []<>(pubs = 1 /\ ~pend.on)
LiveConstraint == ckptId <= 3 /\ asm.gen <= 4

-----------------------------------------------------------------------------
Terminal == ~ENABLED (Internal \/ External)
Dump == (Len(hist) >= MaxLen \/ Terminal) => PrintT(<<"BEHAVIOUR", ToJson(hist)>>)
\* states in which the (unrepaired) design is stuck behind a leftover: used with a Dev_* constant TRUE
CexDump == (~(NoLeftover /\ TickerLive) /\ Len(hist) < MaxLen) => PrintT(<<"BEHAVIOUR", ToJson(hist)>>)
\* shortest counterexample (breadth-first, with the VIEW): print the history of the first bad state and stop there
CexStop == (NoLeftover /\ TickerLive) \/ ~PrintT(<<"BEHAVIOUR", ToJson(hist)>>)
=============================================================================
