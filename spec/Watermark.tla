---------------------------- MODULE Watermark ----------------------------
(* Runner half of C11: the watermarks a source runner emits
   (reduction/workers/sourcerunner/source_runner.go + workers/wmark).

   Impl, shaped like the code:
     processEvents (reader goroutine) puts *placeholders* on outputStream:
        Read(ts)  one per record read (the keyed event arrives asynchronously and
                  is joined with its placeholder in read order)
        Tick      one per watermark tick (and one at end of input)
     sendOperatorEvent (sender goroutine) takes them in order:
        Send      event  : watermarker.AdvanceTime(ts); route the event
                  tick   : stamp CurrentWatermark() = maxTs - (lateness + 1ns) *now*
                           and broadcast it
     maxTs is wmark.Watermarker.maxTimestamp, initially Go's zero time (ZeroT).

   Abs: `out`, the runner's output order (events with timestamps, watermarks
   with values). Property C11 (runner half), all relative to that order:
     Monotone  watermark values never decrease
     Below     a watermark is < the largest event timestamp forwarded before it
     Close     and >= that timestamp - (lateness + 1ns)   ("follows closely";
               with Below this pins it to max - 1ns for zero lateness)
   A watermark emitted before any event is only bound by Monotone.

   StampAtSend = FALSE is the seeded variant "stamp when the tick is queued"
   (used to show that Close is not vacuous).

   Back-pressure and keying (all switched off by Pipe = 0, Keying = FALSE:
   the sender then lags arbitrarily, which covers them abstractly; switched on
   they make the model replayable on a real SourceRunner through gates):
     Keying   a record read is keyed asynchronously by the user handler
              (ReorderFetcher); its placeholder can only be sent once keyed
              (`Keyed`). processEvents reads the next record only when the
              previous ones are keyed and fewer than MaxAhead are unsent (the
              reorder buffer would block it otherwise and ticks would be lost).
     Pipe     how many sent elements may be on their way to the operator: with
              a slow operator (HandleEventBatch held) one batch is inside the
              operator and one is blocked in batchingOperator.Flush, then the
              sender stalls and placeholders pile up in outputStream.
              `Deliver` = the operator takes one more.
     Eager    the sender goroutine sends as soon as it can (what the code does
              when only reads, ticks, keying and the operator are scheduled).
   Dev_AdvanceAtKeyed is the deviation "maxTimestamp advances when the handler
   has keyed the event instead of when the event is forwarded": a tick queued
   before the event and stamped after its keying overtakes it (Below fails).
   Generator of adversarial schedules only; FALSE models the code.           *)
EXTENDS Integers, Sequences, FiniteSets, TLC, Json

CONSTANTS MaxTs,        \* event timestamps are 1..MaxTs (any order)
          MaxEv, MaxTick,
          Lateness,     \* allowed lateness (time units); the runner uses 0
          StampAtSend,
          Keying, MaxAhead, Pipe, Eager,
          Dev_AdvanceAtKeyed,
          StopAtBad,    \* generation of witnesses: a behaviour ends where the property breaks
          MaxLen

VARIABLES q, maxTs, out, infl, nev, ntick, hist
vars == <<q, maxTs, out, infl, nev, ntick, hist>>
view == <<q, maxTs, out, infl, nev, ntick>>

ZeroT == -1000          \* Go's zero time.Time, far below every event timestamp
Max2(a, b) == IF a > b THEN a ELSE b

Init == q = <<>> /\ maxTs = ZeroT /\ out = <<>> /\ infl = 0 /\ nev = 0 /\ ntick = 0 /\ hist = <<>>

Log(r) == hist' = Append(hist, r)

\* largest event timestamp among the first n elements of o (ZeroT if none)
RECURSIVE FMax(_, _)
FMax(o, n) == IF n = 0 THEN ZeroT
              ELSE IF o[n].ty = "ev" THEN Max2(o[n].v, FMax(o, n - 1)) ELSE FMax(o, n - 1)

Stamp(m) == m - (Lateness + 1)

EvIdx(qq)  == {i \in 1..Len(qq) : qq[i].ty = "ev"}
Unkeyed(qq) == {i \in EvIdx(qq) : ~qq[i].kd}

Read(ts) ==
  /\ nev < MaxEv
  /\ Keying => Unkeyed(q) = {} /\ Cardinality(EvIdx(q)) < MaxAhead
  /\ q' = Append(q, [ty |-> "ev", v |-> ts, kd |-> ~Keying]) /\ nev' = nev + 1
  /\ UNCHANGED <<maxTs, out, infl, ntick>>
  /\ Log([a |-> "Read", ts |-> ts])

\* the user handler returns the keyed event (FetchBatch of the ReorderFetcher)
Keyed ==
  /\ Unkeyed(q) # {}
  /\ LET i == CHOOSE j \in Unkeyed(q) : TRUE
     IN /\ q' = [q EXCEPT ![i].kd = TRUE]
        /\ maxTs' = IF Dev_AdvanceAtKeyed THEN Max2(maxTs, q[i].v) ELSE maxTs
  /\ UNCHANGED <<out, infl, nev, ntick>>
  /\ Log([a |-> "Keyed"])

Tick ==
  /\ ntick < MaxTick
  /\ q' = Append(q, [ty |-> "wm", v |-> Stamp(maxTs), kd |-> TRUE])   \* v only used when ~StampAtSend
  /\ ntick' = ntick + 1
  /\ UNCHANGED <<maxTs, out, infl, nev>>
  /\ Log([a |-> "Tick"])

CanSend == q # <<>> /\ Head(q).kd /\ (Pipe = 0 \/ infl < Pipe)

Send ==
  /\ CanSend
  /\ LET h == Head(q)
     IN IF h.ty = "ev"
        THEN /\ maxTs' = IF Dev_AdvanceAtKeyed THEN maxTs ELSE Max2(maxTs, h.v)
             /\ out' = Append(out, [ty |-> "ev", v |-> h.v])
             /\ Log([a |-> "Send", ty |-> "ev", ts |-> h.v, has |-> FALSE, fmax |-> 0, pred |-> 0])
        ELSE LET v == IF StampAtSend THEN Stamp(maxTs) ELSE h.v
                 f == FMax(out, Len(out))
             IN /\ out' = Append(out, [ty |-> "wm", v |-> v])
                /\ UNCHANGED maxTs
                \* has/fmax: what the property refers to; pred: what Impl stamps
                /\ Log([a |-> "Send", ty |-> "wm", ts |-> 0, has |-> f # ZeroT, fmax |-> f, pred |-> v])
  /\ q' = Tail(q)
  /\ infl' = IF Pipe = 0 THEN 0 ELSE infl + 1
  /\ UNCHANGED <<nev, ntick>>

\* the operator takes one more batch
Deliver ==
  /\ infl > 0 /\ infl' = infl - 1
  /\ UNCHANGED <<q, maxTs, out, nev, ntick>>
  /\ Log([a |-> "Deliver"])

Done == nev = MaxEv /\ ntick = MaxTick /\ q = <<>> /\ infl = 0

WmIdx == {i \in 1..Len(out) : out[i].ty = "wm"}
Monotone == \A i, j \in WmIdx : i < j => out[i].v <= out[j].v
Below    == \A i \in WmIdx : FMax(out, i - 1) # ZeroT => out[i].v < FMax(out, i - 1)
Close    == \A i \in WmIdx : FMax(out, i - 1) # ZeroT => out[i].v >= FMax(out, i - 1) - (Lateness + 1)
ImplOK   == maxTs = FMax(out, Len(out))
Bad      == ~(Monotone /\ Below /\ Close)

-----------------------------------------------------------------------------
Next == /\ Len(hist) < MaxLen /\ ~Done /\ ~(StopAtBad /\ Bad)
        /\ IF Eager /\ CanSend THEN Send
           ELSE \/ \E ts \in 1..MaxTs : Read(ts)
                \/ Tick
                \/ Keyed
                \/ Send
                \/ Deliver

Spec == Init /\ [][Next]_vars

-----------------------------------------------------------------------------
Dump == (Done \/ Len(hist) >= MaxLen) => PrintT(<<"BEHAVIOUR", ToJson(hist)>>)
DumpBad == Bad => PrintT(<<"BEHAVIOUR", ToJson(hist)>>)
=============================================================================
