---------------------------- MODULE Watermark ----------------------------
(* Runner half of C11: the watermarks a source runner emits
   (reduction/workers/sourcerunner/source_runner.go + workers/wmark).

   Impl, shaped like the code:
     processEvents (reader goroutine) puts *placeholders* on outputStream:
        Read(ts)  one per record read (the keyed event arrives asynchronously and
                  is joined with its placeholder in read order)
        Tick      one per watermark tick (and one at end of input)
     sendOperatorEvent (sender goroutine) takes them in order:
        Send      event  : watermarker.AdvanceTime(ts); route the event
                  tick   : stamp CurrentWatermark() = maxTs - (lateness + 1ns) *now*
                           and broadcast it
     maxTs is wmark.Watermarker.maxTimestamp, initially Go's zero time (ZeroT).

   Abs: `out`, the runner's output order (events with timestamps, watermarks
   with values). Property C11 (runner half), all relative to that order:
     Monotone  watermark values never decrease
     Below     a watermark is < the largest event timestamp forwarded before it
     Close     and >= that timestamp - (lateness + 1ns)   ("follows closely";
               with Below this pins it to max - 1ns for zero lateness)
   A watermark emitted before any event is only bound by Monotone.

   StampAtSend = FALSE is the seeded variant "stamp when the tick is queued"
   (used to show that Close is not vacuous).                                  *)
EXTENDS Integers, Sequences, FiniteSets, TLC, Json

CONSTANTS MaxTs,        \* event timestamps are 1..MaxTs (any order)
          MaxEv, MaxTick,
          Lateness,     \* allowed lateness (time units); the runner uses 0
          StampAtSend,
          MaxLen

VARIABLES q, maxTs, out, nev, ntick, hist
vars == <<q, maxTs, out, nev, ntick, hist>>
view == <<q, maxTs, out, nev, ntick>>

ZeroT == -1000          \* Go's zero time.Time, far below every event timestamp
Max2(a, b) == IF a > b THEN a ELSE b

Init == q = <<>> /\ maxTs = ZeroT /\ out = <<>> /\ nev = 0 /\ ntick = 0 /\ hist = <<>>

Log(r) == hist' = Append(hist, r)

\* largest event timestamp among the first n elements of o (ZeroT if none)
RECURSIVE FMax(_, _)
FMax(o, n) == IF n = 0 THEN ZeroT
              ELSE IF o[n].ty = "ev" THEN Max2(o[n].v, FMax(o, n - 1)) ELSE FMax(o, n - 1)

Stamp(m) == m - (Lateness + 1)

Read(ts) ==
  /\ nev < MaxEv
  /\ q' = Append(q, [ty |-> "ev", v |-> ts]) /\ nev' = nev + 1
  /\ UNCHANGED <<maxTs, out, ntick>>
  /\ Log([a |-> "Read", ts |-> ts])

Tick ==
  /\ ntick < MaxTick
  /\ q' = Append(q, [ty |-> "wm", v |-> Stamp(maxTs)])   \* v only used when ~StampAtSend
  /\ ntick' = ntick + 1
  /\ UNCHANGED <<maxTs, out, nev>>
  /\ Log([a |-> "Tick"])

Send ==
  /\ q # <<>>
  /\ LET h == Head(q)
     IN IF h.ty = "ev"
        THEN /\ maxTs' = Max2(maxTs, h.v)
             /\ out' = Append(out, h)
             /\ Log([a |-> "Send", ty |-> "ev", ts |-> h.v, has |-> FALSE, fmax |-> 0, pred |-> 0])
        ELSE LET v == IF StampAtSend THEN Stamp(maxTs) ELSE h.v
                 f == FMax(out, Len(out))
             IN /\ out' = Append(out, [ty |-> "wm", v |-> v])
                /\ UNCHANGED maxTs
                \* has/fmax: what the property refers to; pred: what Impl stamps
                /\ Log([a |-> "Send", ty |-> "wm", ts |-> 0, has |-> f # ZeroT, fmax |-> f, pred |-> v])
  /\ q' = Tail(q)
  /\ UNCHANGED <<nev, ntick>>

Done == nev = MaxEv /\ ntick = MaxTick /\ q = <<>>

Next == /\ Len(hist) < MaxLen /\ ~Done
        /\ \/ \E ts \in 1..MaxTs : Read(ts)
           \/ Tick
           \/ Send

Spec == Init /\ [][Next]_vars

-----------------------------------------------------------------------------
WmIdx == {i \in 1..Len(out) : out[i].ty = "wm"}
Monotone == \A i, j \in WmIdx : i < j => out[i].v <= out[j].v
Below    == \A i \in WmIdx : FMax(out, i - 1) # ZeroT => out[i].v < FMax(out, i - 1)
Close    == \A i \in WmIdx : FMax(out, i - 1) # ZeroT => out[i].v >= FMax(out, i - 1) - (Lateness + 1)
ImplOK   == maxTs = FMax(out, Len(out))

Dump == (Done \/ Len(hist) >= MaxLen) => PrintT(<<"BEHAVIOUR", ToJson(hist)>>)
=============================================================================
