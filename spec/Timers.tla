---------------------------- MODULE Timers ----------------------------
(* Event-time timers of one operator (reduction/workers/operator):
   TimerRegistry + TimerStore + ds.PartitionedPriorityQueue + ds.SortedCache
   over the DKV.  Properties C10 and the operator half of C11.

   Abs (what the property talks about; ghost variables here):
     pending \subseteq Key x Time   timers registered and not yet fired
     up[sr]                         latest watermark per upstream source runner,
                                    the epoch (0) until the runner reports
     opWM == Min(up)                the operator's effective watermark
     due / cur                      what the running AdvanceWatermark must
                                    return / has returned so far

   Impl (one action per API call of the real code, state shaped like it):
     db                abstract DKV: the set of timer keys stored (a map key->nil)
     part[g]           KeyGroupPriorityQueue of key group g:
                         c  SortedCache contents     b  SortedCache.byteSize
                         a  allDataInCache
     heap              ds.Heap of the partitions ordered by their Peek()
     rwm               TimerRegistry.watermark (what the handler is told)
     ckpt              latest DKV checkpoint (the DB part is abstract: a set)

   loadFromDB has no observable effect of its own (every operation on a
   partition starts with it and the DB content of a partition only changes
   through operations on that partition), so `part` is kept normalised: after
   every action every partition is loaded.

   Time: integers. 0 = the epoch, ZERO = Go's zero time.Time (year 1),
   PRE = what a runner that has not seen any event reports (zero time - 1ns).

   Deviations (DESIGN 7). None of them is an open finding of this family:
     Dev_PushCountsReplace (#12, util/ds, repaired by the `ordered` family):
       SortedCache.Push adds len(v) even when v replaces an equal entry.  TLC
       shows that with #11 and #13 repaired this only costs cache hits, never
       C10 (all invariants below hold with the constant TRUE as well).
     Dev_PartialLoadAllIn (#11), Dev_PushKeepsLater (#13), Dev_ZeroWatermark
       (#14) were reproduced with this spec (witnesses replayed on the code at
       the predicted step) and repaired in the code (findings/known.jsonl).
       FALSE models the code. They are kept only as generators of *adversarial
       schedules*: the histories on which a model with the deviation breaks C10
       (invariant DumpBad) are replayed on the real code as regression
       schedules (checks/c10.py adversarial); they never classify anything. *)
EXTENDS Integers, Sequences, FiniteSets, TLC, Json

CONSTANTS KGCode,      \* decimal digits: digit k = key group (1..NG) of key k; keys are 1..#digits
          LenCode,     \* decimal digits: digit k = byte length of subject key k
          NG, MaxT, NSR,
          MaxBytes,    \* SortedCache.maxSizeBytes of one partition
          MaxSet, MaxAdv, MaxCkpt, MaxRestore,   \* bounds on the number of calls
          MaxLen,      \* behaviour length after which only the final drain runs
          PreEpochWM,  \* runners may report PRE
          MidSet,      \* SetTimer may happen between two turns of AdvanceWatermark's iterator
          Dev_PushCountsReplace,
          Dev_PartialLoadAllIn,  \* #11 loadFromDB sets allDataInCache after a load that was cut short
          Dev_PushKeepsLater,    \* #13 Push caches an entry although earlier ones are DB-only
          Dev_ZeroWatermark      \* #14 TimerRegistry.watermark is the zero time until the first watermark

VARIABLES pending, up, due, cur,                \* Abs / ghost
          db, part, heap, rwm, phase, ckpt,     \* Impl
          nset, nadv, nckpt, nrest, done, hist

vars == <<pending, up, due, cur, db, part, heap, rwm, phase, ckpt, nset, nadv, nckpt, nrest, done, hist>>
view == <<pending, up, due, cur, db, part, heap, rwm, phase, ckpt, nset, nadv, nckpt, nrest, done>>

RECURSIVE Digits(_)
Digits(n) == IF n < 10 THEN <<n>> ELSE Append(Digits(n \div 10), n % 10)
KGOf   == Digits(KGCode)     \* (TLC configuration files cannot hold tuples)
KeyLen == Digits(LenCode)
PRE  == -2
ZERO == -1
Keys   == 1..Len(KGOf)
Groups == 1..NG
SRs    == 1..NSR
TT     == 0..MaxT                                     \* timer timestamps
WT     == (IF PreEpochWM THEN {PRE} ELSE {}) \cup TT  \* watermark values

Tm(k, t) == [k |-> k, t |-> t]
\* order of the encoded keys <kg><schema><timestamp><subject key> within a group
Lt(a, b) == a.t < b.t \/ (a.t = b.t /\ a.k < b.k)
EB(x)    == 11 + KeyLen[x.k]                          \* bytes of the encoded key
InG(S, g) == {x \in S : KGOf[x.k] = g}
MinOf(S) == CHOOSE x \in S : \A y \in S : x = y \/ Lt(x, y)
MaxOf(S) == CHOOSE x \in S : \A y \in S : x = y \/ Lt(y, x)
RECURSIVE Sorted(_)
Sorted(S) == IF S = {} THEN <<>> ELSE <<MinOf(S)>> \o Sorted(S \ {MinOf(S)})
RECURSIVE SumB(_)
SumB(S) == IF S = {} THEN 0 ELSE LET x == CHOOSE y \in S : TRUE IN EB(x) + SumB(S \ {x})
MinInt(S) == CHOOSE x \in S : \A y \in S : x <= y
MinUp(u) == MinInt({u[s] : s \in SRs})

-----------------------------------------------------------------------------
\* KeyGroupPriorityQueue + SortedCache

\* loadFromDB: scan the partition's prefix in key order, push until IsFull
RECURSIVE LoadSeq(_, _, _, _)
LoadSeq(s, i, c, b) ==
  IF i > Len(s) THEN <<c, b, FALSE>>
  ELSE LET b2 == b + EB(s[i])
           c2 == c \cup {s[i]}
       IN IF b2 >= MaxBytes THEN <<c2, b2, TRUE>> ELSE LoadSeq(s, i + 1, c2, b2)

Load(p, dbg) ==
  IF p.c # {} \/ p.a THEN p
  ELSE LET r == LoadSeq(Sorted(dbg), 1, {}, p.b)
       IN [c |-> r[1], b |-> r[2], a |-> Dev_PartialLoadAllIn \/ ~r[3]]   \* allDataInCache only if the scan was not cut short

RECURSIVE Evict(_)
Evict(p) == IF p.b >= MaxBytes /\ p.c # {}
            THEN LET m == MaxOf(p.c) IN Evict([c |-> p.c \ {m}, b |-> p.b - EB(m), a |-> FALSE])
            ELSE p

CachePush(p, x) == [p EXCEPT !.c = p.c \cup {x},
                             !.b = IF x \in p.c /\ ~Dev_PushCountsReplace THEN p.b ELSE p.b + EB(x)]

\* KeyGroupPriorityQueue.Push (the db.Put is done by the caller of this operator).
\* While the DB holds entries the cache does not, an entry sorting after
\* everything cached is not cached (it may sort after DB-only entries).
PartPush(p0, x, dbg) ==
  LET p    == Load(p0, dbg)
      skip == ~Dev_PushKeepsLater /\ ~p.a /\ p.c # {} /\ Lt(MaxOf(p.c), x)
  IN Evict(IF skip THEN p ELSE CachePush(p, x))

PartDelete(p0, x, dbg) ==
  LET p == Load(p0, dbg)
  IN IF x \in p.c THEN [p EXCEPT !.c = p.c \ {x}, !.b = p.b - EB(x)] ELSE p

-----------------------------------------------------------------------------
\* ds.Heap of partitions, compared by Peek() (timestamps only; empty last)
Cmp(pt, ga, gb) ==
  LET a == pt[ga].c
      b == pt[gb].c
  IN IF a = {} /\ b = {} THEN 0
     ELSE IF a = {} THEN 1
     ELSE IF b = {} THEN -1
     ELSE LET ta == MinOf(a).t
              tb == MinOf(b).t
          IN IF ta < tb THEN -1 ELSE IF ta > tb THEN 1 ELSE 0

Swap(h, i, j) == [h EXCEPT ![i] = h[j], ![j] = h[i]]

RECURSIVE Down(_, _, _)
Down(pt, h, i) ==
  LET l == 2 * i
      r == 2 * i + 1
  IN IF l > Len(h) THEN <<h, i>>
     ELSE LET j == IF r <= Len(h) /\ Cmp(pt, h[r], h[l]) < 0 THEN r ELSE l
          IN IF Cmp(pt, h[j], h[i]) >= 0 THEN <<h, i>> ELSE Down(pt, Swap(h, i, j), j)

RECURSIVE Up(_, _, _)
Up(pt, h, i) ==
  IF i = 1 THEN h
  ELSE LET par == i \div 2
       IN IF Cmp(pt, h[i], h[par]) >= 0 THEN h ELSE Up(pt, Swap(h, i, par), par)

Fix(pt, h, i) == LET d == Down(pt, h, i) IN IF d[2] > i THEN d[1] ELSE Up(pt, h, i)
IndexOf(h, g) == CHOOSE i \in 1..Len(h) : h[i] = g

RECURSIVE BuildHeap(_, _, _)
BuildHeap(pt, h, g) == IF g > NG THEN h ELSE BuildHeap(pt, Up(pt, Append(h, g), Len(h) + 1), g + 1)

RwmInit == IF Dev_ZeroWatermark THEN ZERO ELSE 0
FreshParts(d) == [g \in Groups |-> Load([c |-> {}, b |-> 0, a |-> FALSE], InG(d, g))]

-----------------------------------------------------------------------------
Init ==
  /\ pending = {} /\ up = [s \in SRs |-> 0] /\ due = {} /\ cur = <<>>
  /\ db = {} /\ part = FreshParts({}) /\ heap = BuildHeap(FreshParts({}), <<>>, 1)
  /\ rwm = RwmInit /\ phase = "idle"
  /\ ckpt = [has |-> FALSE, db |-> {}, pending |-> {}]
  /\ nset = 0 /\ nadv = 0 /\ nckpt = 0 /\ nrest = 0 /\ done = FALSE /\ hist = <<>>

\* every logged step carries the watermark the handler must be told after it
Log(r) == hist' = Append(hist, r @@ [wm |-> MinUp(up'), pwm |-> rwm'])

\* TimerRegistry.SetTimer(key, t)
SetTimer(k, t) ==
  /\ nset < MaxSet
  /\ LET x    == Tm(k, t)
         g    == KGOf[k]
         acc  == t > MinUp(up)        \* Abs: later than the operator's watermark
         iacc == rwm < t              \* code: r.watermark.Before(t)
         dbg2 == InG(db, g) \cup {x}
         p2   == Load(PartPush(part[g], x, InG(db, g)), dbg2)
         pt2  == [part EXCEPT ![g] = p2]
     IN /\ pending' = IF acc THEN pending \cup {x} ELSE pending
        /\ db' = IF iacc THEN db \cup {x} ELSE db
        /\ part' = IF iacc THEN pt2 ELSE part
        /\ heap' = IF iacc THEN Fix(pt2, heap, IndexOf(heap, g)) ELSE heap
        /\ nset' = nset + 1
        /\ UNCHANGED <<up, due, cur, rwm, phase, ckpt, nadv, nckpt, nrest, done>>
        /\ Log([a |-> "SetTimer", k |-> k, t |-> t, acc |-> acc])

\* TimerRegistry.AdvanceWatermark(sr, t): the part before the iterator runs
AdvBegin(sr, t) ==
  /\ phase = "idle"
  /\ t >= up[sr] \/ (t = PRE /\ up[sr] = 0)   \* runner watermarks are monotone (runner half of C11)
  /\ LET u2 == [up EXCEPT ![sr] = t]
         w  == MinUp(u2)
         d  == {x \in pending : x.t <= w}
     IN /\ up' = u2 /\ rwm' = w /\ due' = d /\ pending' = pending \ d
        /\ cur' = <<>> /\ phase' = "firing" /\ nadv' = nadv + 1
        /\ UNCHANGED <<db, part, heap, ckpt, nset, nckpt, nrest, done>>
        /\ Log([a |-> "Adv", sr |-> sr, t |-> t, due |-> Sorted(d)])

\* one turn of the iterator's loop: GetEarliest, compare, Delete, yield
FireStep ==
  /\ phase = "firing"
  /\ LET g == heap[1]
         p == part[g]
     IN IF p.c # {} /\ MinOf(p.c).t <= rwm
        THEN LET x   == MinOf(p.c)
                 db2 == db \ {x}
                 p2  == Load(PartDelete(p, x, InG(db, g)), InG(db2, g))
                 pt2 == [part EXCEPT ![g] = p2]
             IN /\ db' = db2 /\ part' = pt2 /\ heap' = Fix(pt2, heap, 1)
                /\ cur' = Append(cur, x)
                /\ UNCHANGED <<pending, up, due, rwm, phase, ckpt, nset, nadv, nckpt, nrest, done>>
                /\ Log([a |-> "Fire", end |-> FALSE, k |-> x.k, t |-> x.t])
        ELSE /\ phase' = "idle"
             /\ UNCHANGED <<pending, up, due, cur, db, part, heap, rwm, ckpt, nset, nadv, nckpt, nrest, done>>
             /\ Log([a |-> "Fire", end |-> TRUE, k |-> 0, t |-> 0])

\* db.Checkpoint(id)() between two events of the operator's loop
Checkpoint ==
  /\ phase = "idle" /\ nckpt < MaxCkpt
  /\ ckpt' = [has |-> TRUE, db |-> db, pending |-> pending]
  /\ nckpt' = nckpt + 1
  /\ UNCHANGED <<pending, up, due, cur, db, part, heap, rwm, phase, nset, nadv, nrest, done>>
  /\ Log([a |-> "Checkpoint", id |-> nckpt + 1])

\* the process is lost; a fresh DB, TimerStore and TimerRegistry are opened from the latest checkpoint
Restore ==
  /\ phase = "idle" /\ ckpt.has /\ nrest < MaxRestore
  /\ LET pt0 == FreshParts(ckpt.db)
     IN /\ db' = ckpt.db /\ pending' = ckpt.pending /\ part' = pt0
        /\ heap' = BuildHeap(pt0, <<>>, 1)
        /\ up' = [s \in SRs |-> 0] /\ rwm' = RwmInit /\ due' = {} /\ cur' = <<>>
        /\ nrest' = nrest + 1
        /\ UNCHANGED <<phase, ckpt, nset, nadv, nckpt, done>>
        /\ Log([a |-> "Restore", id |-> nckpt, pending |-> Sorted(ckpt.pending)])

Finish ==
  /\ done' = TRUE
  /\ UNCHANGED <<pending, up, due, cur, db, part, heap, rwm, phase, ckpt, nset, nadv, nckpt, nrest>>
  /\ Log([a |-> "Finish"])

Lagging == {s \in SRs : up[s] < MaxT}
\* no call budget left (the final drain then runs even before MaxLen)
Exhausted == /\ nset >= MaxSet /\ nadv >= MaxAdv /\ nckpt >= MaxCkpt
             /\ (nrest >= MaxRestore \/ ~ckpt.has)

Next ==
  /\ ~done
  /\ IF phase = "firing"
     THEN \/ FireStep
          \* the handler call that delivers an expired timer registers new timers
          \/ (MidSet /\ cur # <<>> /\ Len(hist) < MaxLen /\ \E k \in Keys, t \in TT : SetTimer(k, t))
     ELSE IF Len(hist) >= MaxLen \/ Exhausted
          THEN \* final drain: every upstream reaches MaxT, everything pending must fire
               IF Lagging # {} THEN AdvBegin(MinInt(Lagging), MaxT) ELSE Finish
          ELSE \/ \E k \in Keys, t \in TT : SetTimer(k, t)
               \/ (nadv < MaxAdv /\ \E s \in SRs, t \in WT : AdvBegin(s, t))
               \/ Checkpoint
               \/ Restore

Spec == Init /\ [][Next]_vars

-----------------------------------------------------------------------------
CurSet == {cur[i] : i \in 1..Len(cur)}

\* C10
FiredOnce    == Cardinality(CurSet) = Len(cur)
FiredOrdered == \A i \in 1..(Len(cur) - 1) : cur[i].t <= cur[i + 1].t
FiredDue     == CurSet \subseteq due                 \* only registered, unfired timers at or before the watermark
NoneLost     == phase = "idle" => CurSet = due
\* C11 (operator half)
NoLateFire   == \A x \in CurSet : x.t <= MinUp(up)
HandlerWM    == rwm = MinUp(up)
\* Restore preserves pending exactly / write-through: the DB holds exactly what is pending
DbIsPending  == db = pending \cup (due \ CurSet)

\* internal (explains why the above hold)
CacheOK == \A g \in Groups :
  LET p == part[g]
      d == InG(db, g)
  IN /\ p.c \subseteq d
     /\ p.a => p.c = d
     /\ p.c = {} => d = {}                                        \* normalised
     /\ \A x \in p.c, y \in d \ p.c : Lt(x, y)                    \* the cache is a prefix of the DB order
     /\ ~Dev_PushCountsReplace => p.b = SumB(p.c)
HeapOK == \A g \in Groups : Cmp(part, heap[1], g) <= 0
TypeOK == /\ pending \subseteq {Tm(k, t) : k \in Keys, t \in TT} /\ db \subseteq {Tm(k, t) : k \in Keys, t \in TT}
          /\ phase \in {"idle", "firing"} /\ \A s \in SRs : up[s] \in WT

-----------------------------------------------------------------------------
\* witnesses of a deviation: the history up to the first state that breaks C10
Bad == ~(FiredOnce /\ FiredOrdered /\ FiredDue /\ NoneLost)
DumpBad == Bad => PrintT(<<"BEHAVIOUR", ToJson(hist)>>)
Dump == (done \/ Len(hist) >= MaxLen + 200) => PrintT(<<"BEHAVIOUR", ToJson(hist)>>)
=============================================================================
