------------------------------ MODULE Align ------------------------------
(* Implementation-shaped model of checkpoint-barrier alignment in
   workers/operator (operator.go HandleEvent / processEvents /
   handleCheckpointBarrier, checkpoint.go alignSender / registerBarrier) and of
   the operator's EventBatcher (batching/batching.go) with its BatchTimedOut
   token.  Property C02.

   Goroutines and their critical sections (one action each):

     sender sr (one HandleEventBatch caller per source runner; items strictly
     in script order, the next call starts after the previous one returned)
        AlignCheck(sr,it) : o.mu.RLock; o.checkpoint.alignSender(sr); RUnlock.
                            The RLock is dropped before the sender blocks or
                            enqueues, so the decision is a separate action.
        (Park)            : decision "wait": blocks on the allBarriersReceived
                            channel of the checkpoint object it saw (pc =
                            "parked", waitfor = id).  A closed channel stays
                            closed, so there is no lost wake-up.
        Unpark(sr)        : the channel was closed (registerBarrier of the
                            last barrier - BEFORE the batch flush and the DKV
                            checkpoint); sender proceeds to the rendezvous.
        Enqueue(sr)       : o.events <- closure (unbuffered: succeeds only
                            while the loop sits in its select).
     event loop (processEvents; the only goroutine touching state)
        LoopEvent / LoopWatermark / LoopBarrier(sr) : run the closure.
        CompleteCheckpoint : db.Checkpoint + job.OperatorCheckpointComplete +
                            o.checkpoint = nil (still inside the barrier closure,
                            o.mu held).
        LoopBatchTimeout(tok) : receive from eventBatcher.BatchTimedOut.
     batch timer
        TimerFire         : the armed timer expires; its callback carries the
                            token of the batch it was armed for (may be stale
                            when received).

   While the loop runs a closure no other action that reads or writes shared
   state can interleave observably: handleCheckpointBarrier holds o.mu, and
   event/watermark closures do not touch o.checkpoint (AlignCheck commutes
   with them).  So AlignCheck/Enqueue/TimerFire are only scheduled while the
   loop is idle; Unpark (no shared state) is scheduled any time.

   Inputs.  Sender sr sends slen[sr] items, chosen on the fly, containing the
   barriers 1..K in increasing order (what the job makes every source runner
   do).  With MaxSkip > 0 a runner may skip a barrier id (the job abandoned
   that checkpoint for it): the operator must then refuse the barrier that
   does not match the open checkpoint ("checkpoint ID mismatch" is returned
   to the runner, which stops sending) instead of counting it.
   Item kinds: "e" keyed event (identity <<sr, idx>>), "w" watermark (the j-th
   watermark of a sender has value j), "b" barrier.

   Faults (environment actions, each switched by a constant; with MaxCancel =
   MaxHFail = 0 and every Dev_* FALSE the state graph is the fault-free one):

     CancelCaller(sr)  : the request context of runner sr is cancelled (client
                         deadline, dropped connection) - at any moment: while
                         its call is parked for alignment, queued, or while its
                         barrier is being processed.  The RPC handler keeps
                         calling HandleEvent with the same context for the
                         rest of the request, so cx[sr] stays TRUE until one of
                         these calls returns an error (the runner then stops).
                         Nothing in HandleEvent itself looks at the context:
                         neither the alignment wait nor the rendezvous with
                         the event loop.  The context reaches (a) the handler
                         call of a flush made by that caller's closure
                         (HonourCtx: the handler fails when its ctx is done,
                         as the connect clients do; FALSE: a handler that
                         ignores ctx) and (b) job.OperatorCheckpointComplete
                         of the caller that carried the last barrier (the job
                         client always honours its ctx).
     ArmHandlerFail    : the next handler invocation returns an error
                         (transient: later calls succeed).
     TimerFire/LoopBatchTimeout : the batch time-out (as before); its flush
                         runs with the operator's own context.
     stopped           : terminal - processEvents returned an error (a failed
                         time-out flush), Start shuts the operator down.

   processEventBatch takes the batch out of the batcher BEFORE it calls the
   handler; a failed call therefore drops the batch, including events whose
   own HandleEvent call returned nil long ago.  What keeps a hollow checkpoint
   from being reported: the error goes to the caller whose closure flushed
   (that runner stops, so no later checkpoint can get all its barriers), a
   failed time-out flush stops the operator, a failed flush in front of the
   checkpoint fails the barrier (repaired: the error used to be ignored,
   Dev_IgnoreBarrierFlushError), a failed report leaves the checkpoint object
   open for ever.  `doomed` (ghost) = one of these failures happened: this
   operator instance will never report a checkpoint again, and what is applied
   afterwards can no longer reach a checkpoint (NoEarlyApply is only demanded
   before).

   Deviations (regression witnesses, CexDump): Dev_CtxAwareWait (a cancelled
   parked caller is let through), Dev_SwallowFlushError (a failed time-out
   flush is logged, the loop carries on), Dev_ReportWithoutCancel (the report
   is made with a context detached from the caller's),
   Dev_IgnoreBarrierFlushError (see above), Dev_SwallowEventFlushError /
   Dev_SwallowWatermarkFlushError (the error of a flush made by an event's /
   a watermark's closure is logged and the caller is told nil).

   Reference handler (harness/cmd/align): a keyed event writes the state
   entry seen(sr,idx) and registers a timer for its own key at W+1 where W is
   the watermark of the request; a TimerExpired writes fired(sr,idx).  So the
   ghost state {seen, fired, timers} is exactly what a DKV checkpoint holds. *)
EXTENDS Integers, Sequences, FiniteSets, TLC, Json

CONSTANTS NS,        \* number of senders
          K,         \* number of checkpoints (barriers per sender)
          MaxScript, \* maximal script length per sender
          MaxSize,   \* EventBatcher.maxSize of the operator
          UseTimer,  \* EventBatching.MaxDelay > 0
          MaxFires,  \* bound on batch-timer expiries
          MaxW,      \* bound on watermarks per sender
          MaxSkip,   \* how many barrier ids may be skipped (over all senders)
          MaxLen,    \* behaviour length bound (generation only)
          MaxCancel, \* how many request contexts may be cancelled (0: fault off)
          MaxHFail,  \* how many handler invocations may be made to fail (0: fault off)
          HonourCtx, \* the handler fails when the context of its call is cancelled
          FaultFrom, \* set of naturals: no fault before that many items were sent in total (chosen per
                     \* behaviour; {0} for exhaustive runs, a range to spread the faults of simulated behaviours)
          Dev_CtxAwareWait, Dev_SwallowFlushError, Dev_ReportWithoutCancel, Dev_IgnoreBarrierFlushError,
          Dev_SwallowEventFlushError, Dev_SwallowWatermarkFlushError

Senders == 1..NS
None == -1
Inf == 99

VARIABLES slen, sent, pc, waitfor, nskip,  \* senders
          ck, nclosed,                   \* o.checkpoint, closed allBarriersReceived channels
          loop, lph,                     \* event loop: 0 idle / sender whose closure runs; phase
          batch, token, armed, inflight, nfired,   \* EventBatcher + timer
          wm,                            \* TimerRegistry.upstreams
          seen, fired, timers,           \* DKV contents (through the reference handler)
          cut, acks,                     \* ghost: contents of checkpoint n; OperatorCheckpointComplete calls
          lastcalls,                     \* ghost: handler calls made by the last step
          cx, ncancel,                   \* faults: cancelled request contexts
          failnext, nhfail,              \* faults: the next handler invocation fails
          stopped,                       \* Start returned (processEvents failed)
          fstart,                        \* faults may strike once this many items were sent (fixed per behaviour)
          doomed, early,                 \* ghost: a failure was handed out / a post-barrier unit was applied early
          hist

vars == <<slen, sent, pc, waitfor, nskip, ck, nclosed, loop, lph, batch, token, armed, inflight, nfired,
          wm, seen, fired, timers, cut, acks, lastcalls, cx, ncancel, failnext, nhfail, stopped, fstart, doomed, early, hist>>
fvars == <<cx, ncancel, failnext, nhfail, stopped, fstart, doomed, early>>
view == <<slen, sent, pc, waitfor, nskip, ck, nclosed, loop, lph, batch, token, armed, inflight, nfired,
          wm, seen, fired, timers, cut, acks, cx, ncancel, failnext, nhfail, stopped, fstart, doomed, early>>

NoCk == [open |-> FALSE, id |-> 0, missing |-> {}]

Init ==
  /\ slen \in [Senders -> K..MaxScript]
  /\ sent = [s \in Senders |-> <<>>]
  /\ pc = [s \in Senders |-> "idle"] /\ waitfor = [s \in Senders |-> 0] /\ nskip = 0
  /\ ck = NoCk /\ nclosed = 0
  /\ loop = 0 /\ lph = "run"
  /\ batch = <<>> /\ token = 0 /\ armed = None /\ inflight = {} /\ nfired = 0
  /\ wm = [s \in Senders |-> 0]
  /\ seen = {} /\ fired = {} /\ timers = {}
  /\ cut = [n \in {} |-> 0] /\ acks = <<>>
  /\ lastcalls = <<>> /\ hist = <<>>
  /\ cx = [s \in Senders |-> FALSE] /\ ncancel = 0 /\ failnext = FALSE /\ nhfail = 0
  /\ stopped = FALSE /\ doomed = FALSE /\ early = FALSE /\ fstart \in FaultFrom

Log(r) == hist' = Append(hist, r)

Min(S) == CHOOSE x \in S : \A y \in S : x <= y
Max0(S) == IF S = {} THEN 0 ELSE CHOOSE x \in S : \A y \in S : x >= y
Rg(sq) == {sq[i] : i \in 1..Len(sq)}
Comp(w) == Min({w[s] : s \in Senders})            \* composite watermark

\* ---- script helpers ----------------------------------------------------
NKind(sq, k) == Cardinality({i \in 1..Len(sq) : sq[i].k = k})
Cur(s) == sent[s][Len(sent[s])]
\* ids of s's barriers before position idx of its script
BarriersBefore(s, idx) == {sent[s][i].v : i \in {j \in 1..Len(sent[s]) : j < idx /\ sent[s][j].k = "b"}}
\* id of the last barrier s sent (0 if none)
LastB(s) == Max0({sent[s][i].v : i \in {j \in 1..Len(sent[s]) : sent[s][j].k = "b"}})
\* position of barrier n in s's script (0 if not sent yet)
BarrierPos(s, n) == LET ps == {i \in 1..Len(sent[s]) : sent[s][i].k = "b" /\ sent[s][i].v = n}
                    IN IF ps = {} THEN 0 ELSE Min(ps)
PreBarrier(s, n) == {[sr |-> s, idx |-> i] : i \in {j \in 1..Len(sent[s]) : j < BarrierPos(s, n) /\ sent[s][j].k = "e"}}
PostBarrier(s, n) == {[sr |-> s, idx |-> i] : i \in {j \in 1..Len(sent[s]) : BarrierPos(s, n) > 0 /\ j > BarrierPos(s, n)}}
CutDemand(n) == UNION {PreBarrier(s, n) : s \in Senders}
\* watermark the operator may have reached when checkpoint n is cut
CutWm(n) == Min({Cardinality({j \in 1..Len(sent[s]) : j < BarrierPos(s, n) /\ sent[s][j].k = "w"}) : s \in Senders})

\* What the property allows to be applied right now (exported to the replayer):
\* items of s up to (excluding) its first barrier whose checkpoint is not complete.
AllowIdx(s) == LET ps == {i \in 1..Len(sent[s]) : sent[s][i].k = "b" /\ sent[s][i].v \notin Rg(acks)}
               IN IF ps = {} THEN Inf ELSE Min(ps) - 1
AllowWm == Min({Cardinality({j \in 1..Len(sent[s]) : j <= AllowIdx(s) /\ sent[s][j].k = "w"}) : s \in Senders})
Allow == [idx |-> [s \in Senders |-> AllowIdx(s)], wm |-> AllowWm, doomed |-> doomed]

\* ---- the loop's machine state as a record (so that closures can be written
\*      as functions) -----------------------------------------------------
M == [batch |-> batch, token |-> token, armed |-> armed, seen |-> seen, fired |-> fired,
      timers |-> timers, calls |-> <<>>, fn |-> failnext, err |-> FALSE]

EvUnit(s, i) == [t |-> "e", sr |-> s, idx |-> i, T |-> 0, csr |-> s, cidx |-> i]
TmUnit(tm, s, i) == [t |-> "t", sr |-> tm.sr, idx |-> tm.idx, T |-> tm.T, csr |-> s, cidx |-> i]

\* processEventBatch on a non-empty flushed batch: the batch is taken out of
\* the batcher, then the handler is called with the context cxl (TRUE =
\* cancelled) of whoever flushes; on success the timers and mutations of the
\* response are applied, on failure the batch is gone and the error is
\* returned (m.err)
Process(m, W, cxl) ==
  IF m.batch = <<>> THEN m ELSE
  LET us == {m.batch[i] : i \in 1..Len(m.batch)}
      evs == {u \in us : u.t = "e"}
      tms == {u \in us : u.t = "t"}
      fail == m.fn \/ (HonourCtx /\ cxl)
  IN IF fail
     THEN [m EXCEPT !.batch = <<>>, !.token = @ + 1, !.armed = None, !.fn = FALSE, !.err = TRUE,
                    !.calls = Append(@, [items |-> m.batch, w |-> W, fail |-> TRUE])]
     ELSE [m EXCEPT !.batch = <<>>, !.token = @ + 1, !.armed = None,
               !.seen = @ \cup {[sr |-> u.sr, idx |-> u.idx] : u \in evs},
               !.timers = @ \cup {[sr |-> u.sr, idx |-> u.idx, T |-> W + 1] : u \in evs},
               !.fired = @ \cup {[sr |-> u.sr, idx |-> u.idx, T |-> u.T] : u \in tms},
               !.calls = Append(@, [items |-> m.batch, w |-> W, fail |-> FALSE])]

\* eventBatcher.Add; if IsFull then processEventBatch(CurrentBatch)
AddUnit(m, u, W, cxl) ==
  LET m1 == [m EXCEPT !.batch = Append(@, u),
                      !.armed = IF m.batch = <<>> /\ UseTimer THEN m.token ELSE @]
  IN IF Len(m1.batch) >= MaxSize THEN Process(m1, W, cxl) ELSE m1

TLess(a, b) == \/ a.T < b.T
               \/ a.T = b.T /\ (a.sr < b.sr \/ (a.sr = b.sr /\ a.idx < b.idx))
RECURSIVE SortTimers(_)
SortTimers(S) == IF S = {} THEN <<>>
                 ELSE LET x == CHOOSE x \in S : \A y \in S \ {x} : TLess(x, y)
                      IN <<x>> \o SortTimers(S \ {x})

\* handleWatermark: every due timer is deleted from the store and added to the
\* batch; a failed flush ends the iteration (the timers not reached stay)
RECURSIVE FireAll(_, _, _, _, _, _)
FireAll(m, due, W, s, i, cxl) ==
  IF due = <<>> \/ (m.err /\ ~Dev_SwallowWatermarkFlushError) THEN m
  ELSE LET tm == Head(due)
       IN FireAll(AddUnit([m EXCEPT !.timers = @ \ {tm}], TmUnit(tm, s, i), W, cxl), Tail(due), W, s, i, cxl)

\* a successful handler call that applies a unit delivered after a barrier
\* whose checkpoint is not complete (judged against the state before the step)
UnitOK(u, done) == BarriersBefore(u.csr, u.cidx) \subseteq done
EarlyIn(calls) == \E i \in 1..Len(calls) : ~calls[i].fail /\ \E j \in 1..Len(calls[i].items) :
                     ~UnitOK(calls[i].items[j], Rg(acks))

SetM(m) == /\ batch' = m.batch /\ token' = m.token /\ armed' = m.armed
           /\ seen' = m.seen /\ fired' = m.fired /\ timers' = m.timers
           /\ lastcalls' = m.calls /\ failnext' = m.fn
           /\ early' = (early \/ (~doomed /\ EarlyIn(m.calls)))
NoFault == UNCHANGED fvars
\* steps that make no handler call
NoCall == UNCHANGED <<failnext, early>>

LoopFree == loop = 0 /\ ~stopped

\* ---- sender actions ------------------------------------------------------
\* the items s may send next: an event, its next watermark, its next barrier
\* (or, skipping one id, the one after)
Items(s) == {[k |-> "e", v |-> 0], [k |-> "w", v |-> NKind(sent[s], "w") + 1],
             [k |-> "b", v |-> LastB(s) + 1], [k |-> "b", v |-> LastB(s) + 2]}
CanSend(s, it) ==
  LET rem == slen[s] - Len(sent[s])
  IN /\ rem > 0
     /\ it.k = "b" => it.v <= K /\ (it.v = LastB(s) + 2 => nskip < MaxSkip)
     /\ it.k # "b" => rem > K - LastB(s)       \* leave room for the remaining barriers
     /\ it.k = "w" => it.v <= MaxW

\* start of HandleEvent: read o.checkpoint under the read lock
AlignCheck(s, it) ==
  /\ LoopFree /\ pc[s] = "idle" /\ CanSend(s, it)
  /\ LET k == it.k
         park == ck.open /\ s \notin ck.missing
     IN /\ sent' = [sent EXCEPT ![s] = Append(@, it)]
        /\ nskip' = IF k = "b" /\ it.v = LastB(s) + 2 THEN nskip + 1 ELSE nskip
        /\ pc' = [pc EXCEPT ![s] = IF park THEN "parked" ELSE "pass"]
        /\ waitfor' = [waitfor EXCEPT ![s] = IF park THEN ck.id ELSE 0]
        /\ Log([a |-> "AlignCheck", sr |-> s, k |-> k, v |-> it.v, idx |-> Len(sent[s]) + 1,
                park |-> park, wf |-> IF park THEN ck.id ELSE 0])
  /\ lastcalls' = <<>> /\ NoFault
  /\ UNCHANGED <<slen, ck, nclosed, loop, lph, batch, token, armed, inflight, nfired, wm, seen, fired, timers, cut, acks>>

\* the blocked sender is woken: the channel it waits on was closed - or
\* (Dev_CtxAwareWait) its request context is done
Unpark(s) ==
  /\ pc[s] = "parked" /\ ~stopped
  /\ waitfor[s] <= nclosed \/ (Dev_CtxAwareWait /\ cx[s])
  /\ pc' = [pc EXCEPT ![s] = "pass"] /\ waitfor' = [waitfor EXCEPT ![s] = 0]
  /\ Log([a |-> "Unpark", sr |-> s, dev |-> waitfor[s] > nclosed])
  /\ lastcalls' = <<>> /\ NoFault
  /\ UNCHANGED <<slen, sent, nskip, ck, nclosed, loop, lph, batch, token, armed, inflight, nfired, wm, seen, fired, timers, cut, acks>>

Enqueue(s) ==
  /\ LoopFree /\ pc[s] = "pass"
  /\ loop' = s /\ lph' = "run" /\ pc' = [pc EXCEPT ![s] = "loop"]
  /\ Log([a |-> "Enqueue", sr |-> s])
  /\ lastcalls' = <<>> /\ NoFault
  /\ UNCHANGED <<slen, sent, waitfor, nskip, ck, nclosed, batch, token, armed, inflight, nfired, wm, seen, fired, timers, cut, acks>>

\* ---- faults ----------------------------------------------------------------
\* the context of runner s's request is cancelled (s has a call in flight or
\* will make another one)
RECURSIVE SumLen(_)
SumLen(S) == IF S = {} THEN 0 ELSE LET x == CHOOSE x \in S : TRUE IN Len(sent[x]) + SumLen(S \ {x})
FaultsOpen == SumLen(Senders) >= fstart

CancelCaller(s) ==
  /\ ncancel < MaxCancel /\ ~cx[s] /\ ~stopped /\ FaultsOpen
  /\ pc[s] # "dead" /\ ~(pc[s] = "idle" /\ Len(sent[s]) = slen[s])
  /\ cx' = [cx EXCEPT ![s] = TRUE] /\ ncancel' = ncancel + 1
  /\ Log([a |-> "CancelCaller", sr |-> s, pc |-> pc[s]])
  /\ lastcalls' = <<>>
  /\ UNCHANGED <<slen, sent, pc, waitfor, nskip, ck, nclosed, loop, lph, batch, token, armed, inflight, nfired, wm,
                 seen, fired, timers, cut, acks, failnext, nhfail, stopped, fstart, doomed, early>>

ArmHandlerFail ==
  /\ LoopFree /\ nhfail < MaxHFail /\ ~failnext /\ FaultsOpen
  /\ failnext' = TRUE /\ nhfail' = nhfail + 1
  /\ Log([a |-> "ArmHandlerFail"])
  /\ lastcalls' = <<>>
  /\ UNCHANGED <<slen, sent, pc, waitfor, nskip, ck, nclosed, loop, lph, batch, token, armed, inflight, nfired, wm,
                 seen, fired, timers, cut, acks, cx, ncancel, stopped, fstart, doomed, early>>

\* ---- loop actions --------------------------------------------------------
Return(s) == /\ loop' = 0 /\ lph' = "run" /\ pc' = [pc EXCEPT ![s] = "idle"]
\* HandleEvent returned an error: the runner stops sending
Fail(s) == /\ loop' = 0 /\ lph' = "run" /\ pc' = [pc EXCEPT ![s] = "dead"]
RetOrFail(s, err) == IF err THEN Fail(s) ELSE Return(s)
FaultKeep == UNCHANGED <<cx, ncancel, nhfail, stopped, fstart>>

LoopEvent ==
  /\ loop # 0 /\ lph = "run" /\ Cur(loop).k = "e"
  /\ LET s == loop
         m == AddUnit(M, EvUnit(s, Len(sent[s])), Comp(wm), cx[s])
         err == m.err /\ ~Dev_SwallowEventFlushError
     IN /\ SetM(m) /\ RetOrFail(s, err) /\ doomed' = (doomed \/ m.err)
        /\ Log([a |-> "LoopEvent", sr |-> s, calls |-> m.calls, allow |-> Allow, err |-> err])
  /\ FaultKeep
  /\ UNCHANGED <<slen, sent, waitfor, nskip, ck, nclosed, inflight, nfired, wm, cut, acks>>

LoopWatermark ==
  /\ loop # 0 /\ lph = "run" /\ Cur(loop).k = "w"
  /\ LET s == loop
         wm2 == [wm EXCEPT ![s] = Cur(s).v]
         W == Comp(wm2)
         due == SortTimers({tm \in timers : tm.T <= W})
         m == FireAll(M, due, W, s, Len(sent[s]), cx[s])
         err == m.err /\ ~Dev_SwallowWatermarkFlushError
     IN /\ wm' = wm2 /\ SetM(m) /\ RetOrFail(s, err) /\ doomed' = (doomed \/ m.err)
        /\ Log([a |-> "LoopWatermark", sr |-> s, calls |-> m.calls, allow |-> Allow, w |-> W, err |-> err])
  /\ FaultKeep
  /\ UNCHANGED <<slen, sent, waitfor, nskip, ck, nclosed, inflight, nfired, cut, acks>>

\* handleCheckpointBarrier up to (excluding) db.Checkpoint
LoopBarrier ==
  /\ loop # 0 /\ lph = "run" /\ Cur(loop).k = "b"
  /\ LET s == loop
         n == Cur(s).v
         c1 == IF ck.open THEN ck ELSE [open |-> TRUE, id |-> n, missing |-> Senders]
     IN IF c1.id # n
        THEN \* registerBarrier: "checkpoint ID mismatch" returned to the sender
             /\ ck' = c1 /\ Fail(s) /\ lastcalls' = <<>> /\ NoCall /\ UNCHANGED doomed
             /\ Log([a |-> "LoopBarrier", sr |-> s, n |-> n, last |-> FALSE, mismatch |-> TRUE, calls |-> <<>>, allow |-> Allow, err |-> TRUE])
             /\ UNCHANGED <<nclosed, batch, token, armed, seen, fired, timers>>
        ELSE LET c2 == [c1 EXCEPT !.missing = @ \ {s}]
             IN IF c2.missing # {}
                THEN /\ ck' = c2 /\ Return(s) /\ lastcalls' = <<>> /\ NoCall /\ UNCHANGED doomed
                     /\ Log([a |-> "LoopBarrier", sr |-> s, n |-> n, last |-> FALSE, mismatch |-> FALSE, calls |-> <<>>, allow |-> Allow, err |-> FALSE])
                     /\ UNCHANGED <<nclosed, batch, token, armed, seen, fired, timers>>
                ELSE \* last barrier: close the channel, flush the pending batch with the caller's context
                     LET m == Process(M, Comp(wm), cx[s])
                         stop == m.err /\ ~Dev_IgnoreBarrierFlushError
                     IN /\ ck' = c2 /\ nclosed' = n /\ SetM(m) /\ doomed' = (doomed \/ m.err)
                        /\ IF stop THEN Fail(s)       \* the barrier fails; the checkpoint object stays, all barriers registered
                                   ELSE lph' = "ack" /\ UNCHANGED <<loop, pc>>
                        /\ Log([a |-> "LoopBarrier", sr |-> s, n |-> n, last |-> TRUE, mismatch |-> FALSE, calls |-> m.calls, allow |-> Allow, err |-> stop])
  /\ FaultKeep
  /\ UNCHANGED <<slen, sent, waitfor, nskip, inflight, nfired, wm, cut, acks>>

\* db.Checkpoint(id); job.OperatorCheckpointComplete(ctx of the caller); o.checkpoint = nil
CompleteCheckpoint ==
  /\ loop # 0 /\ lph = "ack"
  /\ LET n == ck.id
         c == [seen |-> seen, fired |-> fired, timers |-> timers]
         rfail == cx[loop] /\ ~Dev_ReportWithoutCancel
     IN IF rfail
        THEN \* the report fails: the barrier call returns the error, o.checkpoint is not reset
             /\ Fail(loop) /\ doomed' = TRUE
             /\ Log([a |-> "CompleteCheckpoint", sr |-> loop, n |-> n, err |-> TRUE])
             /\ UNCHANGED <<cut, acks, ck>>
        ELSE /\ cut' = [x \in DOMAIN cut \cup {n} |-> IF x = n THEN c ELSE cut[x]]
             /\ acks' = Append(acks, n)
             /\ Log([a |-> "CompleteCheckpoint", sr |-> loop, n |-> n, cut |-> c, demand |-> CutDemand(n), cutwm |-> CutWm(n), err |-> FALSE])
             /\ ck' = NoCk /\ Return(loop) /\ UNCHANGED doomed
  /\ lastcalls' = <<>> /\ NoCall /\ FaultKeep
  /\ UNCHANGED <<slen, sent, waitfor, nskip, nclosed, batch, token, armed, inflight, nfired, wm, seen, fired, timers>>

TimerFire ==
  /\ LoopFree /\ armed # None /\ nfired < MaxFires
  /\ inflight' = inflight \cup {armed} /\ armed' = None /\ nfired' = nfired + 1
  /\ Log([a |-> "TimerFire", tok |-> armed])
  /\ lastcalls' = <<>> /\ NoFault
  /\ UNCHANGED <<slen, sent, pc, waitfor, nskip, ck, nclosed, loop, lph, batch, token, wm, seen, fired, timers, cut, acks>>

\* processEvents receives a token from BatchTimedOut: processEventBatch(operator ctx, token);
\* an error ends processEvents and with it the operator
LoopBatchTimeout(tok) ==
  /\ LoopFree /\ tok \in inflight
  /\ inflight' = inflight \ {tok}
  /\ LET m == IF tok = token THEN Process(M, Comp(wm), FALSE) ELSE M
         stop == m.err /\ ~Dev_SwallowFlushError
     IN /\ SetM(m) /\ doomed' = (doomed \/ m.err) /\ stopped' = stop
        /\ Log([a |-> "LoopBatchTimeout", tok |-> tok, calls |-> m.calls, allow |-> Allow, stop |-> stop])
  /\ UNCHANGED <<cx, ncancel, nhfail, fstart>>
  /\ UNCHANGED <<slen, sent, pc, waitfor, nskip, ck, nclosed, loop, lph, nfired, wm, cut, acks>>

\* no sender can act any more: it sent everything, was refused, or waits for a
\* checkpoint that nobody left can complete
Finished == \A s \in Senders : \/ pc[s] = "idle" /\ Len(sent[s]) = slen[s]
                               \/ pc[s] = "dead"
                               \/ pc[s] = "parked" /\ waitfor[s] > nclosed /\ ~(Dev_CtxAwareWait /\ cx[s])
Done == \/ stopped
        \/ /\ Finished /\ loop = 0 /\ inflight = {}
           /\ (armed = None \/ nfired >= MaxFires)

Next ==
  /\ Len(hist) < MaxLen /\ ~Done
  /\ \/ \E s \in Senders : (\E it \in Items(s) : AlignCheck(s, it)) \/ Unpark(s) \/ Enqueue(s)
     \/ LoopEvent \/ LoopWatermark \/ LoopBarrier \/ CompleteCheckpoint
     \/ TimerFire \/ \E tok \in inflight : LoopBatchTimeout(tok)
     \/ \E s \in Senders : CancelCaller(s)
     \/ ArmHandlerFail

Spec == Init /\ [][Next]_vars

-----------------------------------------------------------------------------
\* C02, first half: every REPORTED checkpoint n contains exactly the effects of
\* the events every runner delivered before its barrier n.  (A runner stops at
\* the first call that returns an error, so every call in front of a delivered
\* barrier returned nil: "delivered" = the positions before the barrier.)
CutExact == \A n \in DOMAIN cut : cut[n].seen = CutDemand(n)

\* ... including their timers: every cut event has its timer either pending or
\* fired, nothing else, and a timer is only fired if the watermarks delivered
\* before the barriers reached it.
CutTimersOK == \A n \in DOMAIN cut :
   /\ {[sr |-> x.sr, idx |-> x.idx] : x \in cut[n].timers \cup cut[n].fired} = cut[n].seen
   /\ \A x \in cut[n].timers : \A y \in cut[n].fired : ~(x.sr = y.sr /\ x.idx = y.idx)
   /\ \A y \in cut[n].fired : y.T <= CutWm(n)

\* C02, second half, as an action property: whatever a step applies through
\* the handler (events, or timers fired by a watermark) does not stem from an
\* item its runner delivered after a barrier whose checkpoint is not yet
\* complete (acks = completed checkpoints in the state before the step).  Not
\* demanded of an operator instance that already handed out a failure (doomed):
\* it never reports a checkpoint again.
NoEarlyApply == [][doomed \/ ~EarlyIn(lastcalls')]_vars
NotEarly == ~early

\* design-level strengthening: no post-barrier item even reaches the loop
NoEarlyEnqueue == [][\A s \in Senders : (loop = 0 /\ loop' = s /\ ~doomed) => BarriersBefore(s, Len(sent[s])) \subseteq Rg(acks)]_vars

\* nothing post-barrier hides in the pending batch either
BatchOK == doomed \/ \A i \in 1..Len(batch) : UnitOK(batch[i], Rg(acks))

\* a checkpoint is only acknowledged when every runner delivered its barrier
AckedByAll == \A n \in DOMAIN cut : \A s \in Senders : BarrierPos(s, n) > 0
AcksInOrder == acks = [i \in 1..Len(acks) |-> i]
ParkedOK == \A s \in Senders : pc[s] = "parked" => waitfor[s] = Max0(BarriersBefore(s, Len(sent[s]))) /\ waitfor[s] >= 1
\* without skipped barriers and faults nothing gets stuck and nothing is lost
NoLossAtEnd == (Done /\ nskip = 0 /\ ncancel = 0 /\ nhfail = 0) =>
                       /\ \A s \in Senders : pc[s] = "idle"
                       /\ DOMAIN cut = 1..K
                       /\ UNION {{[sr |-> s, idx |-> i] : i \in {j \in 1..Len(sent[s]) : sent[s][j].k = "e"}} : s \in Senders}
                            \subseteq seen \cup {[sr |-> u.sr, idx |-> u.idx] : u \in {batch[i] : i \in 1..Len(batch)}}
\* design: an operator instance that handed out a failure never reports again
\* (ghost check of the argument in the header; not a verdict about the code)
NoReportAfterDoom == [][doomed => acks' = acks]_vars
\* fault-free runs are never doomed
DoomOnlyByFault == doomed => (ncancel > 0 \/ nhfail > 0)

TypeOK == /\ loop \in 0..NS /\ lph \in {"run", "ack"} /\ nclosed \in 0..K
          /\ ck.missing \subseteq Senders
          /\ \A s \in Senders : pc[s] \in {"idle", "parked", "pass", "loop", "dead"}
          /\ cx \in [Senders -> BOOLEAN] /\ failnext \in BOOLEAN /\ stopped \in BOOLEAN

-----------------------------------------------------------------------------
Dump == (Done \/ Len(hist) >= MaxLen) => PrintT(<<"BEHAVIOUR", ToJson(hist)>>)
\* regression witnesses (a Dev_* constant switched on): the history of every
\* state in which a reported checkpoint is not the demanded cut or a
\* post-barrier unit was applied early
CexDump == (~CutExact \/ early) => PrintT(<<"BEHAVIOUR", ToJson(hist)>>)
=============================================================================
