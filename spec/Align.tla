------------------------------ MODULE Align ------------------------------
(* Implementation-shaped model of checkpoint-barrier alignment in
   workers/operator (operator.go HandleEvent / processEvents /
   handleCheckpointBarrier, checkpoint.go alignSender / registerBarrier) and of
   the operator's EventBatcher (batching/batching.go) with its BatchTimedOut
   token.  Property C02.

   Goroutines and their critical sections (one action each):

     sender sr (one HandleEventBatch caller per source runner; items strictly
     in script order, the next call starts after the previous one returned)
        AlignCheck(sr,it) : o.mu.RLock; o.checkpoint.alignSender(sr); RUnlock.
                            The RLock is dropped before the sender blocks or
                            enqueues, so the decision is a separate action.
        (Park)            : decision "wait": blocks on the allBarriersReceived
                            channel of the checkpoint object it saw (pc =
                            "parked", waitfor = id).  A closed channel stays
                            closed, so there is no lost wake-up.
        Unpark(sr)        : the channel was closed (registerBarrier of the
                            last barrier - BEFORE the batch flush and the DKV
                            checkpoint); sender proceeds to the rendezvous.
        Enqueue(sr)       : o.events <- closure (unbuffered: succeeds only
                            while the loop sits in its select).
     event loop (processEvents; the only goroutine touching state)
        LoopEvent / LoopWatermark / LoopBarrier(sr) : run the closure.
        CompleteCheckpoint : db.Checkpoint + job.OperatorCheckpointComplete +
                            o.checkpoint = nil (still inside the barrier closure,
                            o.mu held).
        LoopBatchTimeout(tok) : receive from eventBatcher.BatchTimedOut.
     batch timer
        TimerFire         : the armed timer expires; its callback carries the
                            token of the batch it was armed for (may be stale
                            when received).

   While the loop runs a closure no other action that reads or writes shared
   state can interleave observably: handleCheckpointBarrier holds o.mu, and
   event/watermark closures do not touch o.checkpoint (AlignCheck commutes
   with them).  So AlignCheck/Enqueue/TimerFire are only scheduled while the
   loop is idle; Unpark (no shared state) is scheduled any time.

   Inputs.  Sender sr sends slen[sr] items, chosen on the fly, containing the
   barriers 1..K in increasing order (what the job makes every source runner
   do).  With MaxSkip > 0 a runner may skip a barrier id (the job abandoned
   that checkpoint for it): the operator must then refuse the barrier that
   does not match the open checkpoint ("checkpoint ID mismatch" is returned
   to the runner, which stops sending) instead of counting it.
   Item kinds: "e" keyed event (identity <<sr, idx>>), "w" watermark (the j-th
   watermark of a sender has value j), "b" barrier.

   Reference handler (harness/cmd/align): a keyed event writes the state
   entry seen(sr,idx) and registers a timer for its own key at W+1 where W is
   the watermark of the request; a TimerExpired writes fired(sr,idx).  So the
   ghost state {seen, fired, timers} is exactly what a DKV checkpoint holds. *)
EXTENDS Integers, Sequences, FiniteSets, TLC, Json

CONSTANTS NS,        \* number of senders
          K,         \* number of checkpoints (barriers per sender)
          MaxScript, \* maximal script length per sender
          MaxSize,   \* EventBatcher.maxSize of the operator
          UseTimer,  \* EventBatching.MaxDelay > 0
          MaxFires,  \* bound on batch-timer expiries
          MaxW,      \* bound on watermarks per sender
          MaxSkip,   \* how many barrier ids may be skipped (over all senders)
          MaxLen     \* behaviour length bound (generation only)

Senders == 1..NS
None == -1
Inf == 99

VARIABLES slen, sent, pc, waitfor, nskip,  \* senders
          ck, nclosed,                   \* o.checkpoint, closed allBarriersReceived channels
          loop, lph,                     \* event loop: 0 idle / sender whose closure runs; phase
          batch, token, armed, inflight, nfired,   \* EventBatcher + timer
          wm,                            \* TimerRegistry.upstreams
          seen, fired, timers,           \* DKV contents (through the reference handler)
          cut, acks,                     \* ghost: contents of checkpoint n; OperatorCheckpointComplete calls
          lastcalls,                     \* ghost: handler calls made by the last step
          hist

vars == <<slen, sent, pc, waitfor, nskip, ck, nclosed, loop, lph, batch, token, armed, inflight, nfired,
          wm, seen, fired, timers, cut, acks, lastcalls, hist>>
view == <<slen, sent, pc, waitfor, nskip, ck, nclosed, loop, lph, batch, token, armed, inflight, nfired,
          wm, seen, fired, timers, cut, acks>>

NoCk == [open |-> FALSE, id |-> 0, missing |-> {}]

Init ==
  /\ slen \in [Senders -> K..MaxScript]
  /\ sent = [s \in Senders |-> <<>>]
  /\ pc = [s \in Senders |-> "idle"] /\ waitfor = [s \in Senders |-> 0] /\ nskip = 0
  /\ ck = NoCk /\ nclosed = 0
  /\ loop = 0 /\ lph = "run"
  /\ batch = <<>> /\ token = 0 /\ armed = None /\ inflight = {} /\ nfired = 0
  /\ wm = [s \in Senders |-> 0]
  /\ seen = {} /\ fired = {} /\ timers = {}
  /\ cut = [n \in {} |-> 0] /\ acks = <<>>
  /\ lastcalls = <<>> /\ hist = <<>>

Log(r) == hist' = Append(hist, r)

Min(S) == CHOOSE x \in S : \A y \in S : x <= y
Max0(S) == IF S = {} THEN 0 ELSE CHOOSE x \in S : \A y \in S : x >= y
Rg(sq) == {sq[i] : i \in 1..Len(sq)}
Comp(w) == Min({w[s] : s \in Senders})            \* composite watermark

\* ---- script helpers ----------------------------------------------------
NKind(sq, k) == Cardinality({i \in 1..Len(sq) : sq[i].k = k})
Cur(s) == sent[s][Len(sent[s])]
\* ids of s's barriers before position idx of its script
BarriersBefore(s, idx) == {sent[s][i].v : i \in {j \in 1..Len(sent[s]) : j < idx /\ sent[s][j].k = "b"}}
\* id of the last barrier s sent (0 if none)
LastB(s) == Max0({sent[s][i].v : i \in {j \in 1..Len(sent[s]) : sent[s][j].k = "b"}})
\* position of barrier n in s's script (0 if not sent yet)
BarrierPos(s, n) == LET ps == {i \in 1..Len(sent[s]) : sent[s][i].k = "b" /\ sent[s][i].v = n}
                    IN IF ps = {} THEN 0 ELSE Min(ps)
PreBarrier(s, n) == {[sr |-> s, idx |-> i] : i \in {j \in 1..Len(sent[s]) : j < BarrierPos(s, n) /\ sent[s][j].k = "e"}}
PostBarrier(s, n) == {[sr |-> s, idx |-> i] : i \in {j \in 1..Len(sent[s]) : BarrierPos(s, n) > 0 /\ j > BarrierPos(s, n)}}
CutDemand(n) == UNION {PreBarrier(s, n) : s \in Senders}
\* watermark the operator may have reached when checkpoint n is cut
CutWm(n) == Min({Cardinality({j \in 1..Len(sent[s]) : j < BarrierPos(s, n) /\ sent[s][j].k = "w"}) : s \in Senders})

\* What the property allows to be applied right now (exported to the replayer):
\* items of s up to (excluding) its first barrier whose checkpoint is not complete.
AllowIdx(s) == LET ps == {i \in 1..Len(sent[s]) : sent[s][i].k = "b" /\ sent[s][i].v \notin Rg(acks)}
               IN IF ps = {} THEN Inf ELSE Min(ps) - 1
AllowWm == Min({Cardinality({j \in 1..Len(sent[s]) : j <= AllowIdx(s) /\ sent[s][j].k = "w"}) : s \in Senders})
Allow == [idx |-> [s \in Senders |-> AllowIdx(s)], wm |-> AllowWm]

\* ---- the loop's machine state as a record (so that closures can be written
\*      as functions) -----------------------------------------------------
M == [batch |-> batch, token |-> token, armed |-> armed, seen |-> seen, fired |-> fired,
      timers |-> timers, calls |-> <<>>]

EvUnit(s, i) == [t |-> "e", sr |-> s, idx |-> i, T |-> 0, csr |-> s, cidx |-> i]
TmUnit(tm, s, i) == [t |-> "t", sr |-> tm.sr, idx |-> tm.idx, T |-> tm.T, csr |-> s, cidx |-> i]

\* processEventBatch on a non-empty flushed batch: handler call, then timers
\* and mutations of the response are applied
Process(m, W) ==
  IF m.batch = <<>> THEN m ELSE
  LET us == {m.batch[i] : i \in 1..Len(m.batch)}
      evs == {u \in us : u.t = "e"}
      tms == {u \in us : u.t = "t"}
  IN [m EXCEPT !.batch = <<>>, !.token = @ + 1, !.armed = None,
               !.seen = @ \cup {[sr |-> u.sr, idx |-> u.idx] : u \in evs},
               !.timers = @ \cup {[sr |-> u.sr, idx |-> u.idx, T |-> W + 1] : u \in evs},
               !.fired = @ \cup {[sr |-> u.sr, idx |-> u.idx, T |-> u.T] : u \in tms},
               !.calls = Append(@, [items |-> m.batch, w |-> W])]

\* eventBatcher.Add; if IsFull then processEventBatch(CurrentBatch)
AddUnit(m, u, W) ==
  LET m1 == [m EXCEPT !.batch = Append(@, u),
                      !.armed = IF m.batch = <<>> /\ UseTimer THEN m.token ELSE @]
  IN IF Len(m1.batch) >= MaxSize THEN Process(m1, W) ELSE m1

TLess(a, b) == \/ a.T < b.T
               \/ a.T = b.T /\ (a.sr < b.sr \/ (a.sr = b.sr /\ a.idx < b.idx))
RECURSIVE SortTimers(_)
SortTimers(S) == IF S = {} THEN <<>>
                 ELSE LET x == CHOOSE x \in S : \A y \in S \ {x} : TLess(x, y)
                      IN <<x>> \o SortTimers(S \ {x})

\* handleWatermark: every due timer is deleted from the store and added to the batch
RECURSIVE FireAll(_, _, _, _, _)
FireAll(m, due, W, s, i) ==
  IF due = <<>> THEN m
  ELSE LET tm == Head(due)
       IN FireAll(AddUnit([m EXCEPT !.timers = @ \ {tm}], TmUnit(tm, s, i), W), Tail(due), W, s, i)

SetM(m) == /\ batch' = m.batch /\ token' = m.token /\ armed' = m.armed
           /\ seen' = m.seen /\ fired' = m.fired /\ timers' = m.timers
           /\ lastcalls' = m.calls

LoopFree == loop = 0

\* ---- sender actions ------------------------------------------------------
\* the items s may send next: an event, its next watermark, its next barrier
\* (or, skipping one id, the one after)
Items(s) == {[k |-> "e", v |-> 0], [k |-> "w", v |-> NKind(sent[s], "w") + 1],
             [k |-> "b", v |-> LastB(s) + 1], [k |-> "b", v |-> LastB(s) + 2]}
CanSend(s, it) ==
  LET rem == slen[s] - Len(sent[s])
  IN /\ rem > 0
     /\ it.k = "b" => it.v <= K /\ (it.v = LastB(s) + 2 => nskip < MaxSkip)
     /\ it.k # "b" => rem > K - LastB(s)       \* leave room for the remaining barriers
     /\ it.k = "w" => it.v <= MaxW

\* start of HandleEvent: read o.checkpoint under the read lock
AlignCheck(s, it) ==
  /\ LoopFree /\ pc[s] = "idle" /\ CanSend(s, it)
  /\ LET k == it.k
         park == ck.open /\ s \notin ck.missing
     IN /\ sent' = [sent EXCEPT ![s] = Append(@, it)]
        /\ nskip' = IF k = "b" /\ it.v = LastB(s) + 2 THEN nskip + 1 ELSE nskip
        /\ pc' = [pc EXCEPT ![s] = IF park THEN "parked" ELSE "pass"]
        /\ waitfor' = [waitfor EXCEPT ![s] = IF park THEN ck.id ELSE 0]
        /\ Log([a |-> "AlignCheck", sr |-> s, k |-> k, v |-> it.v, idx |-> Len(sent[s]) + 1,
                park |-> park, wf |-> IF park THEN ck.id ELSE 0])
  /\ lastcalls' = <<>>
  /\ UNCHANGED <<slen, ck, nclosed, loop, lph, batch, token, armed, inflight, nfired, wm, seen, fired, timers, cut, acks>>

Unpark(s) ==
  /\ pc[s] = "parked" /\ waitfor[s] <= nclosed
  /\ pc' = [pc EXCEPT ![s] = "pass"] /\ waitfor' = [waitfor EXCEPT ![s] = 0]
  /\ Log([a |-> "Unpark", sr |-> s])
  /\ lastcalls' = <<>>
  /\ UNCHANGED <<slen, sent, nskip, ck, nclosed, loop, lph, batch, token, armed, inflight, nfired, wm, seen, fired, timers, cut, acks>>

Enqueue(s) ==
  /\ LoopFree /\ pc[s] = "pass"
  /\ loop' = s /\ lph' = "run" /\ pc' = [pc EXCEPT ![s] = "loop"]
  /\ Log([a |-> "Enqueue", sr |-> s])
  /\ lastcalls' = <<>>
  /\ UNCHANGED <<slen, sent, waitfor, nskip, ck, nclosed, batch, token, armed, inflight, nfired, wm, seen, fired, timers, cut, acks>>

\* ---- loop actions --------------------------------------------------------
Return(s) == /\ loop' = 0 /\ lph' = "run" /\ pc' = [pc EXCEPT ![s] = "idle"]
\* HandleEvent returned an error: the runner stops sending
Fail(s) == /\ loop' = 0 /\ lph' = "run" /\ pc' = [pc EXCEPT ![s] = "dead"]

LoopEvent ==
  /\ loop # 0 /\ lph = "run" /\ Cur(loop).k = "e"
  /\ LET s == loop
         m == AddUnit(M, EvUnit(s, Len(sent[s])), Comp(wm))
     IN /\ SetM(m) /\ Return(s)
        /\ Log([a |-> "LoopEvent", sr |-> s, calls |-> m.calls, allow |-> Allow])
  /\ UNCHANGED <<slen, sent, waitfor, nskip, ck, nclosed, inflight, nfired, wm, cut, acks>>

LoopWatermark ==
  /\ loop # 0 /\ lph = "run" /\ Cur(loop).k = "w"
  /\ LET s == loop
         wm2 == [wm EXCEPT ![s] = Cur(s).v]
         W == Comp(wm2)
         due == SortTimers({tm \in timers : tm.T <= W})
         m == FireAll(M, due, W, s, Len(sent[s]))
     IN /\ wm' = wm2 /\ SetM(m) /\ Return(s)
        /\ Log([a |-> "LoopWatermark", sr |-> s, calls |-> m.calls, allow |-> Allow, w |-> W])
  /\ UNCHANGED <<slen, sent, waitfor, nskip, ck, nclosed, inflight, nfired, cut, acks>>

\* handleCheckpointBarrier up to (excluding) db.Checkpoint
LoopBarrier ==
  /\ loop # 0 /\ lph = "run" /\ Cur(loop).k = "b"
  /\ LET s == loop
         n == Cur(s).v
         c1 == IF ck.open THEN ck ELSE [open |-> TRUE, id |-> n, missing |-> Senders]
     IN IF c1.id # n
        THEN \* registerBarrier: "checkpoint ID mismatch" returned to the sender
             /\ ck' = c1 /\ Fail(s) /\ lastcalls' = <<>>
             /\ Log([a |-> "LoopBarrier", sr |-> s, n |-> n, last |-> FALSE, mismatch |-> TRUE, calls |-> <<>>, allow |-> Allow])
             /\ UNCHANGED <<nclosed, batch, token, armed, seen, fired, timers>>
        ELSE LET c2 == [c1 EXCEPT !.missing = @ \ {s}]
             IN IF c2.missing # {}
                THEN /\ ck' = c2 /\ Return(s) /\ lastcalls' = <<>>
                     /\ Log([a |-> "LoopBarrier", sr |-> s, n |-> n, last |-> FALSE, mismatch |-> FALSE, calls |-> <<>>, allow |-> Allow])
                     /\ UNCHANGED <<nclosed, batch, token, armed, seen, fired, timers>>
                ELSE \* last barrier: close the channel, flush the pending batch
                     LET m == Process(M, Comp(wm))
                     IN /\ ck' = c2 /\ nclosed' = n /\ SetM(m)
                        /\ lph' = "ack" /\ UNCHANGED <<loop, pc>>
                        /\ Log([a |-> "LoopBarrier", sr |-> s, n |-> n, last |-> TRUE, mismatch |-> FALSE, calls |-> m.calls, allow |-> Allow])
  /\ UNCHANGED <<slen, sent, waitfor, nskip, inflight, nfired, wm, cut, acks>>

\* db.Checkpoint(id); job.OperatorCheckpointComplete; o.checkpoint = nil
CompleteCheckpoint ==
  /\ loop # 0 /\ lph = "ack"
  /\ LET n == ck.id
         c == [seen |-> seen, fired |-> fired, timers |-> timers]
     IN /\ cut' = [x \in DOMAIN cut \cup {n} |-> IF x = n THEN c ELSE cut[x]]
        /\ acks' = Append(acks, n)
        /\ Log([a |-> "CompleteCheckpoint", sr |-> loop, n |-> n, cut |-> c, demand |-> CutDemand(n), cutwm |-> CutWm(n)])
  /\ ck' = NoCk /\ Return(loop) /\ lastcalls' = <<>>
  /\ UNCHANGED <<slen, sent, waitfor, nskip, nclosed, batch, token, armed, inflight, nfired, wm, seen, fired, timers>>

TimerFire ==
  /\ LoopFree /\ armed # None /\ nfired < MaxFires
  /\ inflight' = inflight \cup {armed} /\ armed' = None /\ nfired' = nfired + 1
  /\ Log([a |-> "TimerFire", tok |-> armed])
  /\ lastcalls' = <<>>
  /\ UNCHANGED <<slen, sent, pc, waitfor, nskip, ck, nclosed, loop, lph, batch, token, wm, seen, fired, timers, cut, acks>>

\* processEvents receives a token from BatchTimedOut: processEventBatch(token)
LoopBatchTimeout(tok) ==
  /\ LoopFree /\ tok \in inflight
  /\ inflight' = inflight \ {tok}
  /\ LET m == IF tok = token THEN Process(M, Comp(wm)) ELSE M
     IN /\ SetM(m)
        /\ Log([a |-> "LoopBatchTimeout", tok |-> tok, calls |-> m.calls, allow |-> Allow])
  /\ UNCHANGED <<slen, sent, pc, waitfor, nskip, ck, nclosed, loop, lph, nfired, wm, cut, acks>>

\* no sender can act any more: it sent everything, was refused, or waits for a
\* checkpoint that nobody left can complete
Finished == \A s \in Senders : \/ pc[s] = "idle" /\ Len(sent[s]) = slen[s]
                               \/ pc[s] = "dead"
                               \/ pc[s] = "parked" /\ waitfor[s] > nclosed
Done == /\ Finished /\ loop = 0 /\ inflight = {}
        /\ (armed = None \/ nfired >= MaxFires)

Next ==
  /\ Len(hist) < MaxLen /\ ~Done
  /\ \/ \E s \in Senders : (\E it \in Items(s) : AlignCheck(s, it)) \/ Unpark(s) \/ Enqueue(s)
     \/ LoopEvent \/ LoopWatermark \/ LoopBarrier \/ CompleteCheckpoint
     \/ TimerFire \/ \E tok \in inflight : LoopBatchTimeout(tok)

Spec == Init /\ [][Next]_vars

-----------------------------------------------------------------------------
\* C02, first half: checkpoint n contains exactly the effects of the events
\* every runner delivered before its barrier n.
CutExact == \A n \in DOMAIN cut : cut[n].seen = CutDemand(n)

\* ... including their timers: every cut event has its timer either pending or
\* fired, nothing else, and a timer is only fired if the watermarks delivered
\* before the barriers reached it.
CutTimersOK == \A n \in DOMAIN cut :
   /\ {[sr |-> x.sr, idx |-> x.idx] : x \in cut[n].timers \cup cut[n].fired} = cut[n].seen
   /\ \A x \in cut[n].timers : \A y \in cut[n].fired : ~(x.sr = y.sr /\ x.idx = y.idx)
   /\ \A y \in cut[n].fired : y.T <= CutWm(n)

\* C02, second half, as an action property: whatever a step hands to the
\* handler (events, or timers fired by a watermark) does not stem from an item
\* its runner delivered after a barrier whose checkpoint is not yet complete
\* (acks = completed checkpoints in the state before the step).
UnitOK(u, done) == BarriersBefore(u.csr, u.cidx) \subseteq done
NoEarlyApply == [][\A i \in 1..Len(lastcalls') : \A j \in 1..Len(lastcalls'[i].items) :
                      UnitOK(lastcalls'[i].items[j], Rg(acks))]_vars

\* design-level strengthening: no post-barrier item even reaches the loop
NoEarlyEnqueue == [][\A s \in Senders : (loop = 0 /\ loop' = s) => BarriersBefore(s, Len(sent[s])) \subseteq Rg(acks)]_vars

\* nothing post-barrier hides in the pending batch either
BatchOK == \A i \in 1..Len(batch) : UnitOK(batch[i], Rg(acks))

\* a checkpoint is only acknowledged when every runner delivered its barrier
AckedByAll == \A n \in DOMAIN cut : \A s \in Senders : BarrierPos(s, n) > 0
AcksInOrder == acks = [i \in 1..Len(acks) |-> i]
ParkedOK == \A s \in Senders : pc[s] = "parked" => waitfor[s] = Max0(BarriersBefore(s, Len(sent[s]))) /\ waitfor[s] >= 1
\* without skipped barriers nothing gets stuck and nothing is lost
NoLossAtEnd == (Done /\ nskip = 0) =>
                       /\ \A s \in Senders : pc[s] = "idle"
                       /\ DOMAIN cut = 1..K
                       /\ UNION {{[sr |-> s, idx |-> i] : i \in {j \in 1..Len(sent[s]) : sent[s][j].k = "e"}} : s \in Senders}
                            \subseteq seen \cup {[sr |-> u.sr, idx |-> u.idx] : u \in {batch[i] : i \in 1..Len(batch)}}

TypeOK == /\ loop \in 0..NS /\ lph \in {"run", "ack"} /\ nclosed \in 0..K
          /\ ck.missing \subseteq Senders
          /\ \A s \in Senders : pc[s] \in {"idle", "parked", "pass", "loop", "dead"}

-----------------------------------------------------------------------------
Dump == (Done \/ Len(hist) >= MaxLen) => PrintT(<<"BEHAVIOUR", ToJson(hist)>>)
=============================================================================
