---------------------------- MODULE Pipeline ----------------------------
(* Implementation-shaped model of one source runner
   (workers/sourcerunner/source_runner.go + operator_cluster.go, with
   batching.ReorderFetcher / ReorderBuffer / EventBatcher inlined at the
   granularity of Fetcher.tla, repaired variant: Flush+Reserve under flushMu).

   Goroutines of the real code and the actions that belong to them

     L  processEvents loop  : ReadSplit(sp, n) [ReadEvents returns n records;
                              per record: placeholder on outputStream +
                              keyEventChannel.Add, runs until the key-by batch
                              is full], KTake("c") / KReserve("c") [size flush
                              of the key-by batcher], Tick, BarrierCut
                              [cursor snapshot + ack to the job + barrier
                              placeholder: ONE loop iteration], SourceEnd
     KT key-by time-out     : KTimerFire -> KTake("t") -> KReserve("t")
     F(s) fetch goroutine   : FetchDone(s) [KeyEventBatch returned, buffer.Add]
                              -> Drain(s) [in sequence order into Output,
                              blocks while Output is full holding the buffer
                              mutex] -> DrainResume
     R  outputStream reader : RStep [sendOperatorEvent: pop a placeholder,
                              join a keyed placeholder with the next fetched
                              result, route by Owner(key) / broadcast; per
                              target operator: batcher.Add, IsFull => Flush
                              (CurrentBatch) and hand the batch to the sender
                              through the unbuffered `batches` channel]
     S(op) sender goroutine : SRecv(op) [batch from `batches`], STimeout(op)
                              [token from BatchTimedOut => Flush(token)],
                              both end in a HandleEventBatch call that the
                              operator may hold (back-pressure) until
                              Deliver(op)
     timers                 : KTimerFire, OTimerFire(op) at any state

   R, S and a blocked drainer have no gate in the real code: they run until
   they block. Their steps (RStep, SRecv, STimeout, DrainResume) are therefore
   URGENT: while one of them is enabled no other action is taken. All
   scheduling freedom is in the external actions (reads of any size from any
   split, fetch completions in any order, time-outs at any state, Deliver at
   any state, barrier / tick between any two reads).

   Ghost state (what C04 / C16-cut talk about): order (records in read
   order), cuts (per barrier: reported positions and number of records read),
   stream[op] (HandleEventBatch argument streams).                          *)
EXTENDS Integers, Sequences, FiniteSets, TLC, Json

CONSTANTS NSplits, NRec, NOps,
          MaxSize,      \* EventBatcherParams.MaxSize (also reorder buffer / Output capacity)
          UseTimer,     \* MaxDelay > 0
          MaxKFires,    \* bound on key-by batcher expiries
          MaxOFires,    \* bound on operator batcher expiries (total)
          MaxBarriers, MaxTicks,
          MaxRead,      \* largest batch the reader returns
          WithEOI,      \* the reader reports end of input after the last record
          NKeys,        \* keys 1..NKeys; key k is owned by operator ((k-1) % NOps) + 1
          KeyCode,      \* key of record (sp, idx) = digit ((sp-1)*NRec + idx-1) % KeyDigits of KeyCode in base NKeys, + 1
          KeyDigits,
          AtomicFlush,  \* TRUE = the code as it is (Flush + Reserve under flushMu); FALSE only to GENERATE the schedules
                        \* that a non-atomic flush would admit (the real code must serialise them)
          Dev_NoFlushAtEOI, \* TRUE = the code as it is: end of input only stops the reads (the loop's SourceComplete branch is
                        \* unreachable because ReadSourceChannel.C is never closed); FALSE = intended design: Flush, final
                        \* watermark, SourceComplete, operators.flush()
          Dev_SnapshotAfterNextRead, \* model self-test only: the split positions are taken one read after the barrier was queued
          MaxLen

VARIABLES cursor, order, cuts, stream, ok,                   \* ghost / observable (ok: the stream clauses held at every Deliver)
          lpend, ostr, eoi, lfin, nbar, nticks,              \* L (lfin: final watermark + SourceComplete still to be queued)
          kbatch, karmed, kfires, nkf, pc, ev, klock,        \* key-by batcher + flushers
          nextSeq, drained, reserved, fetch, items, kout, dblk, \* reorder buffer
          rtodo, rbusy, rwait, njoin, nsent,                 \* R
          obatch, oarmed, ofire, nof, ssend,                 \* per-operator batcher + sender
          hist

abs   == <<cursor, order, cuts, stream, ok>>
lvars == <<lpend, ostr, eoi, lfin, nbar, nticks>>
kvars == <<kbatch, karmed, kfires, nkf, pc, ev, klock>>
bvars == <<nextSeq, drained, reserved, fetch, items, kout, dblk>>
rvars == <<rtodo, rbusy, rwait, njoin, nsent>>
ovars == <<obatch, oarmed, ofire, nof, ssend>>
view  == <<abs, lvars, kvars, bvars, rvars, ovars>>
vars  == <<abs, lvars, kvars, bvars, rvars, ovars, hist>>

Splits == 1..NSplits
Ops    == 1..NOps
G      == {"c", "t"}
Cap    == MaxSize                 \* BufferSize = MaxSize: reorder buffer slots and Output capacity

Rec(sp, i)  == [t |-> "r", a |-> sp, b |-> i]
Bar(n)      == [t |-> "b", a |-> n, b |-> 0]
Wm(k)       == [t |-> "w", a |-> k, b |-> 0]
Cmp         == [t |-> "c", a |-> 0, b |-> 0]   \* SourceComplete
FlushCmd    == [t |-> "F", a |-> 0, b |-> 0]   \* operators.flush() for one operator (never enters a batch)
RECURSIVE Pow(_, _)
Pow(b, e)   == IF e = 0 THEN 1 ELSE b * Pow(b, e - 1)
KeyAt(sp, i) == ((KeyCode \div Pow(NKeys, ((sp - 1) * NRec + i - 1) % KeyDigits)) % NKeys) + 1
KeyTab      == [sp \in 1..NSplits |-> [i \in 1..NRec |-> KeyAt(sp, i)]]
Key(r)      == KeyTab[r.a][r.b]
Owner(r)    == ((Key(r) - 1) % NOps) + 1
NoBatch     == [on |-> FALSE, batch |-> <<>>]
NoWait      == [on |-> FALSE, op |-> 0, batch |-> <<>>]
NoBlk       == [on |-> FALSE, q |-> <<>>]

\* ---- properties (over the ghost state only; PipelineTrace reuses them) ----
IsRec(x) == x.t = "r"
RecsOf(s) == SelectSeq(s, IsRec)
Prefix(s, i) == SubSeq(s, 1, i)
SetOf(s) == {s[i] : i \in DOMAIN s}
ReadSet(k) == {order[i] : i \in 1..k}

\* C04: each record at most once, only at Owner(KG(key))
OnceAtOwner ==
  \A o \in Ops :
    /\ \A i \in DOMAIN stream[o] : IsRec(stream[o][i]) =>
          /\ Owner(stream[o][i]) = o
          /\ stream[o][i] \in SetOf(order)
    /\ \A i, j \in DOMAIN stream[o] : (i < j /\ IsRec(stream[o][i])) => stream[o][i] # stream[o][j]

\* C04: same split and same key => stream order = split order
SplitKeyOrder ==
  \A o \in Ops : \A i, j \in DOMAIN stream[o] :
    (i < j /\ IsRec(stream[o][i]) /\ IsRec(stream[o][j]) /\ stream[o][i].a = stream[o][j].a
       /\ Key(stream[o][i]) = Key(stream[o][j])) => stream[o][i].b < stream[o][j].b

CutOf(n) == CHOOSE c \in SetOf(cuts) : c.n = n
Below(c) == {r \in SetOf(order) : r.b <= c.pos[r.a]}

\* C04: a barrier / watermark never precedes a record read before it;
\* C16-cut: the records ahead of barrier n are EXACTLY those below the reported position
MarkerOK(o, i) ==
  LET m == stream[o][i]
      before == SetOf(RecsOf(Prefix(stream[o], i - 1)))
  IN CASE m.t = "b" -> /\ \E c \in SetOf(cuts) : c.n = m.a
                       /\ before = {r \in Below(CutOf(m.a)) : Owner(r) = o}
       [] m.t = "w" -> /\ m.a <= Len(order)
                       /\ {r \in ReadSet(m.a) : Owner(r) = o} \subseteq before
       [] m.t = "c" -> {r \in SetOf(order) : Owner(r) = o} \subseteq before
       [] OTHER -> TRUE

MarkersOK == \A o \in Ops : \A i \in DOMAIN stream[o] : MarkerOK(o, i)

\* each barrier at most once per stream, in id order; watermarks non-decreasing (C11, free)
MarkersOrdered ==
  \A o \in Ops : \A i, j \in DOMAIN stream[o] :
    (i < j /\ stream[o][i].t = stream[o][j].t /\ stream[o][i].t # "r") =>
        IF stream[o][i].t = "b" THEN stream[o][i].a < stream[o][j].a ELSE stream[o][i].a <= stream[o][j].a

StreamsOK == OnceAtOwner /\ SplitKeyOrder /\ MarkersOK /\ MarkersOrdered

-----------------------------------------------------------------------------
Init ==
  /\ cursor = [s \in Splits |-> 0] /\ order = <<>> /\ cuts = <<>>
  /\ stream = [o \in Ops |-> <<>>] /\ ok = TRUE
  /\ lpend = <<>> /\ ostr = <<>> /\ eoi = FALSE /\ lfin = FALSE /\ nbar = 0 /\ nticks = 0
  /\ kbatch = <<>> /\ karmed = FALSE /\ kfires = 0 /\ nkf = 0
  /\ pc = [g \in G |-> "idle"] /\ ev = [g \in G |-> <<>>] /\ klock = "free"
  /\ nextSeq = 0 /\ drained = 0 /\ reserved = 0
  /\ fetch = [s \in {} |-> [ev |-> <<>>, st |-> "fetching"]]
  /\ items = [s \in {} |-> <<>>] /\ kout = <<>> /\ dblk = NoBlk
  /\ rtodo = <<>> /\ rbusy = FALSE /\ rwait = NoWait /\ njoin = 0 /\ nsent = 0
  /\ obatch = [o \in Ops |-> <<>>] /\ oarmed = [o \in Ops |-> FALSE]
  /\ ofire = [o \in Ops |-> FALSE] /\ nof = 0 /\ ssend = [o \in Ops |-> NoBatch]
  /\ hist = <<>>

Log(r) == hist' = Append(hist, r)

-----------------------------------------------------------------------------
\* L adds the records of the current read one by one (placeholder + Add)
\* until the key-by batch is full; result: <<kbatch, karmed, ostr, rest, full>>
RECURSIVE LAdd(_, _, _, _)
LAdd(b, ar, o, recs) ==
  IF recs = <<>> THEN <<b, ar, o, <<>>, FALSE>>
  ELSE LET b2  == Append(b, Head(recs))
           ar2 == IF b = <<>> /\ UseTimer THEN TRUE ELSE ar
           o2  == Append(o, [t |-> "r", a |-> 0, b |-> 0])
       IN IF Len(b2) >= MaxSize THEN <<b2, ar2, o2, Tail(recs), TRUE>>
          ELSE LAdd(b2, ar2, o2, Tail(recs))

\* the time-out goroutine returns to its select: a pending expiry is received at once
TIdle(p, f) == IF f > 0 THEN <<[p EXCEPT !["t"] = "flush"], f - 1>> ELSE <<[p EXCEPT !["t"] = "idle"], f>>

LIdle == pc["c"] = "idle" /\ lpend = <<>> /\ ~lfin

\* L continues its read after a flush (or starts one): sets kbatch, karmed, ostr, lpend, pc["c"]
LRun(b, ar, recs, p) ==
  LET r == LAdd(b, ar, ostr, recs)
      fin == lfin /\ r[4] = <<>> /\ ~r[5]    \* keyEventChannel.Flush returned: final watermark + SourceComplete
  IN /\ kbatch' = r[1] /\ karmed' = r[2] /\ lpend' = r[4]
     /\ ostr' = IF fin THEN r[3] \o <<[t |-> "w", a |-> 0, b |-> 0], [t |-> "c", a |-> 0, b |-> 0]>> ELSE r[3]
     /\ lfin' = IF fin THEN FALSE ELSE lfin
     /\ pc' = [p EXCEPT !["c"] = IF r[5] THEN "flush" ELSE "idle"]

ReadSplit(sp, n) ==
  /\ LIdle /\ ~eoi /\ cursor[sp] + n <= NRec
  /\ LET recs == [i \in 1..n |-> Rec(sp, cursor[sp] + i)]
     IN /\ cursor' = [cursor EXCEPT ![sp] = @ + n]
        /\ cuts' = IF Dev_SnapshotAfterNextRead /\ cuts # <<>> /\ cuts[Len(cuts)].nread = Len(order)
                   THEN [cuts EXCEPT ![Len(cuts)].pos = cursor', ![Len(cuts)].nread = Len(order) + n] ELSE cuts
        /\ order' = order \o recs
        /\ LRun(kbatch, karmed, recs, pc)
        /\ Log([a |-> "ReadSplit", sp |-> sp, n |-> n, from |-> cursor[sp], full |-> pc'["c"] = "flush"])
  /\ UNCHANGED <<stream, ok, eoi, nbar, nticks, kfires, nkf, ev, klock, bvars, rvars, ovars>>

AllRead == \A s \in Splits : cursor[s] = NRec

SourceEnd ==
  /\ WithEOI /\ LIdle /\ ~eoi /\ AllRead
  /\ eoi' = TRUE
  /\ IF Dev_NoFlushAtEOI
     THEN UNCHANGED <<lfin, pc>>
     ELSE lfin' = TRUE /\ pc' = [pc EXCEPT !["c"] = "flush"]
  /\ Log([a |-> "SourceEnd"])
  /\ UNCHANGED <<abs, lpend, ostr, nbar, nticks, kbatch, karmed, kfires, nkf, ev, klock, bvars, rvars, ovars>>

Tick ==
  /\ LIdle /\ nticks < MaxTicks
  /\ nticks' = nticks + 1
  /\ ostr' = Append(ostr, [t |-> "w", a |-> 0, b |-> 0])
  /\ Log([a |-> "Tick"])
  /\ UNCHANGED <<abs, lpend, eoi, lfin, nbar, kvars, bvars, rvars, ovars>>

\* createCheckpoint (sourceReader.Checkpoint + OnSourceRunnerCheckpointComplete)
\* and the barrier placeholder: one iteration of the loop
BarrierCut ==
  /\ LIdle /\ nbar < MaxBarriers
  /\ nbar' = nbar + 1
  /\ cuts' = Append(cuts, [n |-> nbar + 1, pos |-> cursor, nread |-> Len(order)])
  /\ ostr' = Append(ostr, [t |-> "b", a |-> nbar + 1, b |-> 0])
  /\ Log([a |-> "BarrierCut", n |-> nbar + 1, pos |-> cursor])
  /\ UNCHANGED <<cursor, order, stream, ok, lpend, eoi, lfin, nticks, kvars, bvars, rvars, ovars>>

KTimerFire ==
  /\ karmed /\ nkf < MaxKFires
  /\ karmed' = FALSE /\ nkf' = nkf + 1
  /\ LET r == IF pc["t"] = "idle" THEN TIdle(pc, kfires + 1) ELSE <<pc, kfires + 1>>
     IN pc' = r[1] /\ kfires' = r[2]
  /\ Log([a |-> "KTimerFire", recv |-> pc["t"] = "idle"])
  /\ UNCHANGED <<abs, lvars, kbatch, ev, klock, bvars, rvars, ovars>>

\* flushMu.Lock + batcher.Flush(CurrentBatch)
KTake(g) ==
  /\ pc[g] = "flush" /\ (AtomicFlush => klock = "free")
  /\ IF kbatch = <<>>
     THEN /\ IF g = "t"
             THEN /\ LET r == TIdle(pc, kfires) IN pc' = r[1] /\ kfires' = r[2]
                  /\ UNCHANGED <<kbatch, karmed, ostr, lpend, lfin>>
             ELSE /\ LRun(kbatch, karmed, lpend, pc) /\ UNCHANGED kfires
          /\ UNCHANGED <<ev, klock>>
     ELSE /\ ev' = [ev EXCEPT ![g] = kbatch]
          /\ kbatch' = <<>> /\ karmed' = FALSE
          /\ pc' = [pc EXCEPT ![g] = "reserve"]
          /\ klock' = IF AtomicFlush THEN g ELSE klock
          /\ UNCHANGED <<kfires, ostr, lpend, lfin>>
  /\ Log([a |-> "KTake", g |-> g, took |-> kbatch, full |-> pc'["c"] = "flush"])
  /\ UNCHANGED <<abs, eoi, nbar, nticks, nkf, bvars, rvars, ovars>>

\* buffer.Reserve (blocks while the buffer is full) + flushMu.Unlock + go fetch
KReserve(g) ==
  /\ pc[g] = "reserve" /\ reserved < Cap
  /\ nextSeq' = nextSeq + 1 /\ reserved' = reserved + 1
  /\ fetch' = [s \in DOMAIN fetch \cup {nextSeq} |->
                 IF s = nextSeq THEN [ev |-> ev[g], st |-> "fetching"] ELSE fetch[s]]
  /\ ev' = [ev EXCEPT ![g] = <<>>]
  /\ klock' = IF AtomicFlush THEN "free" ELSE klock
  /\ IF g = "t"
     THEN /\ LET r == TIdle(pc, kfires) IN pc' = r[1] /\ kfires' = r[2]
          /\ UNCHANGED <<kbatch, karmed, ostr, lpend, lfin>>
     ELSE /\ LRun(kbatch, karmed, lpend, pc) /\ UNCHANGED kfires
  /\ Log([a |-> "KReserve", g |-> g, seq |-> nextSeq, events |-> ev[g], full |-> pc'["c"] = "flush"])
  /\ UNCHANGED <<abs, eoi, nbar, nticks, nkf, drained, items, kout, dblk, rvars, ovars>>

\* KeyEventBatch returns; buffer.Add(seq, result) needs the buffer mutex
FetchDone(s) ==
  /\ s \in DOMAIN fetch /\ fetch[s].st = "fetching" /\ ~dblk.on
  /\ fetch' = [fetch EXCEPT ![s].st = "done"]
  /\ items' = [x \in DOMAIN items \cup {s} |-> IF x = s THEN fetch[s].ev ELSE items[x]]
  /\ Log([a |-> "FetchDone", seq |-> s])
  /\ UNCHANGED <<abs, lvars, kvars, nextSeq, drained, reserved, kout, dblk, rvars, ovars>>

\* Drain(): under the buffer mutex, item by item: free the slot, then push
\* every result to Output (blocking when it is full).
\* state <<drained, reserved, items, kout, q>>; result adds the blocked flag
RECURSIVE DrainRun(_, _, _, _, _)
DrainRun(d, rs, its, ko, q) ==
  IF q # <<>>
  THEN IF Len(ko) < Cap THEN DrainRun(d, rs, its, Append(ko, Head(q)), Tail(q))
       ELSE <<d, rs, its, ko, [on |-> TRUE, q |-> q]>>
  ELSE IF d \in DOMAIN its
       THEN DrainRun(d + 1, rs - 1, [i \in DOMAIN its \ {d} |-> its[i]], ko, its[d])
       ELSE <<d, rs, its, ko, NoBlk>>

ApplyDrain(r) ==
  /\ drained' = r[1] /\ reserved' = r[2] /\ items' = r[3] /\ kout' = r[4] /\ dblk' = r[5]

Drain(s) ==
  /\ s \in DOMAIN fetch /\ fetch[s].st = "done" /\ ~dblk.on
  /\ fetch' = [x \in (DOMAIN fetch \ {s}) |-> fetch[x]]
  /\ ApplyDrain(DrainRun(drained, reserved, items, kout, <<>>))
  /\ Log([a |-> "Drain", seq |-> s, blocked |-> dblk'.on, drained |-> drained'])
  /\ UNCHANGED <<abs, lvars, kvars, nextSeq, rvars, ovars>>

DrainResumeEn == dblk.on /\ Len(kout) < Cap
DrainResume ==
  /\ DrainResumeEn
  /\ ApplyDrain(DrainRun(drained, reserved, items, kout, dblk.q))
  /\ Log([a |-> "DrainResume", blocked |-> dblk'.on, drained |-> drained'])
  /\ UNCHANGED <<abs, lvars, kvars, nextSeq, fetch, rvars, ovars>>

-----------------------------------------------------------------------------
\* R: one target operator of the current placeholder
RStepEn == /\ ~rwait.on
           /\ \/ rtodo # <<>>
              \/ /\ ostr # <<>>
                 /\ Head(ostr).t = "r" => kout # <<>>

RStep ==
  /\ RStepEn
  /\ LET fresh == rtodo = <<>>
         h     == Head(ostr)
         todo  == IF ~fresh THEN rtodo
                  ELSE IF h.t = "r" THEN << <<Owner(Head(kout)), Head(kout)>> >>
                  ELSE IF h.t = "w" THEN [o \in Ops |-> <<o, Wm(njoin)>>]
                  ELSE IF h.t = "c" THEN [o \in Ops |-> <<o, Cmp>>] \o [o \in Ops |-> <<o, FlushCmd>>]   \* broadcast, then operators.flush()
                  ELSE [o \in Ops |-> <<o, Bar(h.a)>>]
         op    == Head(todo)[1]
         it    == Head(todo)[2]
         b2    == IF it.t = "F" THEN obatch[op] ELSE Append(obatch[op], it)
         full  == IF it.t = "F" THEN obatch[op] # <<>> ELSE Len(b2) >= MaxSize
         rest  == Tail(todo)
     IN /\ ostr' = IF fresh THEN Tail(ostr) ELSE ostr
        /\ kout' = IF fresh /\ h.t = "r" THEN Tail(kout) ELSE kout
        /\ njoin' = IF fresh /\ h.t = "r" THEN njoin + 1 ELSE njoin
        /\ rtodo' = rest
        /\ IF full
           THEN /\ obatch' = [obatch EXCEPT ![op] = <<>>]
                /\ oarmed' = [oarmed EXCEPT ![op] = FALSE]
                /\ ofire'  = [ofire EXCEPT ![op] = FALSE]
                /\ rwait'  = [on |-> TRUE, op |-> op, batch |-> b2]
                /\ rbusy'  = TRUE
                /\ nsent'  = nsent
           ELSE /\ obatch' = [obatch EXCEPT ![op] = b2]
                /\ oarmed' = [oarmed EXCEPT ![op] = IF obatch[op] = <<>> /\ UseTimer /\ it.t # "F" THEN TRUE ELSE @]
                /\ UNCHANGED <<ofire, rwait>>
                /\ rbusy'  = (rest # <<>>)
                /\ nsent'  = IF rest = <<>> THEN nsent + 1 ELSE nsent
        /\ Log([a |-> "RStep", op |-> op, item |-> it, flush |-> full,
                arm |-> (~full /\ obatch[op] = <<>> /\ UseTimer /\ it.t # "F"), nsent |-> nsent'])
  /\ UNCHANGED <<abs, lpend, eoi, lfin, nbar, nticks, kvars, nextSeq, drained, reserved, fetch, items, dblk, nof, ssend>>

\* S(op) receives the size-flushed batch from `batches` and calls HandleEventBatch
SRecvEn(op) == ~ssend[op].on /\ rwait.on /\ rwait.op = op
SRecv(op) ==
  /\ SRecvEn(op)
  /\ ssend' = [ssend EXCEPT ![op] = [on |-> TRUE, batch |-> rwait.batch]]
  /\ rwait' = NoWait
  /\ rbusy' = (rtodo # <<>>)
  /\ nsent' = IF rtodo = <<>> THEN nsent + 1 ELSE nsent
  /\ Log([a |-> "SRecv", op |-> op, batch |-> rwait.batch, nsent |-> nsent'])
  /\ UNCHANGED <<abs, lvars, kvars, bvars, rtodo, njoin, obatch, oarmed, ofire, nof>>

\* S(op) receives the (still current) token and flushes the batch
STimeoutEn(op) == ~ssend[op].on /\ ofire[op]
STimeout(op) ==
  /\ STimeoutEn(op)
  /\ ssend' = [ssend EXCEPT ![op] = [on |-> TRUE, batch |-> obatch[op]]]
  /\ obatch' = [obatch EXCEPT ![op] = <<>>]
  /\ ofire' = [ofire EXCEPT ![op] = FALSE]
  /\ Log([a |-> "STimeout", op |-> op, batch |-> obatch[op]])
  /\ UNCHANGED <<abs, lvars, kvars, bvars, rvars, oarmed, nof>>

OTimerFire(op) ==
  /\ oarmed[op] /\ nof < MaxOFires
  /\ oarmed' = [oarmed EXCEPT ![op] = FALSE]
  /\ ofire' = [ofire EXCEPT ![op] = TRUE]
  /\ nof' = nof + 1
  /\ Log([a |-> "OTimerFire", op |-> op, idle |-> ~ssend[op].on])
  /\ UNCHANGED <<abs, lvars, kvars, bvars, rvars, obatch, ssend>>

\* the operator accepts the batch (HandleEventBatch returns)
Deliver(op) ==
  /\ ssend[op].on
  /\ stream' = [stream EXCEPT ![op] = @ \o ssend[op].batch]
  /\ ssend' = [ssend EXCEPT ![op] = NoBatch]
  /\ Log([a |-> "Deliver", op |-> op, batch |-> ssend[op].batch])
  /\ UNCHANGED <<cursor, order, cuts, lvars, kvars, bvars, rvars, obatch, oarmed, ofire, nof>>
  /\ ok' = (ok /\ StreamsOK')

-----------------------------------------------------------------------------
IntEnabled == (\E o \in Ops : SRecvEn(o) \/ STimeoutEn(o)) \/ DrainResumeEn \/ RStepEn

\* urgent steps in a fixed priority (they commute; one order is enough)
Internal ==
  IF \E o \in Ops : SRecvEn(o) THEN SRecv(CHOOSE o \in Ops : SRecvEn(o))
  ELSE IF \E o \in Ops : STimeoutEn(o) THEN STimeout(CHOOSE o \in Ops : STimeoutEn(o) /\ \A p \in Ops : STimeoutEn(p) => o <= p)
  ELSE IF DrainResumeEn THEN DrainResume
  ELSE RStep

External ==
  \/ \E sp \in Splits, n \in 1..MaxRead : ReadSplit(sp, n)
  \/ SourceEnd \/ Tick \/ BarrierCut \/ KTimerFire
  \/ \E g \in G : KTake(g) \/ KReserve(g)
  \/ \E s \in DOMAIN fetch : FetchDone(s) \/ Drain(s)
  \/ \E o \in Ops : OTimerFire(o) \/ Deliver(o)

Done == /\ AllRead /\ (WithEOI => eoi) /\ nbar = MaxBarriers /\ nticks = MaxTicks
        /\ ~IntEnabled /\ LIdle /\ pc["t"] = "idle" /\ DOMAIN fetch = {}
        /\ \A o \in Ops : ~ssend[o].on
        /\ karmed => nkf = MaxKFires
        /\ \A o \in Ops : oarmed[o] => nof = MaxOFires

Next == /\ Len(hist) < MaxLen /\ ~Done
        /\ IF IntEnabled THEN Internal ELSE External

Spec == Init /\ [][Next]_vars

-----------------------------------------------------------------------------
\* C04 / C16-cut clauses held after every Deliver (streams change nowhere else)
StreamsAlwaysOK == ok

\* the reported position is the read position (model sanity)
CutConsistent == \A c \in SetOf(cuts) : Below(c) = ReadSet(c.nread)

Flushed == kbatch = <<>> /\ ostr = <<>> /\ \A o \in Ops : obatch[o] = <<>>

\* C04 completeness: at quiescence every record / barrier has been delivered
Complete ==
  (Done /\ Flushed) =>
     /\ \A o \in Ops : SetOf(RecsOf(stream[o])) = {r \in SetOf(order) : Owner(r) = o}
     /\ \A o \in Ops : \A c \in SetOf(cuts) : Bar(c.n) \in SetOf(stream[o])

\* a source that reported end of input leaves nothing behind, time-outs or not
\* (checked in configurations without time-outs; FALSE for the code as it is: Dev_NoFlushAtEOI)
NoLossAtEOI == (Done /\ eoi) => \A o \in Ops : {r \in SetOf(order) : Owner(r) = o} \subseteq SetOf(stream[o])

\* with time-outs available nothing stays behind (no deadlock in the design)
NoStuck == (Done /\ UseTimer /\ nkf < MaxKFires /\ nof < MaxOFires) => Flushed

TypeOK == /\ reserved = nextSeq - drained /\ reserved \in 0..Cap /\ Len(kout) <= Cap
          /\ \A o \in Ops : Len(obatch[o]) < MaxSize /\ (ofire[o] => obatch[o] # <<>>)
          /\ Len(kbatch) <= MaxSize
          /\ rwait.on => rbusy

-----------------------------------------------------------------------------
Dump == (Done \/ Len(hist) >= MaxLen) => PrintT(<<"BEHAVIOUR", ToJson(hist)>>)
=============================================================================
