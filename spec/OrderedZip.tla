---------------------------- MODULE OrderedZip ----------------------------
(* dkv/ziptree.ZipTree: the memtable's ordered map (Put = insert or replace in
   place, Get, AscendPrefix).

   Abs: the function key -> value (val[i] # 0 iff key U[i] is held); Get finds
   exactly what was put last, AscendPrefix(p) yields exactly the held keys that
   start with p, ascending, no omissions, no duplicates.

   Impl: the tree itself - root/left/right/rank per node - with `insert`
   (search by rank, link, unzip), in-place replacement, Get and the explicit-
   stack AscendPrefix transcribed from ziptree.go.  Nodes are identified by
   the index of their key in the sorted universe U (0 = nil), so index order
   is bytes.Compare.  The rank of every inserted node is CHOSEN BY TLC from
   0..MaxRank - every rank order including ties, which rand.Uint32() would
   produce once in 2^32 - and handed to the real code through the hook
   `ziptree.rank` (verifhook.Tune).

   TLC checks Impl => Abs for every history: InOrderOK (in-order traversal =
   sorted reference, i.e. BST order and nothing lost in unzip), RankOK (zip-tree
   heap order incl. the tie rule), GetOK and AscendOK (the transcribed lookups
   agree with the reference for every key and every prefix of the universe). *)
EXTENDS OrderedRef, Json

CONSTANTS KeyIdx,    \* keys that may be put: U[i], i \in KeyIdx
          PrefIdx,   \* prefixes to scan: U[i], i \in PrefIdx (need not be keys)
          NV,        \* values 1..NV
          MaxRank,   \* ranks 0..MaxRank
          MaxLen

ASSUME UOrdered

VARIABLES root, lft, rgt, rk, val, hist
vars == <<root, lft, rgt, rk, val, hist>>
view == <<root, lft, rgt, rk, val>>

Tree == [root |-> root, l |-> lft, r |-> rgt, rk |-> rk]
In == {i \in KeyIdx : val[i] # 0}

-----------------------------------------------------------------------------
\* func (t *ZipTree) insert(node *Node): x = new node, rank = its rank
RECURSIVE Find(_, _, _, _, _)
Find(t, x, rank, cur, prev) ==
  IF cur # 0 /\ (rank < t.rk[cur] \/ (rank = t.rk[cur] /\ x > cur))
  THEN Find(t, x, rank, IF x < cur THEN t.l[cur] ELSE t.r[cur], cur)
  ELSE <<cur, prev>>

RECURSIVE WalkRight(_, _, _, _)
WalkRight(t, x, cur, prev) == IF cur # 0 /\ cur <= x THEN WalkRight(t, x, t.r[cur], cur) ELSE <<cur, prev>>
RECURSIVE WalkLeft(_, _, _, _)
WalkLeft(t, x, cur, prev) == IF cur # 0 /\ cur >= x THEN WalkLeft(t, x, t.l[cur], cur) ELSE <<cur, prev>>

\* "Follow the remaining search path for node, unzipping"
RECURSIVE Unzip(_, _, _, _)
Unzip(t, x, cur, prev) ==
  IF cur = 0 THEN t
  ELSE LET fix == prev
           w == IF cur < x THEN WalkRight(t, x, cur, prev) ELSE WalkLeft(t, x, cur, prev)
           t2 == IF fix > x \/ (fix = x /\ w[2] > x)
                 THEN [t EXCEPT !.l[fix] = w[1]]
                 ELSE [t EXCEPT !.r[fix] = w[1]]
       IN Unzip(t2, x, w[1], w[2])

Insert(t, x, rank) ==
  LET f == Find(t, x, rank, t.root, 0)
      cur == f[1]
      prev == f[2]
      t0 == [t EXCEPT !.rk[x] = rank, !.l[x] = 0, !.r[x] = 0]
      t1 == IF cur = t.root THEN [t0 EXCEPT !.root = x]
            ELSE IF x < prev THEN [t0 EXCEPT !.l[prev] = x]
            ELSE [t0 EXCEPT !.r[prev] = x]
  IN IF cur = 0 THEN t1
     ELSE Unzip(IF x < cur THEN [t1 EXCEPT !.r[x] = cur] ELSE [t1 EXCEPT !.l[x] = cur], x, cur, x)

\* func (t *ZipTree) Get(key []byte)
RECURSIVE GetImpl(_, _, _)
GetImpl(t, k, cur) == IF cur = 0 THEN 0
                      ELSE IF k > cur THEN GetImpl(t, k, t.r[cur])
                      ELSE IF k < cur THEN GetImpl(t, k, t.l[cur])
                      ELSE cur

\* func (t *ZipTree) AscendPrefix(prefix []byte)
RECURSIVE Descend(_, _, _, _)
Descend(t, p, cur, stack) ==
  IF cur = 0 THEN stack
  ELSE IF cur = p THEN Append(stack, cur)
  ELSE IF p < cur THEN Descend(t, p, t.l[cur], Append(stack, cur))
  ELSE Descend(t, p, t.r[cur], stack)
RECURSIVE LeftSpine(_, _, _)
LeftSpine(t, cur, stack) == IF cur = 0 THEN stack ELSE LeftSpine(t, t.l[cur], Append(stack, cur))
RECURSIVE Emit(_, _, _, _)
Emit(t, p, stack, out) ==
  IF stack = <<>> THEN out
  ELSE LET cur == Last(stack)
       IN IF ~IsPrefix(U[p], U[cur]) THEN out
          ELSE Emit(t, p, LeftSpine(t, t.r[cur], Front(stack)), Append(out, cur))
AscendImpl(t, p) == Emit(t, p, Descend(t, p, t.root, <<>>), <<>>)

-----------------------------------------------------------------------------
\* reference
AscendRef(S, p) == SortedInts({i \in S : IsPrefix(U[p], U[i])})
PosIn(s, x) == IF x = 0 THEN 0 ELSE CHOOSE i \in DOMAIN s : s[i] = x

After(t, v) ==
  LET S == {i \in KeyIdx : v[i] # 0}
      s == SortedInts(S)
  IN [content |-> [i \in DOMAIN s |-> [k |-> U[s[i]], v |-> v[s[i]]]],
      absent  |-> LET a == SortedInts(KeyIdx \ S) IN [i \in DOMAIN a |-> U[a[i]]],
      \* per prefix: the run content[from .. from+n-1]
      asc     |-> LET ps == SortedInts(PrefIdx)
                  IN [j \in DOMAIN ps |->
                        LET r == AscendRef(S, ps[j])
                        IN [p |-> U[ps[j]], from |-> IF r = <<>> THEN 0 ELSE PosIn(s, r[1]), n |-> Len(r)]],
      \* predicted shape, aligned with content (positions; 0 = nil)
      shape   |-> [i \in DOMAIN s |-> [rk |-> t.rk[s[i]], l |-> PosIn(s, t.l[s[i]]), r |-> PosIn(s, t.r[s[i]])]],
      rootpos |-> PosIn(s, t.root)]

Init == /\ root = 0 /\ lft = [i \in KeyIdx |-> 0] /\ rgt = [i \in KeyIdx |-> 0]
        /\ rk = [i \in KeyIdx |-> 0] /\ val = [i \in KeyIdx |-> 0] /\ hist = <<>>

Set(t) == root' = t.root /\ lft' = t.l /\ rgt' = t.r /\ rk' = t.rk

\* func (t *ZipTree) Put(node *Node) (replaced *Node)
PutNew(i, v, rank) ==
  /\ i \notin In
  /\ LET t == Insert(Tree, i, rank)
         v2 == [val EXCEPT ![i] = v]
     IN /\ Set(t) /\ val' = v2
        /\ hist' = Append(hist, [a |-> "Put", k |-> U[i], v |-> v, rank |-> rank, replaced |-> NoneI] @@ After(t, v2))

PutReplace(i, v) ==
  /\ i \in In
  /\ LET v2 == [val EXCEPT ![i] = v]
     IN /\ val' = v2 /\ UNCHANGED <<root, lft, rgt, rk>>
        /\ hist' = Append(hist, [a |-> "Put", k |-> U[i], v |-> v, rank |-> -1, replaced |-> SomeI(val[i])] @@ After(Tree, v2))

Next == /\ Len(hist) < MaxLen
        /\ \E i \in KeyIdx, v \in 1..NV : PutReplace(i, v) \/ \E rank \in 0..MaxRank : PutNew(i, v, rank)

Spec == Init /\ [][Next]_vars

-----------------------------------------------------------------------------
\* Impl => Abs
RECURSIVE InOrder(_, _)
InOrder(t, n) == IF n = 0 THEN <<>> ELSE InOrder(t, t.l[n]) \o <<n>> \o InOrder(t, t.r[n])
InOrderOK == InOrder(Tree, root) = SortedInts(In)
RankOK == \A n \in In : /\ lft[n] # 0 => rk[lft[n]] < rk[n]
                        /\ rgt[n] # 0 => rk[rgt[n]] <= rk[n]
GetOK == \A k \in KeyIdx : GetImpl(Tree, k, root) = (IF k \in In THEN k ELSE 0)
AscendOK == \A p \in PrefIdx : AscendImpl(Tree, p) = AscendRef(In, p)

Dump == Len(hist) >= MaxLen => PrintT(<<"BEHAVIOUR", ToJson(hist)>>)
=============================================================================
