\* exhaustive safety run (quick tier shape): tlc -config Membership_small.cfg Membership.tla
SPECIFICATION Spec
CONSTANTS
  W = 1
  N = 2
  MaxEv = 6
  MaxFlaky = 1
  Boot = 0
  MaxLen = 1000
  Focus = FALSE
  Faults = {"Kill", "Deregister"}
  Live = FALSE
  Dev_PendingNotCleared = FALSE
  Dev_OpKeepsCheckpoint = FALSE
  Dev_SplitterAppended = FALSE
INVARIANTS Safety
VIEW view
CHECK_DEADLOCK FALSE
