---------------------------- MODULE OrderedSet ----------------------------
(* util/ds.Set: a set that iterates in insertion order.  Add mutates; Added,
   Without and Diff return new sets and must leave their receiver untouched.

   Reference: a duplicate-free sequence (insertion order).  Two registers
   A (1) and B (2) hold sets; every operation names its source and
   destination register so aliasing between a set and the copy derived from
   it is exercised.  After every step the full contents of both registers are
   logged; the replayer compares All(), Slice(), Size() and Has(v) for every
   value of the universe on both.                                          *)
EXTENDS OrderedRef, Json

CONSTANTS KeyIdx,   \* value universe: U[i], i \in KeyIdx  (strings after concretisation)
          MaxArgs,  \* variadic argument lists of length 1..MaxArgs (with repetitions)
          MaxLen

VARIABLES reg, hist
vars == <<reg, hist>>
view == reg

Vals == {U[i] : i \in KeyIdx}
R == {1, 2}

RECURSIVE ArgLists(_)
ArgLists(n) == IF n = 0 THEN {<<>>}
               ELSE LET Q == ArgLists(n - 1)
                    IN Q \cup {Append(s, v) : s \in {q \in Q : Len(q) = n - 1}, v \in Vals}
Args == ArgLists(MaxArgs)

\* ---- reference
RECURSIVE AddAll(_, _)
AddAll(s, vs) == IF vs = <<>> THEN s
                 ELSE AddAll(IF vs[1] \in Range(s) THEN s ELSE Append(s, vs[1]), Tail(vs))
WithoutRef(s, vs) == SelectSeq(s, LAMBDA v : v \notin Range(vs))
DiffRef(s, t) == SelectSeq(s, LAMBDA v : v \notin Range(t))

Universe == SortedKeys(Vals)
Log(r, rg) == hist' = Append(hist, r @@ [A |-> rg[1], B |-> rg[2], universe |-> Universe])

Init == reg = [r \in R |-> <<>>] /\ hist = <<>>

\* s.Add(vs...)
Add(r, vs) == LET rg == [reg EXCEPT ![r] = AddAll(@, vs)]
              IN reg' = rg /\ Log([a |-> "Add", r |-> r, vs |-> vs], rg)
\* reg[dst] = SetOf(vs...)
New(dst, vs) == LET rg == [reg EXCEPT ![dst] = AddAll(<<>>, vs)]
                IN reg' = rg /\ Log([a |-> "SetOf", dst |-> dst, vs |-> vs], rg)
\* reg[dst] = reg[src].Added(vs...)
Added(src, dst, vs) == LET rg == [reg EXCEPT ![dst] = AddAll(reg[src], vs)]
                       IN reg' = rg /\ Log([a |-> "Added", src |-> src, dst |-> dst, vs |-> vs], rg)
\* reg[dst] = reg[src].Without(vs...)
Without(src, dst, vs) == LET rg == [reg EXCEPT ![dst] = WithoutRef(reg[src], vs)]
                         IN reg' = rg /\ Log([a |-> "Without", src |-> src, dst |-> dst, vs |-> vs], rg)
\* reg[dst] = reg[x].Diff(reg[y])
Diff(x, y, dst) == LET rg == [reg EXCEPT ![dst] = DiffRef(reg[x], reg[y])]
                   IN reg' = rg /\ Log([a |-> "Diff", x |-> x, y |-> y, dst |-> dst], rg)

Next == /\ Len(hist) < MaxLen
        /\ \/ \E r \in R, vs \in Args \ {<<>>} : Add(r, vs)
           \/ \E d \in R, vs \in Args : New(d, vs)
           \/ \E s \in R, d \in R, vs \in Args : Added(s, d, vs) \/ Without(s, d, vs)
           \/ \E x \in R, y \in R, d \in R : Diff(x, y, d)

Spec == Init /\ [][Next]_vars

-----------------------------------------------------------------------------
NoDup(s) == Cardinality(Range(s)) = Len(s)
RegsOK == \A r \in R : NoDup(reg[r]) /\ Range(reg[r]) \subseteq Vals
\* the three derived operations agree with their set-theoretic meaning and keep insertion order
PosLess(t, a, b) == (CHOOSE i \in DOMAIN t : t[i] = a) < (CHOOSE i \in DOMAIN t : t[i] = b)
IsSubSeq(s, t) == \A i, j \in DOMAIN s : i < j => PosLess(t, s[i], s[j])
DerivedOK == \A x \in R, y \in R :
               /\ Range(DiffRef(reg[x], reg[y])) = Range(reg[x]) \ Range(reg[y])
               /\ IsSubSeq(DiffRef(reg[x], reg[y]), reg[x])
               /\ \A vs \in Args : /\ Range(WithoutRef(reg[x], vs)) = Range(reg[x]) \ Range(vs)
                                   /\ Range(AddAll(reg[x], vs)) = Range(reg[x]) \cup Range(vs)
                                   /\ NoDup(AddAll(reg[x], vs))
                                   /\ SubSeq(AddAll(reg[x], vs), 1, Len(reg[x])) = reg[x]

Dump == Len(hist) >= MaxLen => PrintT(<<"BEHAVIOUR", ToJson(hist)>>)
=============================================================================
