---------------------------- MODULE OrderedHeapOps ----------------------------
(* Transcription of util/ds/heap.go (binary min-heap in an array) as pure
   operators, shared by OrderedHeap (elements with externally changed
   priorities) and OrderedPPQ (heap of partitions ordered by their heads).

   d  : the array h.data as a sequence of element ids (position 1 = index 0)
   pr : id -> integer priority; h.compare(a, b) = pr[a] - pr[b]

   Go index i  <->  position i + 1;  parent (i-1)/2  <->  p \div 2;
   children 2i+1, 2i+2  <->  2p, 2p + 1.                                     *)
EXTENDS Integers, Sequences

Swap(d, i, j) == [d EXCEPT ![i] = d[j], ![j] = d[i]]

\* func (h *Heap[T]) up(i int)
RECURSIVE HeapUp(_, _, _)
HeapUp(d, pr, i) ==
  IF i = 1 THEN d
  ELSE LET p == i \div 2
       IN IF pr[d[i]] >= pr[d[p]] THEN d ELSE HeapUp(Swap(d, i, p), pr, p)

\* func (h *Heap[T]) down(i int) bool   -- returns <<array, final position>>
RECURSIVE HeapDown(_, _, _)
HeapDown(d, pr, i) ==
  LET l == 2 * i
      r == 2 * i + 1
  IN IF l > Len(d) THEN <<d, i>>
     ELSE LET j == IF r <= Len(d) /\ pr[d[r]] < pr[d[l]] THEN r ELSE l
          IN IF pr[d[j]] >= pr[d[i]] THEN <<d, i>> ELSE HeapDown(Swap(d, i, j), pr, j)

\* func (h *Heap[T]) Fix(i int): if !h.down(i) { h.up(i) }
HeapFix(d, pr, i) == LET r == HeapDown(d, pr, i) IN IF r[2] > i THEN r[1] ELSE HeapUp(d, pr, i)

\* func (h *Heap[T]) Push(x T)
HeapPush(d, pr, x) == HeapUp(Append(d, x), pr, Len(d) + 1)

\* func (h *Heap[T]) Pop(): the array after removing the root (d non-empty)
HeapPop(d, pr) ==
  LET n == Len(d)
      d1 == SubSeq([d EXCEPT ![1] = d[n]], 1, n - 1)
  IN IF n - 1 > 0 THEN HeapDown(d1, pr, 1)[1] ELSE d1

\* the heap condition
HeapOrdered(d, pr) == \A i \in 2..Len(d) : pr[d[i \div 2]] <= pr[d[i]]

PosOf(d, x) == CHOOSE i \in DOMAIN d : d[i] = x
=============================================================================
