---------------------------- MODULE OrderedHeap ----------------------------
(* util/ds.Heap used as a priority queue of handles whose priority is changed
   from outside and repaired with Fix(handle.index) (SetIndexAssigner), the
   way PartitionedPriorityQueue uses it.

   Abstract state (Abs): the bag of priorities held = SortInts(prios) - the
   sorted-slice reference.  C19 demands: Pop/Peek return an element of minimum
   priority (any of them when priorities are equal), in priority order until
   empty; Size matches; a priority changed from outside followed by Fix is
   honoured.

   Impl: the array h.data with up/down/Fix transcribed (OrderedHeapOps).  TLC
   checks Impl => Abs (HeapOK, RootIsMin, DrainSorted) for every history and
   the Impl additionally *predicts* which of several equal-priority elements
   the code returns and where every element sits (`layout`), so that ties do
   not desynchronise the replay.                                           *)
EXTENDS OrderedRef, OrderedHeapOps, Json

CONSTANTS NE,          \* handles 1..NE
          NP,          \* priorities 1..NP
          PopEvery,    \* generation bias: if > 0, every PopEvery-th operation is a Pop
          AllowChange, \* external priority change + Fix
          MaxLen

VARIABLES data, pr, hist
vars == <<data, pr, hist>>
view == <<data, pr>>

Ids == 1..NE
Held == Range(data)
Prios == [i \in DOMAIN data |-> pr[data[i]]]
MinPrio == LET S == {pr[x] : x \in Held} IN CHOOSE m \in S : \A y \in S : m <= y
MinIds == {x \in Held : pr[x] = MinPrio}

Top == IF data = <<>> THEN [ok |-> FALSE, id |-> 0, prio |-> 0, ids |-> <<>>]
       ELSE [ok |-> TRUE, id |-> data[1], prio |-> MinPrio, ids |-> SortedInts(MinIds)]

\* observation after a step (primed state passed explicitly)
After(d, p) == LET H == Range(d)
                   S == {p[x] : x \in H}
                   m == CHOOSE m \in S : \A y \in S : m <= y
               IN [size |-> Len(d), layout |-> d,
                   sorted |-> SortInts([i \in DOMAIN d |-> p[d[i]]]),
                   peek |-> IF d = <<>> THEN [ok |-> FALSE, id |-> 0, prio |-> 0, ids |-> <<>>]
                            ELSE [ok |-> TRUE, id |-> d[1], prio |-> m, ids |-> SortedInts({x \in H : p[x] = m})]]

Log(r, d, p) == hist' = Append(hist, r @@ After(d, p))

Init == data = <<>> /\ pr = [i \in Ids |-> 0] /\ hist = <<>>

Push(p) ==
  /\ Len(data) < NE
  /\ LET id == CHOOSE i \in Ids \ Held : \A j \in Ids \ Held : i <= j
         pr2 == [pr EXCEPT ![id] = p]
     IN /\ pr' = pr2
        /\ data' = HeapPush(data, pr2, id)
        /\ Log([a |-> "Push", id |-> id, prio |-> p], data', pr2)

Pop ==
  /\ data' = IF data = <<>> THEN data ELSE HeapPop(data, pr)
  /\ pr' = pr
  /\ Log([a |-> "Pop", res |-> Top], data', pr)

\* the owner changes the priority of a held handle, then calls Fix(handle.index)
Change(id, p) ==
  /\ AllowChange /\ id \in Held
  /\ LET pr2 == [pr EXCEPT ![id] = p]
     IN /\ pr' = pr2
        /\ data' = HeapFix(data, pr2, PosOf(data, id))
        /\ Log([a |-> "Change", id |-> id, prio |-> p, from |-> pr[id]], data', pr2)

\* Fix(-1) is a no-op (index of an element that is not held)
FixNone == AllowChange /\ UNCHANGED <<data, pr>> /\ Log([a |-> "FixNone"], data, pr)

Next == /\ Len(hist) < MaxLen
        /\ IF PopEvery > 0 /\ (Len(hist) + 1) % PopEvery = 0 THEN Pop
           ELSE \/ \E p \in 1..NP : Push(p)
                \/ Pop
                \/ \E id \in Ids, p \in 1..NP : Change(id, p)
                \/ FixNone

Spec == Init /\ [][Next]_vars

-----------------------------------------------------------------------------
\* Impl => Abs
HeapOK == HeapOrdered(data, pr)
NoDup == Cardinality(Held) = Len(data)
RootIsMin == data # <<>> => pr[data[1]] = MinPrio

\* draining the Impl yields the sorted-slice reference
RECURSIVE Drain(_)
Drain(d) == IF d = <<>> THEN <<>> ELSE <<pr[d[1]]>> \o Drain(HeapPop(d, pr))
DrainSorted == Drain(data) = SortInts(Prios)

Dump == Len(hist) >= MaxLen => PrintT(<<"BEHAVIOUR", ToJson(hist)>>)
=============================================================================
