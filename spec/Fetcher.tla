---------------------------- MODULE Fetcher ----------------------------
(* Implementation-shaped model of batching.ReorderFetcher + ReorderBuffer +
   EventBatcher (reduction/batching).  One action per critical section:

     caller goroutine   : CallerAdd / CallerFlush -> FlushTake("c") -> Reserve("c")
     time-out goroutine : TimerFire (-> urgent receive) -> FlushTake("t") -> Reserve("t")
     fetch goroutine s  : FetchDone(s) [buffer.Add] -> Drain(s)

   Atomic = TRUE models ReorderFetcher.flush holding a mutex across
   batcher.Flush + buffer.Reserve (the repaired code); Atomic = FALSE is the
   deviation Dev_FlushNotAtomic (DESIGN 7 #15): TLC then finds the schedule in
   which the size flusher overtakes the time-out flusher.

   Items are the integers 1..NItems added in that order and fetch is the
   identity, so property C20 (fetcher half) is: `out` is always a prefix of
   <<1, 2, ...>> and at quiescence equals everything added and flushed.      *)
EXTENDS Integers, Sequences, FiniteSets, TLC, Json

CONSTANTS NItems,      \* items the caller may add
          MaxSize,     \* EventBatcher.maxSize
          BufSize,     \* ReorderBuffer capacity
          UseTimer,    \* maxDelay > 0
          MaxFires,    \* bound on timer expiries
          MaxExplicit, \* bound on explicit Flush() calls
          Atomic,      \* TRUE = repaired code; FALSE = Dev_FlushNotAtomic
          MaxLen       \* behaviour length bound (generation only; large for exhaustive)

VARIABLES nadd, batch, token, armed, fires, nfired, nexpl,
          pc, ev, lock, nextSeq, drained, reserved, fetch, items, out, hist

vars  == <<nadd, batch, token, armed, fires, nfired, nexpl, pc, ev, lock,
           nextSeq, drained, reserved, fetch, items, out, hist>>
view  == <<nadd, batch, token, armed, fires, nfired, nexpl, pc, ev, lock,
           nextSeq, drained, reserved, fetch, items, out>>

G == {"c", "t"}
None == -1

Init ==
  /\ nadd = 0 /\ batch = <<>> /\ token = 0 /\ armed = None /\ fires = 0
  /\ nfired = 0 /\ nexpl = 0
  /\ pc = [g \in G |-> "idle"] /\ ev = [g \in G |-> <<>>] /\ lock = "free"
  /\ nextSeq = 0 /\ drained = 0 /\ reserved = 0
  /\ fetch = [s \in {} |-> [ev |-> <<>>, st |-> "fetching"]]
  /\ items = [s \in {} |-> <<>>] /\ out = <<>> /\ hist = <<>>

Log(r) == hist' = Append(hist, r)

\* The time-out goroutine sits in `select`; a pending expiry is received as
\* soon as it is idle (nothing else it could do) => modelled as urgent.
TIdle(p, f) == IF f > 0 THEN <<[p EXCEPT !["t"] = "flush"], f - 1>> ELSE <<[p EXCEPT !["t"] = "idle"], f>>

CallerAdd ==
  /\ pc["c"] = "idle" /\ nadd < NItems
  /\ nadd' = nadd + 1
  /\ batch' = Append(batch, nadd + 1)
  /\ armed' = IF batch = <<>> /\ UseTimer THEN token ELSE armed
  /\ pc' = [pc EXCEPT !["c"] = IF Len(batch') >= MaxSize THEN "flush" ELSE "idle"]
  /\ Log([a |-> "CallerAdd", item |-> nadd + 1, full |-> Len(batch') >= MaxSize, out |-> out])
  /\ UNCHANGED <<token, fires, nfired, nexpl, ev, lock, nextSeq, drained, reserved, fetch, items, out>>

CallerFlush ==
  /\ pc["c"] = "idle" /\ nexpl < MaxExplicit
  /\ nexpl' = nexpl + 1
  /\ pc' = [pc EXCEPT !["c"] = "flush"]
  /\ Log([a |-> "CallerFlush", out |-> out])
  /\ UNCHANGED <<nadd, batch, token, armed, fires, nfired, ev, lock, nextSeq, drained, reserved, fetch, items, out>>

TimerFire ==
  /\ armed # None /\ nfired < MaxFires
  /\ armed' = None /\ nfired' = nfired + 1
  /\ LET r == IF pc["t"] = "idle" THEN TIdle(pc, fires + 1) ELSE <<pc, fires + 1>>
     IN pc' = r[1] /\ fires' = r[2]
  /\ Log([a |-> "TimerFire", tok |-> armed, recv |-> pc["t"] = "idle", out |-> out])
  /\ UNCHANGED <<nadd, batch, token, nexpl, ev, lock, nextSeq, drained, reserved, fetch, items, out>>

\* batcher.Flush(CurrentBatch) under the batcher mutex
FlushTake(g) ==
  /\ pc[g] = "flush"
  /\ Atomic => lock = "free"
  /\ IF batch = <<>>
     THEN /\ LET r == IF g = "t" THEN TIdle(pc, fires) ELSE <<[pc EXCEPT ![g] = "idle"], fires>>
             IN pc' = r[1] /\ fires' = r[2]
          /\ UNCHANGED <<batch, token, armed, ev, lock>>
     ELSE /\ ev' = [ev EXCEPT ![g] = batch]
          /\ batch' = <<>> /\ token' = token + 1 /\ armed' = None
          /\ pc' = [pc EXCEPT ![g] = "reserve"]
          /\ lock' = IF Atomic THEN g ELSE lock
          /\ UNCHANGED fires
  /\ Log([a |-> "FlushTake", g |-> g, took |-> batch, out |-> out])
  /\ UNCHANGED <<nadd, nfired, nexpl, nextSeq, drained, reserved, fetch, items, out>>

\* buffer.Reserve (blocks while the buffer is full) + spawn the fetch goroutine
Reserve(g) ==
  /\ pc[g] = "reserve" /\ reserved < BufSize
  /\ nextSeq' = nextSeq + 1 /\ reserved' = reserved + 1
  /\ fetch' = [s \in DOMAIN fetch \cup {nextSeq} |->
                 IF s = nextSeq THEN [ev |-> ev[g], st |-> "fetching"] ELSE fetch[s]]
  /\ ev' = [ev EXCEPT ![g] = <<>>]
  /\ lock' = IF Atomic THEN "free" ELSE lock
  /\ LET r == IF g = "t" THEN TIdle(pc, fires) ELSE <<[pc EXCEPT ![g] = "idle"], fires>>
     IN pc' = r[1] /\ fires' = r[2]
  /\ Log([a |-> "Reserve", g |-> g, seq |-> nextSeq, events |-> ev[g], out |-> out])
  /\ UNCHANGED <<nadd, batch, token, armed, nfired, nexpl, drained, items, out>>

\* fetchBatch returns; buffer.Add(seq, result)
FetchDone(s) ==
  /\ s \in DOMAIN fetch /\ fetch[s].st = "fetching"
  /\ fetch' = [fetch EXCEPT ![s].st = "done"]
  /\ items' = [x \in DOMAIN items \cup {s} |-> IF x = s THEN fetch[s].ev ELSE items[x]]
  /\ Log([a |-> "FetchDone", seq |-> s, out |-> out])
  /\ UNCHANGED <<nadd, batch, token, armed, fires, nfired, nexpl, pc, ev, lock, nextSeq, drained, reserved, out>>

RECURSIVE DrainTo(_, _)
DrainTo(d, its) == IF d \in DOMAIN its THEN DrainTo(d + 1, its) ELSE d
RECURSIVE Flat(_, _, _)
Flat(f, from, to) == IF from >= to THEN <<>> ELSE f[from] \o Flat(f, from + 1, to)

\* the fetch goroutine's Drain(): atomic under the buffer mutex
Drain(s) ==
  /\ s \in DOMAIN fetch /\ fetch[s].st = "done"
  /\ LET d2 == DrainTo(drained, items)
     IN /\ drained' = d2
        /\ out' = out \o Flat(items, drained, d2)
        /\ reserved' = reserved - (d2 - drained)
        /\ items' = [i \in {j \in DOMAIN items : j >= d2} |-> items[i]]
        /\ fetch' = [x \in (DOMAIN fetch \ {s}) |-> fetch[x]]
        \* race: while this goroutine is at the end of its drain (buffer still held), the replayer lets the fetch of
        \* sequence number `race` return. buffer.Add and Drain exclude each other (one mutex), so that result can only be
        \* added - and drained by its own goroutine - afterwards: a scheduling hint in the history, not state.
        /\ \E race \in {None} \cup {t \in DOMAIN fetch : t # s /\ fetch[t].st = "fetching"} :
              Log([a |-> "Drain", seq |-> s, out |-> out', race |-> race])
  /\ UNCHANGED <<nadd, batch, token, armed, fires, nfired, nexpl, pc, ev, lock, nextSeq>>

Done == nadd = NItems /\ (\A g \in G : pc[g] = "idle") /\ DOMAIN fetch = {}
        /\ (batch = <<>> \/ ((armed = None \/ nfired = MaxFires) /\ nexpl = MaxExplicit))

Next ==
  /\ Len(hist) < MaxLen /\ ~Done
  /\ \/ CallerAdd \/ CallerFlush \/ TimerFire
     \/ \E g \in G : FlushTake(g) \/ Reserve(g)
     \/ \E s \in DOMAIN fetch : FetchDone(s) \/ Drain(s)

Spec == Init /\ [][Next]_vars

-----------------------------------------------------------------------------
Ident(n) == [i \in 1..n |-> i]

\* C20 (fetcher): one result per input, in input order
InOrder == out = Ident(Len(out))

Quiescent == /\ \A g \in G : pc[g] = "idle"
             /\ DOMAIN fetch = {} /\ batch = <<>>
NoLoss == Quiescent => out = Ident(nadd)

\* nothing handed to a fetch twice / buffer accounting
ReservedOK == reserved = nextSeq - drained /\ reserved <= BufSize

TypeOK == /\ nadd \in 0..NItems /\ token \in Nat /\ reserved \in 0..BufSize
          /\ lock \in {"free", "c", "t"}

-----------------------------------------------------------------------------
\* Behaviour export: in -simulate mode with -deadlock, a behaviour ends when
\* Done holds; the history is printed as one JSON line.
Dump == (Done \/ Len(hist) >= MaxLen) => PrintT(<<"BEHAVIOUR", ToJson(hist)>>)
=============================================================================
