------------------------- MODULE WatermarkTrace -------------------------
(* Trace validation for the runner half of C11: the stream a real SourceRunner
   sent to its operator (one ndjson line per keyed event {"op":"ev","ts":n} or
   watermark {"op":"wm","v":n}, in the order sent; time unit 1ns; a watermark
   stamped before any event is logged as Stamp(ZeroT)) is replayed into
   Watermark's `out`; the stream is accepted iff Monotone, Below and Close hold
   in every state reached (they are checked as invariants of this spec).
   Runs are separated by {"op":"Reset"}.                                     *)
EXTENDS Watermark, TLCExt

TraceLog == ndJsonDeserialize("trace.ndjson")

VARIABLE l
tvars == <<vars, l>>

TraceInit == Init /\ l = 1

Ev == TraceLog[l]
IsEvent(e) == l <= Len(TraceLog) /\ Ev.op = e /\ l' = l + 1

TEv == /\ IsEvent("ev")
       /\ maxTs' = Max2(maxTs, Ev.ts)
       /\ out' = Append(out, [ty |-> "ev", v |-> Ev.ts])
       /\ UNCHANGED <<q, infl, nev, ntick, hist>>
\* Abs accepts any value here; the invariants judge it
TWm == /\ IsEvent("wm")
       /\ out' = Append(out, [ty |-> "wm", v |-> Ev.v])
       /\ UNCHANGED <<q, maxTs, infl, nev, ntick, hist>>
TReset == /\ IsEvent("Reset")
          /\ maxTs' = ZeroT /\ out' = <<>>
          /\ UNCHANGED <<q, infl, nev, ntick, hist>>

TraceNext == TEv \/ TWm \/ TReset
TraceSpec == TraceInit /\ [][TraceNext]_tvars

\* what Impl would stamp (diagnostic only)
StampedAsImpl == \A i \in WmIdx : out[i].v = Stamp(FMax(out, i - 1))

TraceAccepted ==
  LET d == TLCGet("stats").diameter IN
  IF d - 1 = Len(TraceLog) THEN TRUE
  ELSE Print(<<"TRACE-REJECTED-AT", d, IF d <= Len(TraceLog) THEN ToJson(TraceLog[d]) ELSE "end">>, FALSE)
=============================================================================
