---------------------------- MODULE OrderedPPQ ----------------------------
(* util/ds.PartitionedPriorityQueue: a heap of partitions ordered by the
   smallest element of each (empty partitions last); Push / Pop / Delete go to
   one partition and then Fix(partition.Index()) repairs the heap.

   Items are [p, t, g]: partition p, priority t (the comparator looks at t only,
   as TimerStore compares only the timestamp bytes) and a tag g ordering items
   of equal priority inside their partition.  A partition is an ordered set.

   Abs: the union of all partitions.  C19: Peek/Pop return an item of minimum
   priority over the whole union (any such partition head when priorities are
   equal), IsEmpty <=> union empty, Pop until empty yields every item exactly
   once in priority order.

   Impl: the heap array of partitions with Fix transcribed (OrderedHeapOps;
   priority of a partition = t of its head, Inf when empty).  TLC checks
   Impl => Abs (HeapOK, RootIsMin) for every history and the Impl predicts
   which partition wins a tie.                                             *)
EXTENDS OrderedRef, OrderedHeapOps, Json

CONSTANTS NPart,     \* partitions 1..NPart  (0 allowed: a queue without partitions)
          NT,        \* priorities 1..NT
          NG,        \* tags 1..NG
          PopEvery,  \* generation bias: if > 0, every PopEvery-th operation is a Pop
          InitMax,   \* partitions may already hold a subset of {<<t, 1>> : t <= InitMax} at construction
          MaxLen

VARIABLES parts, data, hist
vars == <<parts, data, hist>>
view == <<parts, data>>

P == 1..NPart
Inf == 1000
ItemLess(a, b) == a[1] < b[1] \/ (a[1] = b[1] /\ a[2] < b[2])
HeadOf(S) == CHOOSE x \in S : \A y \in S : x = y \/ ItemLess(x, y)
PrOf(ps) == [p \in P |-> IF ps[p] = {} THEN Inf ELSE HeadOf(ps[p])[1]]
Item(p, x) == [p |-> p, t |-> x[1], g |-> x[2]]
NoItem == [ok |-> FALSE, item |-> [p |-> 0, t |-> 0, g |-> 0], cands |-> <<>>]

RECURSIVE SortedItems(_)
SortedItems(S) == IF S = {} THEN <<>> ELSE LET m == HeadOf(S) IN <<[t |-> m[1], g |-> m[2]]>> \o SortedItems(S \ {m})

\* what Peek must return in state (ps, d)
TopOf(ps, d) ==
  LET pr == PrOf(ps)
      NonEmpty == {p \in P : ps[p] # {}}
  IN IF NonEmpty = {} THEN NoItem
     ELSE LET m == CHOOSE m \in {pr[p] : p \in NonEmpty} : \A q \in NonEmpty : m <= pr[q]
              C == {p \in NonEmpty : pr[p] = m}
          IN [ok |-> TRUE,
              item |-> IF ps[d[1]] = {} THEN NoItem.item ELSE Item(d[1], HeadOf(ps[d[1]])),   \* predicted (Impl)
              cands |-> [i \in 1..Cardinality(C) |-> LET p == SortedInts(C)[i] IN Item(p, HeadOf(ps[p]))]]  \* demanded (Abs)

\* priorities of every item held, ascending (what draining the queue must yield)
AllSorted(ps) == SortInts(LET RECURSIVE Flat(_)
                              Flat(i) == IF i > NPart THEN <<>>
                                         ELSE LET si == SortedItems(ps[i]) IN [j \in DOMAIN si |-> si[j].t] \o Flat(i + 1)
                          IN Flat(1))

After(ps, d) == [peek |-> TopOf(ps, d), empty |-> \A p \in P : ps[p] = {}, layout |-> d, sorted |-> AllSorted(ps)]
Log(r, ps, d) == hist' = Append(hist, r @@ After(ps, d))

RECURSIVE Build(_, _, _)
Build(d, pr, i) == IF i > NPart THEN d ELSE Build(HeapPush(d, pr, i), pr, i + 1)

InitItems == {<<t, 1>> : t \in 1..InitMax}

\* NewPartitionedPriorityQueue(partitions, ...): pushes every partition onto the heap
Init == \E ps \in [P -> SUBSET InitItems] :
          /\ parts = ps
          /\ data = Build(<<>>, PrOf(ps), 1)
          /\ hist = <<[a |-> "New", n |-> NPart, parts |-> [p \in P |-> SortedItems(ps[p])]] @@ After(ps, data)>>

Push(p, t, g) ==
  LET ps == [parts EXCEPT ![p] = @ \cup {<<t, g>>}]
  IN /\ parts' = ps
     /\ data' = HeapFix(data, PrOf(ps), PosOf(data, p))
     /\ Log([a |-> "Push", item |-> Item(p, <<t, g>>), had |-> <<t, g>> \in parts[p]], ps, data')

Delete(p, t, g) ==
  LET ps == [parts EXCEPT ![p] = @ \ {<<t, g>>}]
  IN /\ parts' = ps
     /\ data' = HeapFix(data, PrOf(ps), PosOf(data, p))
     /\ Log([a |-> "Delete", item |-> Item(p, <<t, g>>), had |-> <<t, g>> \in parts[p]], ps, data')

Pop ==
  IF NPart = 0 \/ parts[data[1]] = {}
  THEN UNCHANGED <<parts, data>> /\ Log([a |-> "Pop", res |-> NoItem], parts, data)
  ELSE LET root == data[1]
           ps == [parts EXCEPT ![root] = @ \ {HeadOf(@)}]
       IN /\ parts' = ps
          /\ data' = HeapFix(data, PrOf(ps), 1)
          /\ Log([a |-> "Pop", res |-> TopOf(parts, data)], ps, data')

Next == /\ Len(hist) < MaxLen
        /\ IF PopEvery > 0 /\ Len(hist) % PopEvery = 0 THEN Pop
           ELSE \/ \E p \in P, t \in 1..NT, g \in 1..NG : Push(p, t, g) \/ Delete(p, t, g)
                \/ Pop

Spec == Init /\ [][Next]_vars

-----------------------------------------------------------------------------
\* Impl => Abs
HeapOK == HeapOrdered(data, PrOf(parts))
AllThere == Range(data) = P /\ Len(data) = NPart
\* the root partition holds a minimum of the union (so Peek/Pop are right)
RootIsMin == NPart > 0 => \A p \in P : PrOf(parts)[data[1]] <= PrOf(parts)[p]
\* the predicted result is always one of the demanded ones
PredictedDemanded == LET t == TopOf(parts, data) IN t.ok => \E i \in DOMAIN t.cands : t.cands[i] = t.item

Dump == Len(hist) >= MaxLen => PrintT(<<"BEHAVIOUR", ToJson(hist)>>)
=============================================================================
