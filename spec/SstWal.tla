------------------------------ MODULE SstWal ------------------------------
(* C17, table half: dkv/sst TableWriter.Write / WriteRun, Table.Get /
   ScanPrefix / Document + NewTableFromDocument, SearchIndex, bloom filter,
   bounded cursor -- transcribed at *entry* granularity.

   Keys.  The key universe is every sequence over Syms = 0..A-1 of length
   <= L, ordered lexicographically (a proper prefix sorts first).  A key is
   referred to by its rank 1..U in that order, so "<" on ranks is
   bytes.Compare on the concretised keys and Pre[p] (ranks having K[p] as a
   prefix) is bytes.HasPrefix.  The replayer maps every symbol to a block of
   BlockLen bytes (order preserving, adversarial: 0x00.., 0xff..), so the empty
   key, binary keys and keys that are prefixes of one another all occur.  Keys
   of maximal length L carry a free tail of TailLen bytes (it cannot change
   order or prefix relations); the replayer chooses tails so that the absent
   key `fp` becomes a *false positive* of the real bloom filter -- that is
   the only way the branches behind the filter (key before first sample, scan
   a block without finding, scan to EOF) are ever driven with an absent key.

   Sizes are real bytes: FlushSize(e) = 17 + |key| + |value| is what
   TableWriter.WriteRun accumulates against `target` and floor(1.5*target).

   The expected results logged for the replayer come from the ABSTRACT meaning
   only (AbsGet, AbsScan: the run itself); the transcription (Chunk, Search,
   GetT, ScanT) is checked against it by TLC (invariants below) and its
   predicted chunking is logged as *internal* detail (mismatch = drift).      *)
EXTENDS Integers, Sequences, FiniteSets, TLC, Json, SequencesExt

CONSTANTS A,         \* alphabet size
          L,         \* maximal key length (symbols)
          BlockLen,  \* bytes per symbol
          TailLen,   \* free bytes appended to keys of length L
          VLens,     \* value lengths (bytes) the walk family chooses from
          Targets,   \* target table sizes for WriteRun (> 0)
          DerivedJs, \* further targets are derived from the size of the first j entries, j in DerivedJs:
                     \* exactly that size and +-1 (cut exactly at / just before / just after an entry) and the
                     \* targets whose 1.5x look-ahead limit is that size or just above it
          Spacing,   \* searchIndexSpacing (16 in the code)
          MaxN,      \* longest run (walk / design)
          Family,    \* "pattern": structured runs, exhaustive | "walk": random walks for -simulate |
                     \* "design": every run over the universe, no probes (TLC checks the transcription)
          Tombs,     \* walk / design: tombstone flags an entry may carry (subset of BOOLEAN)
          Ns, KPs, TPs, VPs,  \* pattern: run lengths, key / tombstone / value-size patterns
          Skip,      \* walk: next key is at most Skip ranks after the previous one
          MaxLen     \* behaviour length bound

VARIABLES phase,   \* "build" | "ready" | "fp" | "written" | "probed" | "reopened" | "done"
          goal,    \* walk: intended run length
          run,     \* the key-ordered run: sequence of [k: rank, t: tombstone?, vl: value length]
          tables,  \* sequence of [lo, hi]: table i holds run[lo..hi]
          fp,      \* absent rank the bloom filter must not deny (0 = none)
          hist
vars == <<phase, goal, run, tables, fp, hist>>

-----------------------------------------------------------------------------
\* key universe
Syms == 0..(A - 1)
AllKeys == UNION {[1..l -> Syms] : l \in 0..L}
MinOf(S) == CHOOSE x \in S : \A y \in S : x <= y
MaxOf(S) == CHOOSE x \in S : \A y \in S : y <= x
LexLess(a, b) ==
  LET m == IF Len(a) < Len(b) THEN Len(a) ELSE Len(b)
      d == {i \in 1..m : a[i] # b[i]}
  IN IF d = {} THEN Len(a) < Len(b) ELSE a[MinOf(d)] < b[MinOf(d)]
K == SetToSortSeq(AllKeys, LexLess)          \* rank -> key
U == Len(K)
IsPrefixT(p, k) == Len(p) <= Len(k) /\ \A i \in 1..Len(p) : p[i] = k[i]
Pre == [p \in 1..U |-> {k \in 1..U : IsPrefixT(K[p], K[k])}]
KeyBytes(r) == Len(K[r]) * BlockLen + (IF Len(K[r]) = L THEN TailLen ELSE 0)

FlushSize(e) == 17 + KeyBytes(e.k) + (IF e.t THEN 0 ELSE e.vl)
N == Len(run)
LastKey == IF run = <<>> THEN 0 ELSE run[N].k
Present == {run[i].k : i \in 1..N}
Absent == (1..U) \ Present

-----------------------------------------------------------------------------
\* TableWriter.WriteRun(entries, target): the buffer is always run[lo..hi]
RECURSIVE Phase1(_, _, _, _, _), Phase2(_, _, _, _, _, _, _)
Phase1(target, lo, hi, size, out) ==
  IF size < target
  THEN IF hi = N                                    \* next() reports the end of the run
       THEN (IF hi < lo THEN out ELSE Append(out, [lo |-> lo, hi |-> hi]))   \* nothing buffered => no table
       ELSE Phase1(target, lo, hi + 1, size + FlushSize(run[hi + 1]), out)
  ELSE Phase2(target, lo, hi, size, hi, size, out)  \* buffer.cut()
Phase2(target, lo, hi, size, cut, csize, out) ==
  IF size < (target * 3) \div 2                     \* int(floor(target * 1.5))
  THEN IF hi = N
       THEN Append(out, [lo |-> lo, hi |-> hi])     \* look-ahead reached the end: one table with everything
       ELSE Phase2(target, lo, hi + 1, size + FlushSize(run[hi + 1]), cut, csize, out)
  ELSE Phase1(target, cut + 1, hi, size - csize, Append(out, [lo |-> lo, hi |-> cut]))   \* flushChunk
Chunk(target) == Phase1(target, 1, 0, 0, <<>>)

RECURSIVE PrefixSize(_)
PrefixSize(j) == IF j = 0 THEN 0 ELSE PrefixSize(j - 1) + FlushSize(run[j])
DerivedTargets ==
  {t \in UNION {LET sz == PrefixSize(j) IN {sz - 1, sz, sz + 1, (2 * sz) \div 3, (2 * sz) \div 3 + 1} : j \in {x \in DerivedJs : x <= N}} : t > 0}

\* TableWriter.Write(entries): one table, whatever the run (also the empty one)
Whole == <<[lo |-> 1, hi |-> N]>>

-----------------------------------------------------------------------------
\* one table
Cnt(t) == t.hi - t.lo + 1
NS(t) == (Cnt(t) + Spacing - 1) \div Spacing           \* number of index samples
SampleKey(t, s) == run[t.lo + s * Spacing].k           \* key read at offsets[s]
TKeys(t) == {run[i].k : i \in t.lo..t.hi}
MightHave(t, key) == key \in TKeys(t) \/ (key = fp /\ fp # 0)   \* bloom: a set, plus the forced false positive

\* slices.BinarySearchFunc(offsets, key, cmp)
RECURSIVE BS(_, _, _, _)
BS(t, key, i, j) ==
  IF i < j
  THEN LET h == (i + j) \div 2
       IN IF SampleKey(t, h) < key THEN BS(t, key, h + 1, j) ELSE BS(t, key, i, h)
  ELSE i

\* SearchIndex.Search: the entries [from..to] to scan
Search(t, key) ==
  IF NS(t) = 0 THEN [from |-> t.lo, to |-> t.hi]
  ELSE LET i == BS(t, key, 0, NS(t))
           exact == i < NS(t) /\ SampleKey(t, i) = key
           fi == IF exact THEN i ELSE i - 1
       IN IF fi < 0 THEN [from |-> t.lo, to |-> t.lo - 1]      \* key sorts before the first entry
          ELSE [from |-> t.lo + fi * Spacing,
                to   |-> IF fi = NS(t) - 1 THEN t.hi ELSE t.lo + (fi + 1) * Spacing - 1]

\* Table.Get: index of the entry returned, 0 = kv.ErrNotFound
GetT(t, key) ==
  IF ~MightHave(t, key) THEN 0
  ELSE LET r == Search(t, key)
           hits == {i \in r.from..r.to : run[i].k = key}
       IN IF hits = {} THEN 0 ELSE MinOf(hits)

\* Table.ScanPrefix: indices yielded, in file order
RECURSIVE ScanFrom(_, _, _)
ScanFrom(t, p, i) ==
  IF i > t.hi THEN <<>>
  ELSE IF run[i].k \in Pre[p] THEN <<i>> \o ScanFrom(t, p, i + 1) ELSE ScanFrom(t, p, i + 1)
ScanT(t, p) == ScanFrom(t, p, t.lo)

\* ---- the abstract meaning: the run itself
AbsGet(key) == IF key \in Present THEN CHOOSE i \in 1..N : run[i].k = key ELSE 0
AbsScan(p) == SelectSeq([i \in 1..N |-> i], LAMBDA i : run[i].k \in Pre[p])
RECURSIVE Flat(_, _, _)
Flat(f, i, n) == IF i > n THEN <<>> ELSE f[i] \o Flat(f, i + 1, n)

-----------------------------------------------------------------------------
\* structured run family (exhaustive): n entries, key / tombstone / value-size pattern
VSmall == MinOf(VLens)
VBig == MaxOf(VLens)
PatKey(kp, i) == CASE kp = 0 -> i           \* dense from the first key of the universe (the empty key)
                   [] kp = 1 -> 2 * i        \* every other key: an absent key in every gap and before the first
                   [] kp = 2 -> i + 2        \* dense, two absent keys before the first
PatTomb(tp, i) == CASE tp = 0 -> FALSE
                    [] tp = 1 -> TRUE
                    [] tp = 2 -> i % 2 = 0
                    [] tp = 3 -> i % 3 = 1
PatVL(vp, i, n) == CASE vp = 0 -> VSmall
                     [] vp = 1 -> IF i % 2 = 0 THEN VBig ELSE VSmall
                     [] vp = 2 -> IF i = n THEN 4 * VBig ELSE VSmall     \* single oversized entry at the end
                     [] vp = 3 -> IF i % 5 = 1 THEN 4 * VBig ELSE VSmall \* oversized entries inside the run
PatRun(n, kp, tp, vp) == [i \in 1..n |-> [k |-> PatKey(kp, i), t |-> PatTomb(tp, i), vl |-> PatVL(vp, i, n)]]
PatOK(n, kp) == n = 0 \/ PatKey(kp, n) <= U

\* the false-positive candidates of the structured family: the smallest absent key (before the first entry when
\* there is one), the first absent key above the middle of the run, the largest absent key (after the last)
FpCands == IF Family = "walk" THEN Absent \cup {0}
           ELSE {0} \cup (IF Absent = {} THEN {}
                          ELSE LET mid == {a \in Absent : N > 1 /\ a > run[(N + 1) \div 2].k /\ a < run[N].k}
                               IN {MinOf(Absent), MaxOf(Absent)} \cup (IF mid = {} THEN {} ELSE {MinOf(mid)}))

Init ==
  /\ phase = "build" /\ tables = <<>> /\ fp = 0 /\ hist = <<>>
  /\ IF Family = "pattern"
     THEN /\ goal = 0
          /\ \E n \in Ns, kp \in KPs, tp \in TPs, vp \in VPs :
               /\ PatOK(n, kp) /\ run = PatRun(n, kp, tp, vp)
     ELSE goal \in (IF Family = "design" THEN {MaxN} ELSE 0..MaxN) /\ run = <<>>

Log(r) == hist' = Append(hist, r)

\* walk family: append the next entry of the run
Add(k, t, vl) ==
  /\ phase = "build" /\ Family # "pattern" /\ N < goal
  /\ k > LastKey /\ k <= LastKey + Skip /\ k <= U
  /\ run' = Append(run, [k |-> k, t |-> t, vl |-> IF t THEN 0 ELSE vl])
  /\ hist' = hist
  /\ UNCHANGED <<phase, goal, tables, fp>>

BuildDone == Family \in {"pattern", "design"} \/ N = goal \/ LastKey = U

RunJson == [i \in 1..N |-> [k |-> K[run[i].k], r |-> run[i].k, t |-> run[i].t, vl |-> IF run[i].t THEN 0 ELSE run[i].vl]]

\* The run is complete.  What every later probe must observe is fixed here, from the abstract meaning alone:
\* every key of the universe is looked up (gets[r] = index of the entry in the run, 0 = absent) and every key
\* of the universe is used as a scan prefix (scans[p] = indices of the entries having it as a prefix, in order).
Expect ==
  /\ phase = "build" /\ BuildDone
  /\ phase' = "ready"
  /\ IF Family = "design" THEN hist' = hist
     ELSE Log([a |-> "Expect", keys |-> K, run |-> RunJson,
               gets  |-> [r \in 1..U |-> AbsGet(r)],
               scans |-> [p \in 1..U |-> AbsScan(p)]])
  /\ UNCHANGED <<goal, run, tables, fp>>

\* the absent key the replayer turns into a bloom false positive
Fp(f) ==
  /\ phase = "ready" /\ f \in FpCands
  /\ fp' = f /\ phase' = "fp"
  /\ Log([a |-> "Fp", fp |-> f])
  /\ UNCHANGED <<goal, run, tables>>

Write(mode, target) ==
  /\ phase = "fp"
  /\ tables' = IF mode = "one" THEN Whole ELSE Chunk(target)
  /\ phase' = "written"
  /\ Log([a |-> "Write", mode |-> mode, target |-> target,
          chunks |-> [i \in 1..Len(tables') |-> <<tables'[i].lo, tables'[i].hi>>]])
  /\ UNCHANGED <<goal, run, fp>>

\* Get of every universe key on every table + ScanPrefix of every universe key on every table (see Expect)
Probe ==
  /\ phase \in {"written", "reopened"} /\ Family # "design"
  /\ phase' = IF phase = "written" THEN "probed" ELSE "done"
  /\ Log([a |-> "Probe", reopened |-> phase = "reopened"])
  /\ UNCHANGED <<goal, run, tables, fp>>

\* Document() of every table, then NewTableFromDocument on each: same [lo, hi], metadata decoded from the footer
Reopen ==
  /\ phase = "probed" /\ phase' = "reopened"
  /\ Log([a |-> "Reopen"])
  /\ UNCHANGED <<goal, run, tables, fp>>

Done == phase = "done" \/ (Family = "design" /\ phase = "written")

Next ==
  /\ Len(hist) < MaxLen /\ ~Done
  /\ \/ \E k \in 1..U, t \in Tombs, vl \in VLens : Add(k, t, vl)
     \/ Expect
     \/ \E f \in 0..U : Fp(f)
     \/ Write("one", 0) \/ \E tg \in Targets \cup DerivedTargets : Write("run", tg)
     \/ Probe \/ Reopen

Spec == Init /\ [][Next]_vars
view == <<phase, goal, run, tables, fp>>

-----------------------------------------------------------------------------
\* what the transcription must establish (C17 on the design)
Written == phase \notin {"build", "ready", "fp"}
NT == Len(tables)

\* entries in = entries out: the tables are consecutive non-overlapping pieces of the run
PartitionOK == Written =>
  /\ \A i \in 1..NT : tables[i].lo >= 1 /\ tables[i].hi <= N
  /\ (NT > 0 => tables[1].lo = 1 /\ tables[NT].hi = N)
  /\ (NT = 0 => N = 0)
  /\ \A i \in 1..(NT - 1) : tables[i + 1].lo = tables[i].hi + 1
\* WriteRun never emits an empty table (Write of the empty run does: its one table is empty)
NoEmptyChunk == Written => \A i \in 1..NT : (Cnt(tables[i]) > 0 \/ (NT = 1 /\ N = 0))
\* key ranges of split tables are disjoint and ordered
RangesOK == Written => \A i \in 1..(NT - 1) :
  Cnt(tables[i]) > 0 /\ Cnt(tables[i + 1]) > 0 /\ run[tables[i].hi].k < run[tables[i + 1].lo].k
\* point lookup: present key found (tombstones included) in exactly the table holding it, absent key nowhere
GetOK == Written => \A key \in 1..U, i \in 1..NT :
  GetT(tables[i], key) = (IF AbsGet(key) \in tables[i].lo..tables[i].hi THEN AbsGet(key) ELSE 0)
\* prefix scan: exactly the matching entries, in order
ScanOK == Written => \A p \in 1..U : Flat([i \in 1..NT |-> ScanT(tables[i], p)], 1, NT) = AbsScan(p)
\* bloom never denies a present key
BloomOK == Written => \A i \in 1..NT : \A j \in tables[i].lo..tables[i].hi : MightHave(tables[i], run[j].k)
TypeOK == /\ phase \in {"build", "ready", "fp", "written", "probed", "reopened", "done"}
          /\ \A i \in 1..(N - 1) : run[i].k < run[i + 1].k
          /\ fp \in Absent \cup {0}

-----------------------------------------------------------------------------
Dump == (Done \/ Len(hist) >= MaxLen) => PrintT(<<"BEHAVIOUR", ToJson(hist)>>)
=============================================================================
