SPECIFICATION Spec
CONSTANTS NItems = 4  MaxSize = 2  BufSize = 2  UseTimer = TRUE  MaxFires = 3  MaxExplicit = 1  Atomic = TRUE  MaxLen = 1000
INVARIANTS InOrder NoLoss ReservedOK TypeOK
VIEW view
CHECK_DEADLOCK FALSE
