------------------------------ MODULE Restart ------------------------------
(* One cut per (re)start: every Deploy request and the source splitter's Start
   of ONE start() of jobs.Job carry the same job checkpoint, and that checkpoint
   was the newest completed one at some moment of that start.

   This is the part of C13 ("whenever the job (re)starts it recovers from THE
   completed checkpoint with the highest id"), C16 ("after recovery every split
   is resumed from its checkpointed position" - the position of the checkpoint
   the operators were restored from) and C01 (no record's effect on state is
   lost) that lives in jobs/job.go start() and in the asynchronous publication
   of storage/snapshots/store.go.  Implementation shaped:

     jobs/job.go  start()          Join          evaluateClusterStatus spawns `go start()`
                                   ReadCheckpoint  DiscardPendingCheckpoint + ckpt := CurrentCheckpoint()
                                   SendDeploys     NewSourceSplitter, RegisterSourceSplitter, assembly.Deploy
                                                   builds one request per member from ckpt
                                   DeployNode(s)   member s answers its Deploy
                                   StartSplitter   sourceSplitter.Start(source checkpoint of ckpt)
                                   Run             the queued "running" task
     snapshots/store.go            Tick            CreateCheckpoint (refused while one is pending)
                                   Ack(s)          Add{Operator,Source}Snapshot; the last one = finishSnapshot:
                                                   the write of job-N.snapshot is IN FLIGHT on its own goroutine
                                   PublishDone(N)  finishSnapshotAsync after the write: completedSnapshots := [N]
                                                   (unless a newer one is already there)
   Nothing cancels the publication goroutine when the job pauses, so PublishDone
   is enabled at ANY time: while the job is paused, and between any two steps of
   start().  The membership side is abstract (Lose = a member of the running
   assembly deregisters, Join = enough nodes are registered again); its details
   are C15's (spec/Membership.tla).

   Slots 1..W are the operators of the assembly, W+1..2W its source runners.
   Only operator Deploy requests carry checkpoints (DeploySourceRunnerRequest
   has none).

   Ghost: depck[s] = job checkpoint id carried by the Deploy request to operator
   slot s in the current start (-1 none yet), splck = the id handed to the
   splitter (-1 none yet), seen = the ids that were the store's current
   checkpoint at some moment since this start was spawned.

   Late acknowledgements (C12: "late ... acknowledgements never complete or corrupt it"; C13): todo[s] is the checkpoint
   member s of the assembly that took it has still to acknowledge - the message may be under way, also from a member
   that has meanwhile been lost.  Ack(s) delivers it at ANY later moment: while the job is paused, at every point of the
   following start() and after it runs again.  The store accepts it iff that checkpoint is still pending.  Ghost:
   pend.asm = the start (assembly) number the pending checkpoint was created for; oldpub = the checkpoints whose LAST
   acknowledgement was accepted after a later start had discarded / read (its first two statements, one step here).
   NoOldAssemblyPublication: oldpub = {} - a checkpoint only completes while its own assembly is the job's assembly
   (this includes the pause and the moment before the next start() has begun; a publication whose write is merely
   still in flight is SingleCut's subject, not this one's).

   Deviations (witness generation only; the tree does none of them):
     Dev_RereadAfterDeploy  StartSplitter uses the store's current checkpoint at that moment
     Dev_RereadAtDeploy     the Deploy requests are built from a second read, the splitter gets the first
     Dev_DiscardAtRunning   the pending checkpoint of the previous assembly is discarded by the task that sets Running,
                            not at the top of start()
*)
EXTENDS Integers, Sequences, FiniteSets, TLC, Json

CONSTANTS W,            \* config.WorkerCount
          MaxCk,        \* checkpoint ids 1..MaxCk
          MaxRestarts,  \* losses of a member (each followed by a new start)
          MaxLen,       \* behaviour length (generation); large for exhaustive runs
          HoldIn,       \* generation steering: job statuses in which no publication completes ({} = unconstrained)
          Focus,        \* generation steering: a member is lost only while a checkpoint that can still complete is open or being written
          Dev_RereadAfterDeploy, Dev_RereadAtDeploy, Dev_DiscardAtRunning

VARIABLES status, st, cur, lastId, pend, inflight, todo, oldpub, depck, splck, seen, nstarts, hist

vars == <<status, st, cur, lastId, pend, inflight, todo, oldpub, depck, splck, seen, nstarts, hist>>
view == <<status, st, cur, lastId, pend, inflight, todo, oldpub, depck, splck, seen, nstarts>>
\* transition cover: one shortest history per (state, incoming step)
viewT == <<view, IF hist = <<>> THEN <<>> ELSE hist[Len(hist)]>>

Slots   == 1..(2 * W)
OpSlots == 1..W
NoPend  == [on |-> FALSE, id |-> 0, acked |-> {}, asm |-> 0]
NoTodo  == [s \in Slots |-> 0]
NoSt    == [ph |-> "none", ck |-> 0, out |-> {}]
NoDep   == [s \in OpSlots |-> -1]
Max(a, b) == IF a > b THEN a ELSE b

SetSeq(S) == LET RECURSIVE F(_)
                 F(T) == IF T = {} THEN <<>> ELSE LET m == CHOOSE x \in T : \A y \in T : x <= y IN <<m>> \o F(T \ {m})
             IN F(S)

Init ==
  /\ status = "Idle" /\ st = NoSt /\ cur = 0 /\ lastId = 0 /\ pend = NoPend /\ inflight = {} /\ todo = NoTodo /\ oldpub = {}
  /\ depck = NoDep /\ splck = -1 /\ seen = {} /\ nstarts = 0 /\ hist = <<>>

\* (the bound on the behaviour length sits here so that Next stays a plain disjunction: -coverage then counts every action by name)
Log(r) == Len(hist) < MaxLen /\ hist' = Append(hist, r)

-----------------------------------------------------------------------------
(* membership, abstract *)

\* enough nodes are registered (again): evaluateClusterStatus creates the assembly and spawns start().
\* how: "boot" first assembly | "same" the lost node registers again under its id | "fresh" a new node replaces it
Join(how) ==
  /\ status = "Idle" /\ st.ph = "none"
  /\ (how = "boot") = (nstarts = 0)
  /\ status' = "Starting" /\ st' = [NoSt EXCEPT !.ph = "spawned"]
  /\ seen' = {cur} /\ depck' = NoDep /\ splck' = -1 /\ nstarts' = nstarts + 1
  /\ Log([a |-> "Join", how |-> how, cur |-> cur])
  /\ UNCHANGED <<cur, lastId, pend, inflight, todo, oldpub>>

\* member s of the running assembly deregisters: Running -> Paused.  (An acknowledgement it has already sent may still arrive.)
Lose(s) ==
  /\ status = "Running" /\ nstarts <= MaxRestarts
  /\ Focus => (pend.on \/ inflight # {})
  /\ status' = "Idle"
  /\ Log([a |-> "Lose", s |-> s, pending |-> pend.on, writing |-> SetSeq(inflight)])
  /\ UNCHANGED <<st, cur, lastId, pend, inflight, todo, oldpub, depck, splck, seen, nstarts>>

-----------------------------------------------------------------------------
(* start() on its own goroutine *)

ReadCheckpoint ==
  /\ st.ph = "spawned"
  /\ st' = [st EXCEPT !.ph = "read", !.ck = cur]
  /\ pend' = IF Dev_DiscardAtRunning THEN pend ELSE NoPend        \* DiscardPendingCheckpoint
  /\ Log([a |-> "ReadCheckpoint", ck |-> cur])
  /\ UNCHANGED <<status, cur, lastId, inflight, todo, oldpub, depck, splck, seen, nstarts>>

SendDeploys ==
  /\ st.ph = "read"
  /\ LET dck == IF Dev_RereadAtDeploy THEN cur ELSE st.ck IN
     /\ depck' = [s \in OpSlots |-> dck]
     /\ Log([a |-> "SendDeploys", ck |-> dck])
  /\ st' = [st EXCEPT !.ph = "deploying", !.out = Slots]
  /\ UNCHANGED <<status, cur, lastId, pend, inflight, todo, oldpub, splck, seen, nstarts>>

DeployNode(s) ==
  /\ st.ph = "deploying" /\ s \in st.out
  /\ st' = [st EXCEPT !.out = @ \ {s}, !.ph = IF st.out = {s} THEN "deployed" ELSE "deploying"]
  /\ Log([a |-> "DeployNode", s |-> s, ck |-> IF s \in OpSlots THEN depck[s] ELSE -1, last |-> st.out = {s}])
  /\ UNCHANGED <<status, cur, lastId, pend, inflight, todo, oldpub, depck, splck, seen, nstarts>>

StartSplitter ==
  /\ st.ph = "deployed"
  /\ LET sck == IF Dev_RereadAfterDeploy THEN cur ELSE st.ck IN
     /\ splck' = sck
     /\ Log([a |-> "StartSplitter", ck |-> sck])
  /\ st' = [st EXCEPT !.ph = "started"]
  /\ UNCHANGED <<status, cur, lastId, pend, inflight, todo, oldpub, depck, seen, nstarts>>

Run ==
  /\ st.ph = "started"
  /\ status' = "Running" /\ st' = NoSt
  /\ pend' = IF Dev_DiscardAtRunning THEN NoPend ELSE pend
  /\ Log([a |-> "Run"])
  /\ UNCHANGED <<cur, lastId, inflight, todo, oldpub, depck, splck, seen, nstarts>>

-----------------------------------------------------------------------------
(* the store *)

Tick ==
  /\ status = "Running" /\ ~pend.on /\ lastId < MaxCk
  /\ lastId' = lastId + 1 /\ pend' = [on |-> TRUE, id |-> lastId + 1, acked |-> {}, asm |-> nstarts]
  /\ todo' = [s \in Slots |-> lastId + 1]      \* (an acknowledgement of an earlier checkpoint that is still under way is dropped: bound)
  /\ Log([a |-> "Tick", id |-> lastId + 1])
  /\ UNCHANGED <<status, st, cur, inflight, oldpub, depck, splck, seen, nstarts>>

\* the acknowledgement of member s (of the assembly that took checkpoint todo[s]) reaches the job - in ANY job status and
\* at any point of a later start(): the store does not know about assemblies.  It is accepted iff that checkpoint is still
\* pending; the last accepted one starts the publication.
OwnAssembly == \/ st.ph = "none" /\ pend.asm = nstarts            \* running or paused on the assembly that took it
               \/ st.ph = "spawned" /\ pend.asm = nstarts - 1     \* the next start() has not executed its first statement yet
Ack(s) ==
  /\ todo[s] # 0
  /\ LET id == todo[s]
         acc == pend.on /\ pend.id = id /\ s \notin pend.acked
         ac == pend.acked \cup {s}
         complete == acc /\ ac = Slots
     IN /\ pend' = IF complete THEN NoPend ELSE IF acc THEN [pend EXCEPT !.acked = ac] ELSE pend
        /\ inflight' = IF complete THEN inflight \cup {id} ELSE inflight
        /\ oldpub' = IF complete /\ ~OwnAssembly THEN oldpub \cup {id} ELSE oldpub
        /\ Log([a |-> "Ack", s |-> s, id |-> id, ok |-> acc, complete |-> complete, ph |-> st.ph, status |-> status])
  /\ todo' = [todo EXCEPT ![s] = 0]
  /\ UNCHANGED <<status, st, cur, lastId, depck, splck, seen, nstarts>>

\* the same action, named by where it strikes (for -coverage)
AckRunning          == \E s \in Slots : status = "Running" /\ Ack(s)
AckPaused           == \E s \in Slots : status = "Idle" /\ Ack(s)
AckBeforeRead       == \E s \in Slots : st.ph = "spawned" /\ Ack(s)
LateAckBeforeDeploy == \E s \in Slots : st.ph = "read" /\ Ack(s)
LateAckDuringDeploy == \E s \in Slots : st.ph = "deploying" /\ Ack(s)
LateAckAfterDeploy  == \E s \in Slots : st.ph \in {"deployed", "started"} /\ Ack(s)
LateAckRunning      == \E s \in Slots : status = "Running" /\ todo[s] # 0 /\ ~(pend.on /\ pend.id = todo[s]) /\ Ack(s)
Acks == AckRunning \/ AckPaused \/ AckBeforeRead \/ LateAckBeforeDeploy \/ LateAckDuringDeploy \/ LateAckAfterDeploy \/ LateAckRunning

\* the write of job-id.snapshot returns; the checkpoint becomes current unless a newer one already is
Publish(id) ==
  /\ id \in inflight /\ status \notin HoldIn
  /\ inflight' = inflight \ {id}
  /\ cur' = Max(cur, id)
  /\ seen' = IF st.ph # "none" THEN seen \cup {Max(cur, id)} ELSE seen
  /\ Log([a |-> "PublishDone", id |-> id, cur |-> Max(cur, id), ph |-> st.ph, status |-> status])
  /\ UNCHANGED <<status, st, lastId, pend, todo, oldpub, depck, splck, nstarts>>

\* the same action, named by where it strikes (for -coverage)
PublishRunning      == \E id \in inflight : status = "Running" /\ Publish(id)
PublishPaused       == \E id \in inflight : status = "Idle" /\ Publish(id)
PublishBeforeRead   == \E id \in inflight : st.ph = "spawned" /\ Publish(id)
PublishBeforeDeploy == \E id \in inflight : st.ph = "read" /\ Publish(id)
PublishDuringDeploy == \E id \in inflight : st.ph = "deploying" /\ Publish(id)
PublishAfterDeploy  == \E id \in inflight : st.ph \in {"deployed", "started"} /\ Publish(id)
PublishDone == PublishRunning \/ PublishPaused \/ PublishBeforeRead \/ PublishBeforeDeploy \/ PublishDuringDeploy \/ PublishAfterDeploy

-----------------------------------------------------------------------------
Step == \/ \E h \in {"boot", "same", "fresh"} : Join(h)
        \/ \E s \in Slots : Lose(s) \/ DeployNode(s)
        \/ ReadCheckpoint \/ SendDeploys \/ StartSplitter \/ Run \/ Tick
        \/ Acks \/ PublishDone

Next == Step

Spec == Init /\ [][Next]_vars

-----------------------------------------------------------------------------
TypeOK == /\ status \in {"Idle", "Starting", "Running"}
          /\ st.ph \in {"none", "spawned", "read", "deploying", "deployed", "started"}
          /\ (status = "Starting") = (st.ph # "none")
          /\ cur <= lastId /\ \A id \in inflight : id <= lastId

\* within one start: every Deploy request and the splitter carry the same checkpoint ...
OneCut == /\ \A s, t \in OpSlots : (depck[s] # -1 /\ depck[t] # -1) => depck[s] = depck[t]
          /\ splck # -1 => \A s \in OpSlots : depck[s] = splck
\* ... which was the newest completed checkpoint at some moment of this start (NOT necessarily at its end:
\* a start that uses the value of its first read is correct even if a newer checkpoint completes during Deploy)
NewestInWindow == /\ \A s \in OpSlots : depck[s] # -1 => depck[s] \in seen
                  /\ splck # -1 => splck \in seen
SingleCut == OneCut /\ NewestInWindow

\* a checkpoint completes only while the assembly that took it is the job's assembly
NoOldAssemblyPublication == oldpub = {}

Safety == TypeOK /\ SingleCut /\ NoOldAssemblyPublication

-----------------------------------------------------------------------------
Terminal == ~ENABLED Step
Dump == (Len(hist) >= MaxLen \/ Terminal) => PrintT(<<"BEHAVIOUR", ToJson(hist)>>)
\* VIEW viewT, -workers 1: one shortest history per (state, incoming step) = a transition cover
DumpAll == hist # <<>> => PrintT(<<"BEHAVIOUR", ToJson(hist)>>)
\* with a Dev_* constant TRUE: the history of every state in which the deviating design has used two cuts
CexDump == (~SingleCut /\ Len(hist) < MaxLen) => PrintT(<<"BEHAVIOUR", ToJson(hist)>>)
\* with Dev_DiscardAtRunning: the history of every state in which a late acknowledgement has completed an old assembly's checkpoint
CexDumpLate == (oldpub # {} /\ Len(hist) < MaxLen) => PrintT(<<"BEHAVIOUR", ToJson(hist)>>)
=============================================================================
