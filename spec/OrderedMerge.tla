---------------------------- MODULE OrderedMerge ----------------------------
(* dkv/mergesort.Merge (k-way merge that collapses items the comparator calls
   equal, keeping the one `pick` prefers) and util/iteru.MergeSorted (plain
   k-way merge), both built on util/ds.Heap.

   The model builds the inputs: `iters` is a sequence of iterators, each a
   sequence of items [k, s, src] ascending in k (non-strictly unless Strict);
   s is a global sequence number (so "newest" is well defined), src the
   iterator.  One behaviour = one choice of inputs; its single logged step
   carries the inputs and what the sorted-slice reference says:

     out     Merge with pick = newest (kv.keepNewest): per distinct key, in key
             order, the item with the largest s;
     classes per distinct key, in key order, all items with that key - with
             pick = "always the first/second argument" the result depends on the
             heap's tie-breaking, so any member of the class is acceptable;
     sorted  MergeSorted: every item, ordered by (k, s); the code may order
             equal keys differently, so the replayer compares the key sequence
             and the multiset.                                              *)
EXTENDS OrderedRef, Json

CONSTANTS KeyIdx, NIs,      \* set of iterator counts to choose from (0 allowed)
          MaxItems, Strict

VARIABLES iters, ctr, tgt, merged, hist
vars == <<iters, ctr, tgt, merged, hist>>

Keys == {U[i] : i \in KeyIdx}

\* tgt: how many items this behaviour's inputs hold (chosen up front so that -simulate, which
\* picks among the disjuncts of Next uniformly, produces long inputs as often as short ones)
Init == /\ \E n \in NIs : iters = [i \in 1..n |-> <<>>]
        /\ tgt \in 0..MaxItems
        /\ ctr = 0 /\ merged = FALSE /\ hist = <<>>

CanAppend(i, k) ==
  /\ ~merged /\ ctr < tgt
  /\ IF iters[i] = <<>> THEN TRUE
     ELSE IF Strict THEN LexLess(Last(iters[i]).k, k) ELSE LexLeq(Last(iters[i]).k, k)

Append1(i, k) ==
  /\ CanAppend(i, k)
  /\ iters' = [iters EXCEPT ![i] = Append(@, [k |-> k, s |-> ctr + 1, src |-> i])]
  /\ ctr' = ctr + 1
  /\ UNCHANGED <<tgt, merged, hist>>

\* ---- reference
AllItems == UNION {Range(iters[i]) : i \in DOMAIN iters}
ItemLess(a, b) == LexLess(a.k, b.k) \/ (a.k = b.k /\ a.s < b.s)
RECURSIVE SortedItems(_)
SortedItems(S) == IF S = {} THEN <<>>
                  ELSE LET m == CHOOSE x \in S : \A y \in S : x = y \/ ItemLess(x, y)
                       IN <<m>> \o SortedItems(S \ {m})
KeySeq == SortedKeys({x.k : x \in AllItems})
Class(k) == {x \in AllItems : x.k = k}
Newest(S) == CHOOSE x \in S : \A y \in S : y.s <= x.s
MergeRef == [i \in DOMAIN KeySeq |-> Newest(Class(KeySeq[i]))]
Classes == [i \in DOMAIN KeySeq |-> SortedItems(Class(KeySeq[i]))]
SortedRef == SortedItems(AllItems)

Merge ==
  /\ ~merged /\ \A i \in DOMAIN iters, k \in Keys : ~CanAppend(i, k)
  /\ merged' = TRUE
  /\ hist' = <<[a |-> "Merge", iters |-> iters, out |-> MergeRef, classes |-> Classes, sorted |-> SortedRef]>>
  /\ UNCHANGED <<iters, ctr, tgt>>

Done == merged
Next == Merge \/ \E i \in DOMAIN iters, k \in Keys : Append1(i, k)
Spec == Init /\ [][Next]_vars

-----------------------------------------------------------------------------
\* the reference is what the words say
InputsSorted == \A i \in DOMAIN iters : \A j \in 1..(Len(iters[i]) - 1) : LexLeq(iters[i][j].k, iters[i][j + 1].k)
MergeRefOK == merged =>
              /\ \A i \in 1..(Len(MergeRef) - 1) : LexLess(MergeRef[i].k, MergeRef[i + 1].k)
              /\ Range(MergeRef) \subseteq AllItems
              /\ \A x \in AllItems : \E i \in DOMAIN MergeRef : MergeRef[i].k = x.k /\ MergeRef[i].s >= x.s
SortedRefOK == merged =>
               /\ Len(SortedRef) = ctr /\ Range(SortedRef) = AllItems
               /\ \A i \in 1..(Len(SortedRef) - 1) : LexLeq(SortedRef[i].k, SortedRef[i + 1].k)

Dump == Done => PrintT(<<"BEHAVIOUR", ToJson(hist)>>)
=============================================================================
