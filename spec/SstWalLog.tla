----------------------------- MODULE SstWalLog -----------------------------
(* C17, write-ahead-log half: dkv/wal Writer (Put / Delete / Cut / Truncate /
   Rotate / Save / Handle) and Reader.All, at API-call granularity (the
   package's contract is one caller goroutine for Put/Delete/Cut/Rotate, so a
   call string is the whole story).

   A writer is a list of sealed segments plus the active segment; an
   operation is identified by its sequence number (the caller numbers them
   consecutively from S0).  Rotate seals the writer and hands every segment on
   to the next writer; Save writes a sealed writer's segments to its file;
   Reader.All(after) trusts arithmetic: it skips (after - first + 1) entries.

   ABSTRACT meaning (what C17 demands): Truncate(s) may forget operations
   numbered <= s and nothing else, therefore a writer sealed when the largest
   truncation point was T and the last operation was `last` replays, for every
   start marker T <= after <= last, exactly the operations after+1 .. last in
   order.

   Dev_CarriedLatestZero = TRUE models the code as it is (DESIGN 7 #7): the
   segments handed on by Rotate lose their latestSeqNum (0), so a later
   Truncate drops them although they hold operations above the truncation
   point.  With FALSE (carried segments keep their number; the active segment
   is carried with the writer's latest number) TLC establishes ReadOK.       *)
EXTENDS Integers, Sequences, FiniteSets, TLC, Json

CONSTANTS S0s,        \* possible first sequence numbers
          MaxOps,     \* API calls per behaviour (without the final saves)
          MaxRot,     \* Rotate calls per behaviour
          Dev_CarriedLatestZero,
          MaxLen

VARIABLES ws,     \* writers, oldest first; the last one is open
          seq,    \* last sequence number handed out
          s0,     \* first sequence number
          T,      \* largest truncation point so far (s0 - 1 before any)
          kinds,  \* ghost: kind ("put" | "del") of operation s0 + i - 1
          nops, hist
vars == <<ws, seq, s0, T, kinds, nops, hist>>
view == <<ws, seq, s0, T, kinds, nops>>

NewW == [segs |-> <<>>, active |-> <<>>, latest |-> 0, st |-> "open", tseal |-> 0, last |-> 0]
Cur == Len(ws)
W == ws[Cur]

Init == /\ s0 \in S0s /\ seq = s0 - 1 /\ T = s0 - 1
        /\ ws = <<NewW>> /\ kinds = <<>> /\ nops = 0 /\ hist = <<>>

Log(r) == hist' = Append(hist, r)
Step == nops < MaxOps /\ nops' = nops + 1

\* Writer.Put / Writer.Delete
Write(kind) ==
  /\ Step
  /\ seq' = seq + 1
  /\ ws' = [ws EXCEPT ![Cur].active = Append(@, seq + 1), ![Cur].latest = seq + 1]
  /\ kinds' = Append(kinds, kind)
  /\ Log([a |-> kind, seq |-> seq + 1])
  /\ UNCHANGED <<s0, T>>

\* Writer.Cut: seal the active segment with the latest sequence number written
CutW ==
  /\ Step
  /\ ws' = [ws EXCEPT ![Cur].segs = Append(@, [ops |-> W.active, latest |-> W.latest]), ![Cur].active = <<>>]
  /\ Log([a |-> "cut"])
  /\ UNCHANGED <<seq, s0, T, kinds>>

\* Writer.Truncate(s): drop the sealed segments before the first one whose latest > s
Truncate(s) ==
  /\ Step
  /\ LET idx == {i \in 1..Len(W.segs) : W.segs[i].latest > s}
         keep == IF idx = {} THEN <<>>
                 ELSE SubSeq(W.segs, CHOOSE i \in idx : \A j \in idx : i <= j, Len(W.segs))
     IN ws' = [ws EXCEPT ![Cur].segs = keep]
  /\ T' = IF s > T THEN s ELSE T
  /\ Log([a |-> "truncate", s |-> s])
  /\ UNCHANGED <<seq, s0, kinds>>

\* Writer.Rotate: seal; the next writer carries every segment
Rotate ==
  /\ Step /\ Cur <= MaxRot
  /\ LET carried == [i \in 1..Len(W.segs) |->
                        [ops |-> W.segs[i].ops, latest |-> IF Dev_CarriedLatestZero THEN 0 ELSE W.segs[i].latest]]
         lastSeg == [ops |-> W.active, latest |-> IF Dev_CarriedLatestZero THEN 0 ELSE W.latest]
         next == [NewW EXCEPT !.segs = Append(carried, lastSeg), !.latest = W.latest]
     IN ws' = Append([ws EXCEPT ![Cur].st = "sealed", ![Cur].tseal = T, ![Cur].last = seq], next)
  /\ Log([a |-> "rotate"])
  /\ UNCHANGED <<seq, s0, T, kinds>>

RECURSIVE Flat(_, _)
Flat(segs, i) == IF i > Len(segs) THEN <<>> ELSE segs[i].ops \o Flat(segs, i + 1)
File(w) == Flat(w.segs, 1) \o w.active

\* Reader.All with Handle.After = after, on a file holding the operations `f`
Read(f, after) ==
  IF f = <<>> THEN [r |-> "ok", ops |-> <<>>]                       \* empty file is allowed
  ELSE IF after + 1 < f[1] THEN [r |-> "panic", ops |-> <<>>]       \* "supposed to start after seqNum ..."
  ELSE LET skip == after - f[1] + 1
       IN IF skip > Len(f) THEN [r |-> "err", ops |-> <<>>]         \* EOF inside the skip loop
          ELSE [r |-> "ok", ops |-> SubSeq(f, skip + 1, Len(f))]

Range(a, b) == [i \in 1..(IF b >= a THEN b - a + 1 ELSE 0) |-> a + i - 1]
Demanded(w, after) == [r |-> "ok", ops |-> Range(after + 1, w.last)]

\* Writer.Save on sealed writer i, then Reader.All for every admissible start marker
SaveRead(i) ==
  /\ ws[i].st = "sealed"
  /\ ws' = [ws EXCEPT ![i].st = "saved"]
  /\ Log([a |-> "saveread", w |-> i - 1, file |-> File(ws[i]),
          reads |-> [k \in 1..(ws[i].last - ws[i].tseal + 1) |->
                       LET after == ws[i].tseal + k - 1
                       IN [after |-> after, demanded |-> Demanded(ws[i], after).ops,
                           predicted |-> Read(File(ws[i]), after)]]])
  /\ UNCHANGED <<seq, s0, T, kinds, nops>>

Done == nops = MaxOps /\ \A i \in 1..Len(ws) : ws[i].st # "sealed"

Next ==
  /\ Len(hist) < MaxLen /\ ~Done
  /\ \/ Write("put") \/ Write("del") \/ CutW \/ Rotate
     \/ \E s \in (s0 - 1)..seq : Truncate(s)
     \/ \E i \in 1..Len(ws) : SaveRead(i)

Spec == Init /\ [][Next]_vars

-----------------------------------------------------------------------------
\* C17 (WAL) on the design: every sealed writer replays exactly the operations after the marker
ReadOK == \A i \in 1..Len(ws) : ws[i].st = "sealed" =>
            \A after \in ws[i].tseal..ws[i].last : Read(File(ws[i]), after) = Demanded(ws[i], after)
\* nothing above the truncation point is ever forgotten by the open writer either
KeepsOK == LET f == File(W) IN \A s \in (T + 1)..seq : \E j \in 1..Len(f) : f[j] = s
TypeOK == /\ seq >= s0 - 1 /\ T <= seq /\ Len(kinds) = seq - s0 + 1
          /\ \A i \in 1..Len(ws) : ws[i].st \in {"open", "sealed", "saved"}

Dump == (Done \/ Len(hist) >= MaxLen) => PrintT(<<"BEHAVIOUR", ToJson(hist)>>)
=============================================================================
