------------------------------ MODULE Dkv ------------------------------
(* Implementation-shaped model of reduction/dkv (LSM store): memtable queue,
   level list, WAL with segments, background flush and compaction tasks,
   checkpoints (WAL rotation + asynchronous saves), retention, re-opening from
   a checkpoint handle.  One action per critical section of dkv/db.go.

   Abstract state carried as ghosts: `oracle` (the map a user believes in),
   `snapAt[id]` (the map at the instant Checkpoint(id) was called).

     C07  GetOK / ScanOK   reads return oracle at every moment
     C08  RestoreOK        every returned, retained handle restores to snapAt
     C09  FilesSafe        files referenced by retained checkpoints / live
                           tables exist with the content they were written with

   Dev_* constants are named deviations: what the pinned code did before it
   was repaired (DESIGN 7).  With all of them FALSE the model is the intended
   design = the repaired code.                                               *)
EXTENDS Integers, Sequences, FiniteSets, TLC, Json

CONSTANTS
  Keys,          \* e.g. {1, 2, 3}
  Vals,          \* e.g. {1, 2}   (0 is the tombstone / "absent")
  Prefixes,      \* set of sets of keys: the key sets selected by the scan prefixes used
  MemCap,        \* memtable capacity in bytes
  PutSz, DelSz,  \* accounted size of a put / delete entry
  WalCap,        \* MaxWALSize: the active WAL segment reaching it forces a memtable rotation (0 = never)
  L0Trigger,     \* compaction trigger (number of L0 tables)
  MaxOps,        \* bound on foreground writes
  MaxReads,      \* bound on reads
  MaxCkpt,       \* bound on checkpoints
  MaxReopen,     \* bound on re-openings
  MaxRetain,     \* bound on retention updates
  MaxGc,         \* bound on garbage-collection runs
  MaxFail,       \* bound on injected storage faults (failed save of the checkpoints document)
  MaxLen,        \* history length bound (generation)
  Dev_MemOldestFirst, Dev_L0OldestFirst, Dev_ScanDropsMemTomb,
  Dev_GetLevelsFirst, Dev_EndSeqLastKey, Dev_RotateDropsLatest, Dev_TableIdReuse, Dev_GcIgnoresSharing, Dev_RetainDropsNewer

Tomb == 0
Panic == "PANIC"
Max(S) == IF S = {} THEN 0 ELSE CHOOSE x \in S : \A y \in S : y <= x
Min(S) == CHOOSE x \in S : \A y \in S : x <= y
Override(f, g) == [x \in DOMAIN f \cup DOMAIN g |-> IF x \in DOMAIN g THEN g[x] ELSE f[x]]
Restrict(f, S) == [x \in DOMAIN f \cap S |-> f[x]]

VARIABLES
  seq,       \* db.seqNum
  mem,       \* Seq of memtables (functions key -> [s, v]); last = active
  lv,        \* <<L0, L1>>: each a Seq of tables [id, ents, endSeq]; L0 in insertion order
  latest,    \* LevelList.LatestSeqNum
  wal,       \* [id, sealed: Seq([ents, latest]), active: Seq([s,k,v]), lastW]
  flushQ,    \* queued flush tasks not yet started
  flush,     \* running flush task: [on, n, tabs]
  compQ,     \* queued compaction tasks
  comp,      \* running compaction: [on, picked (set of table ids), out (Seq of tables)]
  nextTid,   \* TableWriter id counter
  ckpts,     \* in-memory checkpoint list: Seq([id, lv, latest, walId, after, lastSeq])
  pendRm,    \* checkpointsPendingRemoval (set of checkpoint records)
  saves,     \* async checkpoint saves: set of [id, walId, content, stage]
  files,     \* durable storage: [sst: tid -> ents, wal: id -> Seq, doc: Seq(cp)]
  returned,  \* checkpoint ids whose handle has been returned
  rd,        \* in-flight read
  oracle, snapAt,   \* ghosts
  dropped,   \* checkpoint ids the caller has dropped (retention named newer ones only, or a restart from another one)
  objs,      \* table ids that have a Table object in this process (only those can be deleted by a cleanup)
  zombies,   \* table ids of in-memory tables of a replaced database instance (same process), not yet collected
  nops, nrd, nck, nre, nrt, ngc, nfl, hist

vars == <<seq, mem, lv, latest, wal, flushQ, flush, compQ, comp, nextTid, ckpts, pendRm,
          saves, files, returned, rd, oracle, snapAt, dropped, objs, zombies, nops, nrd, nck, nre, nrt, ngc, nfl, hist>>
view == <<seq, mem, lv, latest, wal, flushQ, flush, compQ, comp, nextTid, ckpts, pendRm,
          saves, files, returned, rd, oracle, snapAt, dropped, objs, zombies, nops, nrd, nck, nre, nrt, ngc, nfl>>

EmptyMt == [k \in {} |-> [s |-> 0, v |-> 0]]
NoFlush == [on |-> FALSE, n |-> 0, tabs |-> <<>>]
NoComp  == [on |-> FALSE, picked |-> {}, out |-> <<>>]
NoRead  == [on |-> FALSE, kind |-> "", arg |-> {}, capMem |-> <<>>, capLv |-> <<>>]
NoFiles == [sst |-> [t \in {} |-> EmptyMt], wal |-> [i \in {} |-> <<>>], doc |-> <<>>]
EmptyLv == <<<<>>, <<>>>>

Init ==
  /\ seq = 0 /\ mem = <<EmptyMt>> /\ lv = EmptyLv /\ latest = 0
  /\ wal = [id |-> 0, sealed |-> <<>>, active |-> <<>>, lastW |-> 0]
  /\ flushQ = 0 /\ flush = NoFlush /\ compQ = 0 /\ comp = NoComp /\ nextTid = 0
  /\ ckpts = <<>> /\ pendRm = {} /\ saves = {} /\ files = NoFiles /\ returned = {}
  /\ rd = NoRead /\ oracle = [k \in Keys |-> Tomb] /\ snapAt = [i \in {} |-> oracle]
  /\ dropped = {} /\ objs = {} /\ zombies = {} /\ nops = 0 /\ nrd = 0 /\ nck = 0 /\ nre = 0 /\ nrt = 0 /\ ngc = 0 /\ nfl = 0 /\ hist = <<>>

Log(r) == hist' = Append(hist, r)

-----------------------------------------------------------------------------
\* memtables, tables, WAL

MtPut(mt, k, s, v) == [x \in DOMAIN mt \cup {k} |-> IF x = k THEN [s |-> s, v |-> v] ELSE mt[x]]
RECURSIVE MtSum(_, _)
MtSum(mt, S) == IF S = {} THEN 0 ELSE LET k == CHOOSE k \in S : TRUE
                IN (IF mt[k].v = Tomb THEN DelSz ELSE PutSz) + MtSum(mt, S \ {k})
MtSize(mt) == MtSum(mt, DOMAIN mt)
Active == mem[Len(mem)]

EndSeq(mt) == IF Dev_EndSeqLastKey THEN mt[Max(DOMAIN mt)].s ELSE Max({mt[k].s : k \in DOMAIN mt})
Table(tid, mt) == [id |-> tid, ents |-> mt, endSeq |-> EndSeq(mt)]
TabIds(l) == {l[1][i].id : i \in 1..Len(l[1])} \cup {l[2][i].id : i \in 1..Len(l[2])}

WalCut(w) == [w EXCEPT !.sealed = Append(@, [ents |-> w.active, latest |-> w.lastW]), !.active = <<>>]
WalTruncate(w, upto) ==
  LET idx == {i \in 1..Len(w.sealed) : w.sealed[i].latest > upto}
  IN IF idx = {} THEN [w EXCEPT !.sealed = <<>>]
     ELSE [w EXCEPT !.sealed = SubSeq(@, Min(idx), Len(@))]
RECURSIVE FlatSegs(_)
FlatSegs(segs) == IF segs = <<>> THEN <<>> ELSE Head(segs).ents \o FlatSegs(Tail(segs))
WalContent(w) == FlatSegs(w.sealed) \o w.active
WalRotate(w) ==
  [id |-> w.id + 1,
   sealed |-> [i \in 1..Len(w.sealed) |-> [ents |-> w.sealed[i].ents,
                  latest |-> IF Dev_RotateDropsLatest THEN 0 ELSE w.sealed[i].latest]]
              \o <<[ents |-> w.active, latest |-> IF Dev_RotateDropsLatest THEN 0 ELSE w.lastW]>>,
   active |-> <<>>, lastW |-> w.lastW]

-----------------------------------------------------------------------------
\* read paths (what the code computes)

\* first hit along an ordered list of entry maps
RECURSIVE FirstHit(_, _)
FirstHit(maps, k) == IF maps = <<>> THEN [s |-> 0, v |-> Tomb]
                     ELSE IF k \in DOMAIN Head(maps) THEN Head(maps)[k] ELSE FirstHit(Tail(maps), k)
Rev(s) == [i \in 1..Len(s) |-> s[Len(s) + 1 - i]]
Ents(tabs) == [i \in 1..Len(tabs) |-> tabs[i].ents]
MemOrder(m) == IF Dev_MemOldestFirst THEN m ELSE Rev(m)
\* newest version by sequence number over a set of entry maps
Newest(maps, k) ==
  LET hits == {i \in 1..Len(maps) : k \in DOMAIN maps[i]}
  IN IF hits = {} THEN [s |-> 0, v |-> Tomb]
     ELSE maps[CHOOSE i \in hits : \A j \in hits : maps[i][k].s >= maps[j][k].s][k]
\* L0 tables may overlap: the repaired code takes the hit with the highest
\* sequence number among all L0 tables; the pinned code took the first hit in
\* insertion order (Dev_L0OldestFirst).  Below L0 the first hit wins.
GetResult(m, l, k) ==
  LET inMem == \E i \in 1..Len(m) : k \in DOMAIN m[i]
      inL0 == \E i \in 1..Len(l[1]) : k \in DOMAIN l[1][i].ents
  IN IF inMem THEN FirstHit(MemOrder(m), k).v
     ELSE IF inL0 THEN (IF Dev_L0OldestFirst THEN FirstHit(Ents(l[1]), k).v ELSE Newest(Ents(l[1]), k).v)
     ELSE FirstHit(Ents(l[2]), k).v

\* scan: merge of (memtable merge) and (level merge filtered of tombstones)
ScanResult(m, l, P) ==
  LET memNoTomb == [i \in 1..Len(m) |-> Restrict(m[i], {k \in DOMAIN m[i] : m[i][k].v # Tomb})]
      mm == IF Dev_ScanDropsMemTomb THEN memNoTomb ELSE m
      lvl == Ents(l[1]) \o Ents(l[2])
      Pick(k) == LET a == Newest(mm, k)
                     b0 == Newest(lvl, k)
                     b == IF Dev_ScanDropsMemTomb /\ b0.v = Tomb THEN [s |-> 0, v |-> Tomb] ELSE b0
                 IN IF a.s > b.s THEN a.v ELSE b.v
  IN [k \in P |-> Pick(k)]

-----------------------------------------------------------------------------
\* db.Put / db.Delete on a state record [mem, wal, flushQ, seq]
ApplyWrite(st, k, v) ==
  LET s == st.seq + 1
      mt2 == MtPut(st.mem[Len(st.mem)], k, s, v)
      w2  == [st.wal EXCEPT !.active = Append(@, [s |-> s, k |-> k, v |-> v]), !.lastW = s]
      \* a WAL record is seq(8) + len(4) + key + tombstone(1) [+ len(4) + value]: a put costs PutSz, a delete DelSz - 4
      RECURSIVE WalBytes(_)
      WalBytes(es) == IF es = <<>> THEN 0 ELSE (IF Head(es).v = Tomb THEN DelSz - 4 ELSE PutSz) + WalBytes(Tail(es))
      full == MtSize(mt2) > MemCap \/ (WalCap > 0 /\ WalBytes(w2.active) >= WalCap)
  IN IF full
     THEN [mem |-> Append([st.mem EXCEPT ![Len(st.mem)] = mt2], EmptyMt), wal |-> WalCut(w2),
           flushQ |-> st.flushQ + 1, seq |-> s, rot |-> TRUE]
     ELSE [mem |-> [st.mem EXCEPT ![Len(st.mem)] = mt2], wal |-> w2, flushQ |-> st.flushQ, seq |-> s, rot |-> FALSE]

\* foreground writes (single caller goroutine); a read in flight excludes them
Write(k, v) ==
  /\ ~rd.on /\ nops < MaxOps
  /\ nops' = nops + 1
  /\ oracle' = [oracle EXCEPT ![k] = v]
  /\ LET st == ApplyWrite([mem |-> mem, wal |-> wal, flushQ |-> flushQ, seq |-> seq], k, v)
     IN /\ mem' = st.mem /\ wal' = st.wal /\ flushQ' = st.flushQ /\ seq' = st.seq
        /\ Log([a |-> IF v = Tomb THEN "Delete" ELSE "Put", k |-> k, v |-> v, rot |-> st.rot])
  /\ UNCHANGED <<lv, latest, flush, compQ, comp, nextTid, ckpts, pendRm, saves, files, returned, rd, snapAt, nrd, nck, nre, nrt, zombies, ngc, dropped, nfl, objs>>

\* Get: two captures (level list, memtable list) with background steps possible in between.
\* `at` names where the real reader is held while the background steps of the behaviour run: "between" = between the
\* memtable read and the capture of the level list (db.go), "snap" = inside memtable.List.Get, holding its snapshot of
\* the memtable list but before reading the first memtable. What the read must return does not depend on it (the
\* value is history only: not part of rd, so not part of the state space).
GetHolds == {"between", "snap"}
ScanHolds == {"between", "returned", "mid"}
GetBeginAt(k, at) ==
  /\ ~rd.on /\ nrd < MaxReads /\ nrd' = nrd + 1
  /\ rd' = IF Dev_GetLevelsFirst
           THEN [on |-> TRUE, kind |-> "get", arg |-> {k}, capMem |-> <<>>, capLv |-> lv]
           ELSE [on |-> TRUE, kind |-> "get", arg |-> {k}, capMem |-> mem, capLv |-> <<>>]
  /\ Log([a |-> "GetBegin", k |-> k, at |-> at])
  /\ UNCHANGED <<seq, mem, lv, latest, wal, flushQ, flush, compQ, comp, nextTid, ckpts, pendRm, saves, files, returned, oracle, snapAt, nops, nck, nre, nrt, zombies, ngc, dropped, nfl, objs>>
GetBegin(k) == \E at \in GetHolds : GetBeginAt(k, at)

ReadValue == LET k == CHOOSE k \in rd.arg : TRUE
                 m == IF Dev_GetLevelsFirst THEN mem ELSE rd.capMem
                 l == IF Dev_GetLevelsFirst THEN rd.capLv ELSE lv
             IN GetResult(m, l, k)
GetEnd ==
  /\ rd.on /\ rd.kind = "get"
  /\ rd' = NoRead
  /\ Log([a |-> "GetEnd", k |-> CHOOSE k \in rd.arg : TRUE, demanded |-> oracle[CHOOSE k \in rd.arg : TRUE], predicted |-> ReadValue])
  /\ UNCHANGED <<seq, mem, lv, latest, wal, flushQ, flush, compQ, comp, nextTid, ckpts, pendRm, saves, files, returned, oracle, snapAt, nops, nrd, nck, nre, nrt, zombies, ngc, dropped, nfl, objs>>

\* Scan holds: "between" = between the two captures inside DB.ScanPrefix; "returned" = ScanPrefix has returned its
\* iterator, nothing pulled yet; "mid" = the consumer has pulled the first entry (or reached the end) and pauses.
ScanBeginAt(P, at) ==
  /\ ~rd.on /\ nrd < MaxReads /\ nrd' = nrd + 1
  /\ rd' = IF Dev_GetLevelsFirst
           THEN [on |-> TRUE, kind |-> "scan", arg |-> P, capMem |-> <<>>, capLv |-> lv]
           ELSE [on |-> TRUE, kind |-> "scan", arg |-> P, capMem |-> mem, capLv |-> <<>>]
  /\ Log([a |-> "ScanBegin", p |-> P, at |-> at])
  /\ UNCHANGED <<seq, mem, lv, latest, wal, flushQ, flush, compQ, comp, nextTid, ckpts, pendRm, saves, files, returned, oracle, snapAt, nops, nck, nre, nrt, zombies, ngc, dropped, nfl, objs>>
ScanBegin(P) == \E at \in ScanHolds : ScanBeginAt(P, at)

ScanValue == LET m == IF Dev_GetLevelsFirst THEN mem ELSE rd.capMem
                 l == IF Dev_GetLevelsFirst THEN rd.capLv ELSE lv
             IN ScanResult(m, l, rd.arg)
ScanEnd ==
  /\ rd.on /\ rd.kind = "scan"
  /\ rd' = NoRead
  /\ Log([a |-> "ScanEnd", p |-> rd.arg, demanded |-> [k \in rd.arg |-> oracle[k]], predicted |-> ScanValue])
  /\ UNCHANGED <<seq, mem, lv, latest, wal, flushQ, flush, compQ, comp, nextTid, ckpts, pendRm, saves, files, returned, oracle, snapAt, nops, nrd, nck, nre, nrt, zombies, ngc, dropped, nfl, objs>>

-----------------------------------------------------------------------------
\* background flush task (serialised by the global queue): start = snapshot the
\* sealed memtables and write one table file each; swap = install under db.mu
FlushStart ==
  /\ flushQ > 0 /\ ~flush.on
  /\ LET n == Len(mem) - 1
         tabs == [i \in 1..n |-> Table(nextTid + i - 1, mem[i])]
     IN /\ flush' = [on |-> TRUE, n |-> n, tabs |-> tabs]
        /\ nextTid' = nextTid + n
        /\ files' = [files EXCEPT !.sst = Override(@, [t \in {tabs[i].id : i \in 1..n} |->
                                             tabs[CHOOSE i \in 1..n : tabs[i].id = t].ents])]
  /\ flushQ' = flushQ - 1
  /\ Log([a |-> "FlushStart"])
  /\ UNCHANGED <<seq, mem, lv, latest, wal, compQ, comp, ckpts, pendRm, saves, returned, rd, oracle, snapAt, nops, nrd, nck, nre, nrt, zombies, ngc, dropped, nfl>>
  /\ objs' = objs \cup {nextTid + i - 1 : i \in 1..(Len(mem) - 1)}

FlushSwap ==
  /\ flush.on
  /\ lv' = <<lv[1] \o flush.tabs, lv[2]>>
  /\ latest' = Max({latest} \cup {flush.tabs[i].endSeq : i \in 1..flush.n})
  /\ mem' = SubSeq(mem, flush.n + 1, Len(mem))
  /\ wal' = WalTruncate(wal, latest')
  /\ flush' = NoFlush /\ compQ' = compQ + 1
  /\ Log([a |-> "FlushSwap"])
  /\ UNCHANGED <<seq, flushQ, comp, nextTid, ckpts, pendRm, saves, files, returned, rd, oracle, snapAt, dropped, objs, zombies, nops, nrd, nck, nre, nrt, ngc, nfl>>

\* background compaction (abstract policy: when L0 reaches the trigger, merge
\* all of L0 and L1 into one L1 table; tombstones dropped because L1 is the base)
CompactPickO(overlap) ==
  /\ compQ > 0 /\ ~comp.on
  /\ compQ' = compQ - 1
  /\ IF Len(lv[1]) >= L0Trigger
     THEN LET maps == Ents(lv[1]) \o Ents(lv[2])
              ks == UNION {DOMAIN maps[i] : i \in 1..Len(maps)}
              live == {k \in ks : Newest(maps, k).v # Tomb}
              merged == [k \in live |-> Newest(maps, k)]
              out == IF live = {} THEN <<>> ELSE <<Table(nextTid, merged)>>
          IN /\ comp' = [on |-> TRUE, picked |-> TabIds(lv), out |-> out]
             /\ nextTid' = nextTid + Len(out)
             /\ files' = IF out = <<>> THEN files
                         ELSE [files EXCEPT !.sst = Override(@, [t \in {nextTid} |-> merged])]
     ELSE UNCHANGED <<comp, nextTid, files, zombies, ngc, dropped, nfl>>
  \* overlap: the replayer lets a flush task that is waiting to start build its table while this compaction is creating
  \* its first output file (the two task queues run concurrently in the code; both take table ids from one TableWriter).
  \* A scheduling hint in the history, not state: the flush still swaps at its own FlushSwap step.
  /\ Log([a |-> "CompactPick", overlap |-> overlap])
  /\ UNCHANGED <<seq, mem, lv, latest, wal, flushQ, flush, ckpts, pendRm, saves, returned, rd, oracle, snapAt, nops, nrd, nck, nre, nrt, zombies, ngc, dropped, nfl>>
  /\ objs' = IF Len(lv[1]) >= L0Trigger THEN objs \cup {nextTid} ELSE objs

CompactPick == \E overlap \in BOOLEAN : CompactPickO(overlap)

CompactSwap ==
  /\ comp.on
  /\ LET keep(t) == t.id \notin comp.picked
     IN lv' = <<SelectSeq(lv[1], keep), SelectSeq(lv[2], keep) \o comp.out>>
  /\ latest' = Max({latest} \cup {comp.out[i].endSeq : i \in 1..Len(comp.out)})
  /\ comp' = NoComp
  /\ compQ' = compQ + 1   \* the task loops until Compact returns no change set
  /\ Log([a |-> "CompactSwap"])
  /\ UNCHANGED <<seq, mem, wal, flushQ, flush, nextTid, ckpts, pendRm, saves, files, returned, rd, oracle, snapAt, dropped, objs, zombies, nops, nrd, nck, nre, nrt, ngc, nfl>>

-----------------------------------------------------------------------------
\* checkpoints
CheckpointR(race) ==
  /\ ~rd.on /\ nck < MaxCkpt /\ nck' = nck + 1
  /\ LET id == nck + 1 + 10 * nre    \* caller-chosen, never repeated
     IN /\ ckpts' = Append(ckpts, [id |-> id, lv |-> lv, latest |-> latest, walId |-> wal.id,
                                   after |-> latest, lastSeq |-> seq])
        /\ saves' = saves \cup {[id |-> id, walId |-> wal.id, content |-> WalContent(wal), stage |-> "wal"]}
        /\ snapAt' = Override(snapAt, [i \in {id} |-> oracle])
        \* race: the replayer lets a flush / compaction parked before its swap go at the first storage call inside
        \* DB.Checkpoint. Checkpoint is one critical section (db.mu), so the swap can only take effect after it: the
        \* flag is a scheduling hint in the history, not state.
        /\ Log([a |-> "Checkpoint", id |-> id, snap |-> oracle, race |-> race])
  /\ wal' = WalRotate(wal)
  /\ UNCHANGED <<seq, mem, lv, latest, flushQ, flush, compQ, comp, nextTid, pendRm, files, returned, rd, oracle, nops, nrd, nre, nrt, zombies, ngc, dropped, nfl, objs>>

Checkpoint == \E race \in BOOLEAN : CheckpointR(race)

SaveWal(sv) ==
  /\ sv \in saves /\ sv.stage = "wal"
  /\ files' = [files EXCEPT !.wal = Override(@, [i \in {sv.walId} |-> sv.content])]
  /\ saves' = (saves \ {sv}) \cup {[sv EXCEPT !.stage = "doc"]}
  /\ Log([a |-> "SaveWal", id |-> sv.id])
  /\ UNCHANGED <<seq, mem, lv, latest, wal, flushQ, flush, compQ, comp, nextTid, ckpts, pendRm, returned, rd, oracle, snapAt, nops, nrd, nck, nre, nrt, zombies, ngc, dropped, nfl, objs>>

\* CheckpointList.Save: write the document with the *current* list, then delete
\* the WALs of checkpoints pending removal
PendWals == {c.walId : c \in pendRm}
SaveDocFiles == [files EXCEPT !.doc = ckpts, !.wal = Restrict(@, DOMAIN @ \ PendWals)]
SaveDoc(sv) ==
  /\ sv \in saves /\ sv.stage = "doc"
  /\ files' = SaveDocFiles /\ pendRm' = {}
  /\ saves' = saves \ {sv}
  /\ returned' = returned \cup {sv.id}
  /\ Log([a |-> "SaveDoc", id |-> sv.id])
  /\ UNCHANGED <<seq, mem, lv, latest, wal, flushQ, flush, compQ, comp, nextTid, ckpts, rd, oracle, snapAt, nops, nrd, nck, nre, nrt, zombies, ngc, dropped, nfl, objs>>

\* UpdateRetainedCheckpoints(ids): RetainOnly + Save (the caller is the job's
\* retention notice, which only ever names completed = returned checkpoints)
Retain(ids) ==
  /\ nrt < MaxRetain /\ nrt' = nrt + 1
  /\ ids # {} /\ ids \subseteq returned
  /\ \E i \in 1..Len(ckpts) : ckpts[i].id \in ids      \* otherwise the code panics by design
  /\ LET top == Max(ids)
         \* repaired code: a checkpoint newer than every named id is still being completed job-wide and is kept
         keepCp(c) == c.id \in ids \/ (~Dev_RetainDropsNewer /\ c.id > top)
         gone == {ckpts[i].walId : i \in {j \in 1..Len(ckpts) : ~keepCp(ckpts[j])}}
     IN /\ ckpts' = SelectSeq(ckpts, keepCp)
        /\ files' = [files EXCEPT !.doc = SelectSeq(ckpts, keepCp), !.wal = Restrict(@, DOMAIN @ \ (PendWals \cup gone))]
        /\ pendRm' = {}
        \* what the caller knowingly gave up: completed checkpoints older than the newest it names
        /\ dropped' = dropped \cup {ckpts[i].id : i \in {j \in 1..Len(ckpts) : ckpts[j].id \notin ids /\ ckpts[j].id < top}}
  /\ Log([a |-> "Retain", ids |-> ids])
  /\ UNCHANGED <<seq, mem, lv, latest, wal, flushQ, flush, compQ, comp, nextTid, saves, returned, rd, oracle, snapAt, zombies, nops, nrd, nck, nre, ngc, nfl, objs>>

\* UpdateRetainedCheckpoints whose save of the checkpoints document FAILS (storage
\* fault): the in-memory list is already reduced, the dropped checkpoints wait
\* in checkpointsPendingRemoval; nothing durable changes; a later successful
\* save (SaveDoc or Retain) removes their WALs
RetainFail(ids) ==
  /\ nfl < MaxFail /\ nfl' = nfl + 1
  /\ ids # {} /\ ids \subseteq returned
  /\ \E i \in 1..Len(ckpts) : ckpts[i].id \in ids
  /\ LET top == Max(ids)
         keepCp(c) == c.id \in ids \/ (~Dev_RetainDropsNewer /\ c.id > top)
         gone == {ckpts[i] : i \in {j \in 1..Len(ckpts) : ~keepCp(ckpts[j])}}
     IN /\ ckpts' = SelectSeq(ckpts, keepCp)
        /\ pendRm' = pendRm \cup gone
        /\ dropped' = dropped \cup {ckpts[i].id : i \in {j \in 1..Len(ckpts) : ckpts[j].id \notin ids /\ ckpts[j].id < top}}
  /\ Log([a |-> "RetainFail", ids |-> ids])
  /\ UNCHANGED <<seq, mem, lv, latest, wal, flushQ, flush, compQ, comp, nextTid, saves, files, returned, rd, oracle, snapAt, zombies, nops, nrd, nck, nre, nrt, ngc, objs>>

-----------------------------------------------------------------------------
\* opening a database from a checkpoint handle = pure function of durable state
DocCp(id) == LET idx == {i \in 1..Len(files.doc) : files.doc[i].id = id}
             IN files.doc[CHOOSE i \in idx : TRUE]
HasDocCp(id) == \E i \in 1..Len(files.doc) : files.doc[i].id = id

\* entry maps of the checkpoint's tables as read from the files now
FileEnts(tabs) == [i \in 1..Len(tabs) |-> IF tabs[i].id \in DOMAIN files.sst THEN files.sst[tabs[i].id] ELSE EmptyMt]

\* dkv.Start: take the level list of the checkpoint, continue sequence numbers
\* from its LatestSeqNum, replay the WAL entries after `after` through Put/Delete
Opened(id) ==
  LET cp == DocCp(id)
      f == IF cp.walId \in DOMAIN files.wal THEN files.wal[cp.walId] ELSE <<>>
      missing == cp.walId \notin DOMAIN files.wal
      bad == f # <<>> /\ cp.after + 1 < f[1].s
      skip == IF f = <<>> THEN 0 ELSE cp.after - f[1].s + 1
      rest == IF skip >= Len(f) THEN <<>> ELSE SubSeq(f, skip + 1, Len(f))
      st0 == [mem |-> <<EmptyMt>>, wal |-> [id |-> cp.walId + 1, sealed |-> <<>>, active |-> <<>>, lastW |-> 0],
              flushQ |-> 0, seq |-> cp.latest, rot |-> FALSE]
      RECURSIVE Replay(_, _)
      Replay(st, i) == IF i > Len(rest) THEN st ELSE Replay(ApplyWrite(st, rest[i].k, rest[i].v), i + 1)
      tabsNow(ts) == [i \in 1..Len(ts) |-> [ts[i] EXCEPT !.ents =
                        IF ts[i].id \in DOMAIN files.sst THEN files.sst[ts[i].id] ELSE EmptyMt]]
  IN [ok |-> ~missing /\ ~bad, cp |-> cp, st |-> IF missing \/ bad THEN st0 ELSE Replay(st0, 1),
      lv |-> <<tabsNow(cp.lv[1]), tabsNow(cp.lv[2])>>]

\* logical content of the database opened from checkpoint id (or Panic)
Restored(id) ==
  LET o == Opened(id)
  IN [ok |-> o.ok, m |-> [k \in Keys |-> IF o.ok THEN GetResult(o.st.mem, o.lv, k) ELSE Tomb]]

\* abandon the process and open a new database from a returned, retained handle
Reopen(id, crash) ==
  /\ ~rd.on /\ nre < MaxReopen /\ nre' = nre + 1
  /\ id \in returned /\ HasDocCp(id) /\ Opened(id).ok
  /\ id \notin dropped   \* the job restarts from a checkpoint it still retains (newer local ones may exist: they are given up)
  /\ LET o == Opened(id)
     IN /\ mem' = o.st.mem /\ wal' = o.st.wal /\ flushQ' = o.st.flushQ /\ seq' = o.st.seq
        /\ lv' = o.lv /\ latest' = o.cp.latest
        /\ ckpts' = <<o.cp>>
        /\ nextTid' = IF Dev_TableIdReuse THEN 0 ELSE Max(TabIds(o.cp.lv) \cup {nextTid - 1}) + 1
        /\ oracle' = snapAt[id]
  /\ flush' = NoFlush /\ compQ' = 0 /\ comp' = NoComp /\ pendRm' = {} /\ saves' = {}
  /\ nck' = 0
  \* crash: the old process is gone, nothing of it runs any more.  Same process
  \* (operator redeploy): the replaced instance's tables stay until collected.
  /\ zombies' = IF crash THEN {} ELSE zombies \cup TabIds(lv) \cup UNION {TabIds(ckpts[i].lv) : i \in 1..Len(ckpts)}
  /\ (~crash) => (~flush.on /\ ~comp.on /\ saves = {})   \* the replaced instance is quiescent
  /\ Log([a |-> "Reopen", id |-> id, crash |-> crash, demanded |-> snapAt[id], predicted |-> Restored(id)])
  /\ dropped' = (returned \cup {ckpts[i].id : i \in 1..Len(ckpts)}) \ {id}     \* a restart keeps working from this checkpoint only
  /\ UNCHANGED <<files, returned, rd, snapAt, nops, nrd, nrt, ngc, nfl>>
  /\ objs' = IF crash THEN TabIds(Opened(id).lv) ELSE objs \cup TabIds(Opened(id).lv)

\* runtime.GC(): every table object nothing refers to is collected and its
\* cleanup deletes the file - unless (repaired code) another table object of
\* this process still uses the file
LiveTabIds == TabIds(lv) \cup UNION {TabIds(ckpts[i].lv) : i \in 1..Len(ckpts)} \cup UNION {TabIds(c.lv) : c \in pendRm}
              \cup {flush.tabs[i].id : i \in 1..Len(flush.tabs)} \cup comp.picked
              \cup {comp.out[i].id : i \in 1..Len(comp.out)}
GcRun ==
  /\ ~rd.on /\ ngc < MaxGc /\ ngc' = ngc + 1
  /\ LET dead == IF Dev_GcIgnoresSharing THEN (objs \ LiveTabIds) \cup zombies
                 ELSE objs \ LiveTabIds
     IN /\ files' = [files EXCEPT !.sst = Restrict(@, DOMAIN @ \ dead)]
        /\ objs' = objs \ dead
  /\ zombies' = {}
  /\ Log([a |-> "GcRun", demanded |-> oracle])
  /\ UNCHANGED <<seq, mem, lv, latest, wal, flushQ, flush, compQ, comp, nextTid, ckpts, pendRm, saves, returned, rd, oracle, snapAt, nops, nrd, nck, nre, nrt, dropped, nfl>>

-----------------------------------------------------------------------------
Done == FALSE
Next ==
  /\ Len(hist) < MaxLen
  /\ \/ \E k \in Keys, v \in Vals \cup {Tomb} : Write(k, v)
     \/ \E k \in Keys : GetBegin(k)
     \/ GetEnd
     \/ \E P \in Prefixes : ScanBegin(P)
     \/ ScanEnd
     \/ FlushStart \/ FlushSwap \/ CompactPick \/ CompactSwap
     \/ Checkpoint
     \/ \E sv \in saves : SaveWal(sv) \/ SaveDoc(sv)
     \/ \E ids \in SUBSET returned : Retain(ids) \/ RetainFail(ids)
     \/ \E id \in returned, crash \in BOOLEAN : Reopen(id, crash)
     \/ GcRun

Spec == Init /\ [][Next]_vars

-----------------------------------------------------------------------------
\* properties

\* C07: whenever a read could complete now, what the code computes is the oracle
GetOK == (rd.on /\ rd.kind = "get") => ReadValue = oracle[CHOOSE k \in rd.arg : TRUE]
ScanOK == (rd.on /\ rd.kind = "scan") => ScanValue = [k \in rd.arg |-> oracle[k]]

\* the retained checkpoints named by the saved document
Retained == {files.doc[i].id : i \in 1..Len(files.doc)}
\* C08: from the moment a handle is returned, for as long as it is retained
RestoreBad == \E id \in returned \ dropped : (~HasDocCp(id)) \/ LET r == Restored(id) IN (~r.ok) \/ r.m # snapAt[id]
RestoreOK == ~RestoreBad

\* C09 (files half): everything a retained checkpoint document names exists
\* with the content it had when the checkpoint was taken
FilesSafe ==
  \A i \in {j \in 1..Len(files.doc) : files.doc[j].id \notin dropped} :
    LET cp == files.doc[i]
    IN /\ \A l \in 1..2 : \A j \in 1..Len(cp.lv[l]) :
            cp.lv[l][j].id \in DOMAIN files.sst /\ files.sst[cp.lv[l][j].id] = cp.lv[l][j].ents
       /\ (cp.id \in returned => cp.walId \in DOMAIN files.wal)
LiveTablesExist == \A l \in 1..2 : \A j \in 1..Len(lv[l]) :
                      lv[l][j].id \in DOMAIN files.sst /\ files.sst[lv[l][j].id] = lv[l][j].ents

\* C09 (reclaim half): once a retention update is saved, WALs referenced only by dropped checkpoints are gone
WalReclaimed == [][nrt' = nrt + 1 =>
                    \A i \in 1..Len(ckpts) :      \* checkpoints this database instance knows
                        (\A j \in 1..Len(ckpts') : ckpts'[j].walId # ckpts[i].walId)
                           => ckpts[i].walId \notin DOMAIN files'.wal
                    /\ \A w \in PendWals : w \notin DOMAIN files'.wal]_vars

\* sequence numbers: the level list never claims more than was written
SeqOK == latest <= seq

\* counterexample export (used with Dev_* = TRUE): print the history of every bad state
LastBad == Len(hist) > 0 /\ LET h == hist[Len(hist)]
                            IN h.a \in {"GetEnd", "ScanEnd"} /\ h.predicted # h.demanded
CexDump == (LastBad \/ RestoreBad \/ ~FilesSafe \/ ~LiveTablesExist) => PrintT(<<"BEHAVIOUR", ToJson(hist)>>)

Dump == (Len(hist) >= MaxLen \/ ~ENABLED Next) => PrintT(<<"BEHAVIOUR", ToJson(hist)>>)
=============================================================================
