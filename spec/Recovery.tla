---------------------------- MODULE Recovery ----------------------------
(* C01 - exactly-once keyed state across worker failure and recovery.

   Implementation-shaped model of one reduction cluster at MESSAGE granularity
   (one action per adapter call of harness/cluster, i.e. per RPC of the real
   system): W workers (worker w = source runner w + operator w), the job's
   checkpoint coordinator, the job's snapshot storage.

     runner r   : Read(r,s)            reader hands the next record of split s to the event loop;
                                       the keyed event is queued on the runner's output stream
                  SrStart(r)           StartCheckpoint(n) is taken by the event loop: cursor snapshot,
                                       SourceRunnerCheckpointComplete sent (the loop blocks in the call)
                  JobSrAck(r)          the job records the ack; the call returns; the runner queues
                                       barrier n behind everything it has read (one copy per operator)
     channel    : out[r] is the runner's output stream (FIFO); the dispatcher hands the head message to
                  the sender goroutine of its operator when that goroutine is idle, otherwise it BLOCKS
                  (head-of-line): slot[r][o] is the one HandleEventBatch call in flight per (r,o)
     operator o : Deliver(r,o)         the call in slot[r][o] enters the operator:
                                         event   - parks if r's barrier is already registered (alignment),
                                                   else joins the pending batch (processed when full)
                                         barrier - registered; the LAST one flushes the pending batch,
                                                   takes the DKV checkpoint (snap) and sends
                                                   OperatorCheckpointComplete (the loop blocks in the call)
                  TimerFire(o)         batching time-out: the pending batch is processed
                  JobOpAck(o)          the job records the ack; the operator resumes; parked events enter
     job        : Tick                 create checkpoint, StartCheckpoint to every runner
                  Publish              the completed checkpoint is written to storage
     faults     : Kill(S)              any non-empty set of live nodes (workers, job) dies at ANY state;
                                       messages already in flight from a dead node may still be delivered
                  Restart              everything left is stopped; new job + fresh workers restore from
                                       the newest published checkpoint (cursors + operator snapshots)

   Operators hold an ABSTRACT keyed store st[o] (DKV correctness is C07/C08).
   The handler is the reference handler of harness/cluster: event e=<<s,i>> of
   key k: cnt[e] += 1, last[k,s] = i.

   Dev_AssignUnsorted = TRUE models DESIGN 7 #20 (partitioning.AssignRanges
   sweeps the old operator checkpoints assuming they are sorted by key range;
   they are in ACK order): on Restart an operator may get no checkpoint.

   RESCALE AT RECOVERY. W is the LARGEST worker count; nw is the count of the
   running generation (nodes nw+1..W do not exist: all their variables stay
   empty). Restart(n) boots n \in Counts workers: splits are re-assigned to
   runner ((s-1) % n)+1 (the harness splitter), key ownership is recomputed
   like partitioning.KeySpace (G key groups cut into n contiguous ranges, the
   first G % n one longer) and new operator t restores from the checkpoints of
   the old operators whose range OVERLAPS its own (jobs.Assembly.Deploy +
   partitioning.AssignRanges), keeping only the keys it owns (DataOwnership).
   G = 0 is the legacy mode: Counts = {W} and OwnerDigits names the owners.

   PUBLICATION. A checkpoint whose last ack arrived is handed to storage
   asynchronously (snapshots.Store.finishSnapshot): it sits in pubs until
   Publish(p) writes it. Overlap = TRUE lets the job create the next checkpoint
   while publications are still in flight (the store only refuses while one is
   PENDING), so two writes can be in flight and land in either order; a write
   that lands after a newer one is superseded (its file is removed again), a
   restart always loads the highest id present.

   SURVIVORS (Survive = TRUE). What the real system does after a Kill: only the
   killed workers are replaced; the others keep their Operator / SourceRunner
   objects and are deployed again in place by the job when it re-assembles (the
   first N registered operators in id order: a survivor may move to another
   position, i.e. another key-group range). BY DESIGN a redeployed node keeps
   nothing but its identity - keyed state, cursors, barriers, batches, queued
   output all start over from the checkpoint - so the survivors flavour of
   Restart is the same Reset, with these differences:
     * a job that was not killed survives: its checkpoint id counter goes on and
       it deploys from the checkpoint it holds; the previous assembly's pending
       checkpoint AND its complete checkpoints whose snapshot is still being
       written are given up (snapshots.Store.DiscardPendingCheckpoint): a
       checkpoint that appeared after the re-assembly would not be an ancestor of
       the new assembly's state, yet be what the next recovery loads.
       Dev_LatePublication = TRUE is the code as it is: only the pending one is
       discarded, writes in flight land after the re-assembly. In this model that
       is harmless (the checkpoint is a consistent cut); in the real system the
       files it names are no longer protected by anybody (known finding);
     * HandleEventBatch calls of the old assembly that are still in flight to an
       operator that survives (slot, not yet inside) become LATE messages: they
       may be delivered to the redeployed survivor at any later moment
       (LateDeliver) and must have NO effect. Calls to killed nodes hang.
   Which identity sits at which position is the replayer's business (it knows the
   ids); the model's positions 1..nw are those of the current assembly.       *)
EXTENDS Integers, Sequences, FiniteSets, TLC, Json

CONSTANTS W,          \* workers (the largest count when the job is rescaled at recovery)
          Rescale,    \* worker counts a generation may have (Init and Restart choose one); {} = always W
          G,          \* key groups (0 = legacy: owners given by OwnerDigits, Counts = {W})
          GroupDigits,\* G > 0: decimal digits, one per key: the key group (1..G) of key k
          Overlap,    \* may a checkpoint be created while a publication is in flight
          Survive,    \* Restart is the SURVIVORS flavour (see below) instead of "everything fresh"
          Dev_LatePublication, \* survivors: the code as it is - a surviving job does NOT give up the previous assembly's snapshot writes
          NSplits,    \* splits 1..NSplits; split s is read by runner ((s-1) % nw)+1
          NRecs,      \* records per split
          KeyDigits,  \* decimal digits, one per record (split 1 first): the key (1..9) of every record,
                      \* e.g. 1221 = split 1: keys 1,2 ; split 2: keys 2,1 (a cfg file cannot hold tuples)
          OwnerDigits,\* decimal digits, one per key: the operator owning key k, e.g. 12
          B,          \* operator batch size (1 = every event processed on delivery)
          MaxCkpt,    \* checkpoints created per behaviour
          MaxKills,   \* Kill actions per behaviour
          KillJob,    \* may the job be killed
          MaxLen,     \* behaviour length bound (generation; large for exhaustive runs)
          StopAtDone, \* generation: stop a behaviour at quiescence
          KillDilution, \* generation: a Kill is a candidate step with probability 1/KillDilution
          PubDilution,  \* generation: a Publish is a candidate step with probability 1/PubDilution (writes stay in flight)
          Dev_AssignUnsorted

Workers == 1..W
Splits  == 1..NSplits
Ev      == Splits \X (1..NRecs)
RECURSIVE Pow10(_)
Pow10(n) == IF n = 0 THEN 1 ELSE 10 * Pow10(n - 1)
RECURSIVE NDigits(_)
NDigits(n) == IF n < 10 THEN 1 ELSE 1 + NDigits(n \div 10)
Digit(code, len, p) == (code \div Pow10(len - p)) % 10      \* p-th digit from the left of a len-digit number
Counts == IF Rescale = {} THEN {W} ELSE Rescale
NK == IF G = 0 THEN NDigits(OwnerDigits) ELSE NDigits(GroupDigits)          \* number of keys
Grp == [k \in 1..NK |-> IF G = 0 THEN 0 ELSE Digit(GroupDigits, NK, k) - 1]   \* 0-based key group of key k
\* partitioning.keyGroupRanges(G, n): range i (0-based) starts at RStart(n, i); the first G % n ranges are one longer
Min2(a, b) == IF a < b THEN a ELSE b
RStart(n, i) == i * (G \div n) + Min2(i, G % n)
RangeOf(n, g) == CHOOSE i \in 1..n : RStart(n, i - 1) <= g /\ g < RStart(n, i)
\* the operator owning key k when there are n workers
OwnerAt == [n \in Counts |-> [k \in 1..NK |->
              IF G = 0 THEN Digit(OwnerDigits, NK, k) ELSE RangeOf(n, Grp[k])]]
\* do the key group ranges of operator t (of n) and operator f (of m) overlap
Overlaps(n, t, m, f) == RStart(n, t - 1) < RStart(m, f) /\ RStart(m, f - 1) < RStart(n, t)
ASSUME Counts \subseteq 1..W /\ Counts # {} /\ (G = 0 => Counts = {W}) /\ (G > 0 => \A n \in Counts : n <= G)
\* KeyDigits = 0: formula mode for inputs too long for a 32-bit integer (trace validation)
KeyOf == [s \in Splits |-> [i \in 1..NRecs |->
            IF KeyDigits = 0 THEN ((s * 7 + i * 3) % NK) + 1
            ELSE Digit(KeyDigits, NSplits * NRecs, (s - 1) * NRecs + i)]]
Keys    == 1..NK
Key(e)  == KeyOf[e[1]][e[2]]

Max(S) == CHOOSE x \in S : \A y \in S : y <= x
PrevSame(e) == LET c == {j \in 1..(e[2] - 1) : KeyOf[e[1]][j] = Key(e)} IN IF c = {} THEN 0 ELSE Max(c)

\* ---- abstract keyed store ------------------------------------------------
EmptySt == [cnt |-> [e \in Ev |-> 0], last |-> [ks \in Keys \X Splits |-> 0]]
ApplyOne(s, e) == [cnt  |-> [s.cnt EXCEPT ![e] = IF @ < 2 THEN @ + 1 ELSE 2],
                   last |-> [s.last EXCEPT ![<<Key(e), e[1]>>] = e[2]]]
RECURSIVE ApplySeq(_, _)
ApplySeq(s, q) == IF q = <<>> THEN s ELSE ApplySeq(ApplyOne(s, Head(q)), Tail(q))
\* what the handler is GIVEN for every event of a batch (state + earlier events of the batch)
RECURSIVE GivenSeq(_, _)
GivenSeq(s, q) ==
  IF q = <<>> THEN <<>>
  ELSE LET e == Head(q) IN
       <<[s |-> e[1], i |-> e[2], cnt |-> s.cnt[e], last |-> s.last[<<Key(e), e[1]>>]]>>
       \o GivenSeq(ApplyOne(s, e), Tail(q))
CleanGiven(g) == g.cnt = 0 /\ g.last = PrevSame(<<g.s, g.i>>)
\* the state of the failure-free run after the first cur[s] records of every split s
CutStAt(n, o, cur) ==
  [cnt  |-> [e \in Ev |-> IF OwnerAt[n][Key(e)] = o /\ e[2] <= cur[e[1]] THEN 1 ELSE 0],
   last |-> [ks \in Keys \X Splits |->
               LET c == {j \in 1..cur[ks[2]] : KeyOf[ks[2]][j] = ks[1] /\ OwnerAt[n][ks[1]] = o}
               IN IF c = {} THEN 0 ELSE Max(c)]]

\* ---- messages ------------------------------------------------------------
NoMsg == [to |-> 0, k |-> "none", s |-> 0, i |-> 0, n |-> 0]
None == [n |-> 0]

VARIABLES nw,        \* worker count of the running generation (nodes 1..nw exist)
          dead,      \* set of dead nodes
          cursor,    \* cursor[s] = records of split s read
          out,       \* out[r]: the runner's output stream
          slot,      \* slot[r][o]: the HandleEventBatch call in flight (at the gate or inside the operator)
          inside,    \* inside[r][o]: that call has entered the operator and is blocked there
          pend,      \* pend[o]: the operator's pending event batch
          st,        \* st[o]: keyed state
          bar,       \* bar[o]: runners whose barrier of the current checkpoint is registered
          opack,     \* opack[o]: OperatorCheckpointComplete in flight [n, snap] or None
          startq,    \* startq[r]: StartCheckpoint(n) in flight to runner r (0 = none)
          srack,     \* srack[r]: SourceRunnerCheckpointComplete in flight [n, cur] or None
          ckptId, pending, pubs, completed,  \* job coordinator / storage (pubs: writes in flight)
          nck, nkills, clean, lostOps, hist,
          late,      \* survivors: calls of earlier assemblies still in flight to an operator identity that is alive
          epoch      \* restarts so far (names the assembly a late message comes from); neither is part of the VIEW

vars == <<nw, dead, cursor, out, slot, inside, pend, st, bar, opack, startq, srack,
          ckptId, pending, pubs, completed, nck, nkills, clean, lostOps, hist, late, epoch>>
view == <<nw, dead, cursor, out, slot, inside, pend, st, bar, opack, startq, srack,
          ckptId, pending, pubs, completed, nck, nkills, clean, lostOps>>

Live        == 1..nw
Own(e)      == OwnerAt[nw][Key(e)]
RunnerOf(s) == ((s - 1) % nw) + 1
SplitsOf(r) == {s \in Splits : RunnerOf(s) = r}
Nodes       == Live \cup (IF KillJob THEN {0} ELSE {})   \* 0 = the job
CutSt(o, cur) == CutStAt(nw, o, cur)
EvMsg(e) == [to |-> Own(e), k |-> "ev", s |-> e[1], i |-> e[2], n |-> 0]
BarMsgs(n) == [o \in Live |-> [to |-> o, k |-> "bar", s |-> 0, i |-> 0, n |-> n]]   \* a sequence, operator order

\* w: the worker count of the generation that takes the checkpoint
NoCkpt == [n |-> 0, w |-> 0, sr |-> {}, ops |-> <<>>, cur |-> [s \in Splits |-> 0], snaps |-> [o \in Workers |-> EmptySt]]

Init == /\ nw \in Counts
        /\ dead = {} /\ cursor = [s \in Splits |-> 0] /\ out = [r \in Workers |-> <<>>]
        /\ slot = [r \in Workers |-> [o \in Workers |-> NoMsg]]
        /\ inside = [r \in Workers |-> [o \in Workers |-> FALSE]]
        /\ pend = [o \in Workers |-> <<>>] /\ st = [o \in Workers |-> EmptySt] /\ bar = [o \in Workers |-> {}]
        /\ opack = [o \in Workers |-> None] /\ startq = [r \in Workers |-> 0] /\ srack = [r \in Workers |-> None]
        /\ pending = NoCkpt /\ pubs = {}
        /\ ckptId = 0 /\ completed = NoCkpt /\ nck = 0 /\ nkills = 0 /\ clean = TRUE /\ lostOps = {} /\ hist = <<>>
        /\ late = {} /\ epoch = 0

\* a new generation: fresh job + n fresh workers over cursors curs and operator states sts
Reset(n, curs, sts) ==
  /\ nw' = n /\ dead' = {} /\ cursor' = curs /\ out' = [r \in Workers |-> <<>>]
  /\ slot' = [r \in Workers |-> [o \in Workers |-> NoMsg]]
  /\ inside' = [r \in Workers |-> [o \in Workers |-> FALSE]]
  /\ pend' = [o \in Workers |-> <<>>] /\ st' = sts /\ bar' = [o \in Workers |-> {}]
  /\ opack' = [o \in Workers |-> None] /\ startq' = [r \in Workers |-> 0] /\ srack' = [r \in Workers |-> None]
  /\ pending' = NoCkpt
  \* a surviving job gives up the previous assembly's checkpoints: the pending one and (intended design) the
  \* complete ones still being written; Dev_LatePublication: those writes still land (Publish after the Restart)
  /\ pubs' = IF Survive /\ 0 \notin dead /\ Dev_LatePublication THEN pubs ELSE {}

\* the history is only kept when generating behaviours (values that never reach the VIEW stay
\* un-normalised and TLC cannot spill them to its disk queue)
\* every step carries w = the worker count of the generation it runs in (Restart: of the generation it boots)
Log(r) == hist' = IF StopAtDone THEN Append(hist, r @@ [w |-> nw]) ELSE hist

\* the dispatcher: hand head messages to idle sender goroutines, stop at the first busy one
RECURSIVE Settle(_, _)
Settle(q, sl) == IF q = <<>> THEN <<q, sl>>
                 ELSE LET m == Head(q) IN
                      IF sl[m.to] = NoMsg THEN Settle(Tail(q), [sl EXCEPT ![m.to] = m]) ELSE <<q, sl>>

\* new calls appearing at the (r,o) gates in this step (for the replayer)
Arrivals(sl2) == {[r |-> r, o |-> o, k |-> sl2[r][o].k, s |-> sl2[r][o].s, i |-> sl2[r][o].i, n |-> sl2[r][o].n] :
                    <<r, o>> \in {p \in Workers \X Workers : sl2[p[1]][p[2]] # NoMsg /\ sl2[p[1]][p[2]] # slot[p[1]][p[2]]}}

\* ---- runner --------------------------------------------------------------
Read(r, s) ==
  /\ r \notin dead /\ s \in SplitsOf(r) /\ cursor[s] < NRecs /\ srack[r] = None
  /\ LET e  == <<s, cursor[s] + 1>>
         z  == Settle(Append(out[r], EvMsg(e)), slot[r])
         sl == [slot EXCEPT ![r] = z[2]]
     IN /\ cursor' = [cursor EXCEPT ![s] = @ + 1]
        /\ out' = [out EXCEPT ![r] = z[1]] /\ slot' = sl
        /\ Log([a |-> "Read", r |-> r, s |-> s, i |-> e[2], arr |-> Arrivals(sl)])
  /\ UNCHANGED <<late, epoch, nw, dead, inside, pend, st, bar, opack, startq, srack, ckptId, pending, pubs, completed, nck, nkills, clean, lostOps>>

SrStart(r) ==
  /\ r \notin dead /\ startq[r] # 0 /\ srack[r] = None
  /\ srack' = [srack EXCEPT ![r] = [n |-> startq[r], cur |-> [s \in SplitsOf(r) |-> cursor[s]]]]
  /\ startq' = [startq EXCEPT ![r] = 0]
  /\ Log([a |-> "SrStart", r |-> r, n |-> startq[r], cur |-> [s \in Splits |-> IF s \in SplitsOf(r) THEN cursor[s] ELSE -1]])
  /\ UNCHANGED <<late, epoch, nw, dead, cursor, out, slot, inside, pend, st, bar, opack, ckptId, pending, pubs, completed, nck, nkills, clean, lostOps>>

Complete(p) == p.sr = Live /\ Len(p.ops) = nw

JobSrAck(r) ==
  /\ 0 \notin dead /\ srack[r] # None /\ pending.n = srack[r].n
  /\ LET p == [pending EXCEPT !.sr = @ \cup {r},
                              !.cur = [s \in Splits |-> IF s \in SplitsOf(r) THEN srack[r].cur[s] ELSE @[s]]]
         q  == IF r \in dead THEN out[r] ELSE out[r] \o BarMsgs(srack[r].n)
         z  == Settle(q, slot[r])
         sl == [slot EXCEPT ![r] = z[2]]
     IN /\ IF Complete(p) THEN pubs' = pubs \cup {p} /\ pending' = NoCkpt ELSE pending' = p /\ pubs' = pubs
        /\ out' = [out EXCEPT ![r] = z[1]] /\ slot' = sl
        /\ Log([a |-> "JobSrAck", r |-> r, n |-> srack[r].n, arr |-> Arrivals(sl), done |-> Complete(p)])
  /\ srack' = [srack EXCEPT ![r] = None]
  /\ UNCHANGED <<late, epoch, nw, dead, cursor, inside, pend, st, bar, opack, startq, ckptId, completed, nck, nkills, clean, lostOps>>

\* ---- operator ------------------------------------------------------------
\* add events q to operator o's batch starting from <<pend, state>>; process whenever the batch is full
RECURSIVE Feed(_, _, _)
Feed(pd, s, q) ==   \* -> [pend, st, giv]
  IF q = <<>> THEN [pend |-> pd, st |-> s, giv |-> <<>>]
  ELSE LET pd2 == Append(pd, Head(q)) IN
       IF Len(pd2) >= B
       THEN LET rest == Feed(<<>>, ApplySeq(s, pd2), Tail(q))
            IN [pend |-> rest.pend, st |-> rest.st, giv |-> GivenSeq(s, pd2) \o rest.giv]
       ELSE Feed(pd2, s, Tail(q))

AllClean(giv) == \A j \in 1..Len(giv) : CleanGiven(giv[j])

\* settle every runner after slots sl were freed
SettleAll(sl) == [r \in Workers |-> Settle(out[r], sl[r])]

Deliver(r, o) ==
  /\ o \notin dead /\ slot[r][o] # NoMsg /\ ~inside[r][o] /\ opack[o] = None
  /\ LET m == slot[r][o] IN
     IF m.k = "ev" /\ r \in bar[o]
     THEN \* alignment: the sender is parked inside the operator
          /\ inside' = [inside EXCEPT ![r][o] = TRUE]
          /\ Log([a |-> "Deliver", r |-> r, o |-> o, k |-> "ev", s |-> m.s, i |-> m.i, res |-> "parked", giv |-> <<>>, arr |-> {}])
          /\ UNCHANGED <<out, slot, pend, st, bar, opack, clean>>
     ELSE IF m.k = "ev"
     THEN LET f   == Feed(pend[o], st[o], << <<m.s, m.i>> >>)
              sl0 == [slot EXCEPT ![r][o] = NoMsg]
              z   == Settle(out[r], sl0[r])
              sl  == [sl0 EXCEPT ![r] = z[2]]
          IN /\ pend' = [pend EXCEPT ![o] = f.pend] /\ st' = [st EXCEPT ![o] = f.st]
             /\ clean' = (clean /\ AllClean(f.giv))
             /\ out' = [out EXCEPT ![r] = z[1]] /\ slot' = sl
             /\ Log([a |-> "Deliver", r |-> r, o |-> o, k |-> "ev", s |-> m.s, i |-> m.i, res |-> "done", giv |-> f.giv, arr |-> Arrivals(sl)])
             /\ UNCHANGED <<inside, bar, opack>>
     ELSE IF bar[o] \cup {r} # Live
     THEN \* barrier registered, more to come: the call returns
          LET sl0 == [slot EXCEPT ![r][o] = NoMsg]
              z   == Settle(out[r], sl0[r])
              sl  == [sl0 EXCEPT ![r] = z[2]]
          IN /\ bar' = [bar EXCEPT ![o] = @ \cup {r}]
             /\ out' = [out EXCEPT ![r] = z[1]] /\ slot' = sl
             /\ Log([a |-> "Deliver", r |-> r, o |-> o, k |-> "bar", n |-> m.n, res |-> "registered", giv |-> <<>>, arr |-> Arrivals(sl)])
             /\ UNCHANGED <<inside, pend, st, opack, clean>>
     ELSE \* last barrier: flush the pending batch, DKV checkpoint, ack in flight (operator blocked in the call)
          LET giv == GivenSeq(st[o], pend[o])
              s2  == ApplySeq(st[o], pend[o])
          IN /\ bar' = [bar EXCEPT ![o] = Live]
             /\ pend' = [pend EXCEPT ![o] = <<>>] /\ st' = [st EXCEPT ![o] = s2]
             /\ clean' = (clean /\ AllClean(giv))
             /\ opack' = [opack EXCEPT ![o] = [n |-> m.n, snap |-> s2]]
             /\ inside' = [inside EXCEPT ![r][o] = TRUE]
             /\ Log([a |-> "Deliver", r |-> r, o |-> o, k |-> "bar", n |-> m.n, res |-> "snapshot", giv |-> giv, arr |-> {}])
             /\ UNCHANGED <<out, slot>>
  /\ UNCHANGED <<late, epoch, nw, dead, cursor, startq, srack, ckptId, pending, pubs, completed, nck, nkills, lostOps>>

TimerFire(o) ==
  /\ B > 1 /\ o \notin dead /\ pend[o] # <<>> /\ opack[o] = None
  /\ LET giv == GivenSeq(st[o], pend[o]) IN
     /\ st' = [st EXCEPT ![o] = ApplySeq(@, pend[o])] /\ pend' = [pend EXCEPT ![o] = <<>>]
     /\ clean' = (clean /\ AllClean(giv))
     /\ Log([a |-> "TimerFire", o |-> o, giv |-> giv])
  /\ UNCHANGED <<late, epoch, nw, dead, cursor, out, slot, inside, bar, opack, startq, srack, ckptId, pending, pubs, completed, nck, nkills, lostOps>>

\* parked events of operator o, in runner order
RECURSIVE ParkedEvs(_, _)
ParkedEvs(o, r) == IF r > W THEN <<>>
                   ELSE (IF inside[r][o] /\ slot[r][o].k = "ev" THEN << <<slot[r][o].s, slot[r][o].i>> >> ELSE <<>>)
                        \o ParkedEvs(o, r + 1)

JobOpAck(o) ==
  /\ 0 \notin dead /\ opack[o] # None /\ pending.n = opack[o].n
  /\ LET p == [pending EXCEPT !.ops = Append(@, o), !.snaps = [@ EXCEPT ![o] = opack[o].snap]] IN
     /\ IF Complete(p) THEN pubs' = pubs \cup {p} /\ pending' = NoCkpt ELSE pending' = p /\ pubs' = pubs
     /\ opack' = [opack EXCEPT ![o] = None]
     /\ IF o \in dead
        THEN /\ Log([a |-> "JobOpAck", o |-> o, n |-> opack[o].n, giv |-> <<>>, arr |-> {}, done |-> Complete(p), resumed |-> FALSE])
             /\ UNCHANGED <<out, slot, inside, pend, st, bar, clean>>
        ELSE \* the operator resumes: every call blocked inside returns (barrier) or enters the loop (parked events)
             LET f   == Feed(pend[o], st[o], ParkedEvs(o, 1))
                 sl0 == [r \in Workers |-> IF inside[r][o] THEN [slot[r] EXCEPT ![o] = NoMsg] ELSE slot[r]]
                 z   == SettleAll(sl0)
                 sl  == [r \in Workers |-> z[r][2]]
             IN /\ bar' = [bar EXCEPT ![o] = {}]
                /\ inside' = [r \in Workers |-> [inside[r] EXCEPT ![o] = FALSE]]
                /\ pend' = [pend EXCEPT ![o] = f.pend] /\ st' = [st EXCEPT ![o] = f.st]
                /\ clean' = (clean /\ AllClean(f.giv))
                /\ out' = [r \in Workers |-> z[r][1]] /\ slot' = sl
                /\ Log([a |-> "JobOpAck", o |-> o, n |-> opack[o].n, giv |-> f.giv, arr |-> Arrivals(sl), done |-> Complete(p), resumed |-> TRUE])
  /\ UNCHANGED <<late, epoch, nw, dead, cursor, startq, srack, ckptId, completed, nck, nkills, lostOps>>

\* ---- job ------------------------------------------------------------------
Tick ==
  /\ dead = {} /\ pending = NoCkpt /\ (Overlap \/ pubs = {}) /\ nck < MaxCkpt
  /\ \A r \in Workers : startq[r] = 0
  /\ ckptId' = ckptId + 1 /\ nck' = nck + 1
  /\ pending' = [NoCkpt EXCEPT !.n = ckptId + 1, !.w = nw]
  /\ startq' = [r \in Workers |-> IF r \in Live THEN ckptId + 1 ELSE 0]
  /\ Log([a |-> "Tick", n |-> ckptId + 1, inflight |-> {q.n : q \in pubs}])
  /\ UNCHANGED <<late, epoch, nw, dead, cursor, out, slot, inside, pend, st, bar, opack, srack, pubs, completed, nkills, clean, lostOps>>

\* the write of p lands; a write that lands after a newer one is superseded (the file is removed again,
\* nothing ever refers to it): storage keeps the highest id
Publish(p) ==
  /\ 0 \notin dead /\ p \in pubs
  /\ completed' = IF p.n > completed.n THEN p ELSE completed
  /\ pubs' = pubs \ {p}
  /\ Log([a |-> "Publish", n |-> p.n, cur |-> p.cur, ops |-> p.ops, sup |-> p.n < completed.n,
          snaps |-> [o \in Workers |-> [cnt |-> {e \in Ev : p.snaps[o].cnt[e] > 0}]]])
  /\ UNCHANGED <<late, epoch, nw, dead, cursor, out, slot, inside, pend, st, bar, opack, startq, srack, ckptId, pending, nck, nkills, clean, lostOps>>

\* ---- faults ---------------------------------------------------------------
Kill(S) ==
  /\ S # {} /\ S \subseteq (Nodes \ dead) /\ nkills < MaxKills
  /\ dead' = {x \in Nodes : x \in dead \/ x \in S} /\ nkills' = nkills + 1
  /\ out' = [r \in Workers |-> IF r \in S THEN <<>> ELSE out[r]]
  /\ IF 0 \in S THEN pending' = NoCkpt /\ pubs' = {} /\ startq' = [r \in Workers |-> 0]
     ELSE UNCHANGED <<pending, pubs>> /\ startq' = [r \in Workers |-> IF r \in S THEN 0 ELSE startq[r]]
  /\ Log([a |-> "Kill", nodes |-> {x \in Nodes : x \in S}])
  /\ UNCHANGED <<late, epoch, nw, cursor, slot, inside, pend, st, bar, opack, srack, ckptId, completed, nck, clean, lostOps>>

\* partitioning.AssignRanges with operator ranges abstracted to their index:
\* to = <<1..W>>, from = completed.ops (ack order). Sweep(t, f) -> sequence of sets of positions in from
RECURSIVE Skip(_, _, _)
Skip(from, f, t) == IF f <= Len(from) /\ from[f] < t THEN Skip(from, f + 1, t) ELSE f
RECURSIVE Take(_, _, _)
Take(from, j, t) == IF j <= Len(from) /\ from[j] <= t
                    THEN (IF from[j] = t THEN {j} ELSE {}) \cup Take(from, j + 1, t) ELSE {}
RECURSIVE Sweep(_, _, _)
Sweep(from, t, f) == IF t > W THEN <<>>
                     ELSE LET f2 == Skip(from, f, t) IN <<Take(from, f2, t)>> \o Sweep(from, t + 1, f2)
\* the old operators (of the c.w that took checkpoint c) whose checkpoints new operator t (of n) is deployed with
Assigned(c, n, t) ==
  IF G = 0 THEN (IF Dev_AssignUnsorted /\ Sweep(c.ops, 1, 1)[t] = {} THEN {} ELSE {t})
  ELSE {f \in 1..c.w : Overlaps(n, t, c.w, f)}
MaxOr0(S) == IF S = {} THEN 0 ELSE Max(S)
\* operator t (of n) opens its DKV on the assigned checkpoints and keeps the keys it owns
Restored(c, n, t) ==
  IF c.n = 0 \/ t > n THEN EmptySt
  ELSE LET fs == Assigned(c, n, t) IN
       [cnt  |-> [e \in Ev |-> IF OwnerAt[n][Key(e)] = t THEN MaxOr0({c.snaps[f].cnt[e] : f \in fs}) ELSE 0],
        last |-> [ks \in Keys \X Splits |->
                    IF OwnerAt[n][ks[1]] = t THEN MaxOr0({c.snaps[f].last[ks] : f \in fs}) ELSE 0]]

Restart(n) ==
  /\ dead # {} /\ n \in Counts
  /\ LET sts  == [o \in Workers |-> Restored(completed, n, o)]
         lost == {o \in 1..n : completed.n # 0 /\ sts[o] # CutStAt(n, o, completed.cur)}
         \* survivors: calls of this assembly at the gate of an operator that stays alive
         nl   == IF ~Survive \/ ~StopAtDone THEN {}     \* (generation only: late messages never influence the state graph)
                 ELSE {[g |-> epoch, r |-> p[1], o |-> p[2], k |-> slot[p[1]][p[2]].k, s |-> slot[p[1]][p[2]].s,
                        i |-> slot[p[1]][p[2]].i, n |-> slot[p[1]][p[2]].n] :
                         p \in {q \in Workers \X Workers : slot[q[1]][q[2]] # NoMsg /\ ~inside[q[1]][q[2]] /\ q[2] \notin dead}}
     IN /\ Reset(n, completed.cur, sts)
        /\ lostOps' = {o \in Workers : o \in lostOps \/ o \in lost}
        /\ late' = late \cup nl /\ epoch' = epoch + 1
        /\ Log([a |-> "Restart", n |-> completed.n, w |-> n, cur |-> completed.cur, lost |-> lost,
                surv |-> Survive, killed |-> dead, g |-> epoch, late |-> nl])
  /\ (Survive => n = nw)                                         \* the worker count belongs to the job's configuration
  /\ ckptId' = IF Survive /\ 0 \notin dead THEN ckptId ELSE completed.n
  /\ UNCHANGED <<completed, nck, nkills, clean>>

\* a call of an earlier assembly reaches the (redeployed) operator it was sent to: no effect by design
LateDeliver(m) ==
  /\ m \in late /\ late' = late \ {m}
  /\ Log([a |-> "LateDeliver", g |-> m.g, r |-> m.r, o |-> m.o, k |-> m.k, s |-> m.s, i |-> m.i, n |-> m.n])
  /\ UNCHANGED <<epoch, nw, dead, cursor, out, slot, inside, pend, st, bar, opack, startq, srack,
                 ckptId, pending, pubs, completed, nck, nkills, clean, lostOps>>


\* ---- termination ----------------------------------------------------------
Drained == \A s \in Splits : cursor[s] = NRecs
Quiescent == /\ dead = {}
             /\ \A r \in Workers : out[r] = <<>> /\ srack[r] = None /\ startq[r] = 0
             /\ \A r, o \in Workers : slot[r][o] = NoMsg
             /\ \A o \in Workers : pend[o] = <<>> /\ opack[o] = None
             /\ pending = NoCkpt /\ pubs = {}
Done == Quiescent /\ Drained
\* generation stops at quiescence only once the kill budget is used (so kills also hit completed runs)
GenDone == Done /\ nkills = MaxKills

\* bounded behaviours; generation stops at GenDone
En == Len(hist) < MaxLen /\ (StopAtDone => ~GenDone)
\* job / restart actions under the names TLC's coverage report counts them by (top-level disjuncts of Next)
TickIdle             == En /\ pubs = {} /\ Tick
TickOverlap          == En /\ pubs # {} /\ Tick                    \* a checkpoint created while a publication is in flight
Slow(i) == StopAtDone => RandomElement(1..PubDilution) = 1   \* (a parameter keeps TLC from evaluating it once)
PublishNewest(i)     == En /\ Slow(i) /\ \E p \in pubs : p.n = i /\ p.n > completed.n /\ Publish(p)
PublishSuperseded(i) == En /\ Slow(i) /\ \E p \in pubs : p.n = i /\ p.n < completed.n /\ Publish(p)   \* a write that lands after a newer one
RestartSame(n)       == En /\ ~StopAtDone /\ n = nw /\ Restart(n)
RestartRescaled(n)   == En /\ ~StopAtDone /\ n # nw /\ Restart(n)   \* rescale at recovery
GenRestart           == En /\ StopAtDone /\ Restart(RandomElement(Counts))
\* generation with diluted publications: a step that changes nothing (and logs nothing) keeps the
\* simulator from stopping a behaviour in which the only thing left to do is a write it chose not to perform
GenLate              == En /\ StopAtDone /\ \E m \in late : LateDeliver(m)      \* (no effect: only generated, never part of the state graph)
GenIdle              == En /\ StopAtDone /\ PubDilution > 1 /\ pubs # {} /\ UNCHANGED vars

\* everything else: runner / operator / ack steps and Kill
Others ==
  /\ En
  /\ \/ \E r \in Workers : \/ \E s \in Splits : Read(r, s)
                           \/ SrStart(r) \/ JobSrAck(r) \/ TimerFire(r) \/ JobOpAck(r)
                           \/ \E o \in Workers : Deliver(r, o)
     \/ IF StopAtDone
        THEN \* generation: one random candidate set, diluted, so that kills spread over the behaviour
             (Quiescent \/ RandomElement(1..KillDilution) = 1) /\ Kill(RandomElement(SUBSET Nodes \ {{}}))
        ELSE \E S \in SUBSET Nodes : Kill(S)

Next ==
  \/ Others
  \/ TickIdle \/ TickOverlap \/ GenRestart \/ GenIdle \/ GenLate
  \/ \E i \in 1..MaxCkpt : PublishNewest(i) \/ PublishSuperseded(i)     \* ids never exceed the number of checkpoints created
  \/ \E n \in Counts : RestartSame(n) \/ RestartRescaled(n)

Spec == Init /\ [][Next]_vars

-----------------------------------------------------------------------------
\* C01
NoDouble == \A o \in Workers, e \in Ev : st[o].cnt[e] <= 1
SeenIsClean == clean
NoLoss == Done => \A e \in Ev : st[Own(e)].cnt[e] = 1
FinalState == Done => \A o \in Workers : st[o] = CutSt(o, [s \in Splits |-> NRecs])
\* every checkpoint handed to storage is the failure-free state at its own cursors
CutOK(c) == c.n # 0 => \A o \in Workers : c.snaps[o] = CutStAt(c.w, o, c.cur)
ConsistentCut == CutOK(completed) /\ \A p \in pubs : CutOK(p)
NoLostOps == lostOps = {}

TypeOK == /\ nw \in Counts /\ dead \subseteq Nodes /\ nck \in 0..MaxCkpt /\ nkills \in 0..MaxKills
          /\ \A s \in Splits : cursor[s] \in 0..NRecs

\* Behaviour export (simulation): one JSON line per finished behaviour
Dump == (GenDone \/ Len(hist) >= MaxLen) => PrintT(<<"BEHAVIOUR", ToJson(hist)>>)
=============================================================================
