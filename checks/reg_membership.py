ENGINES = [dict(name="Membership", path="spec/Membership.tla", serves_properties=["C15"],
                kind_free_text="TLA+ spec of jobs.Job membership handling (registry sorted by id, liveness map + clock, status machine, evaluate after every "
                               "membership event, asynchronous start() that may fail) together with what an old assembly can leave behind (store pending checkpoint, "
                               "registered splitters, operators' in-flight checkpoint); TLC safety exhaustive + liveness under weak fairness; behaviours replayed on the "
                               "real jobs.Job with fake nodes and fault skeletons executed on real operators / source runners (harness/cmd/membership); the periodic checkpoint "
                               "ticker is model state (created at Running, stopped at every pause) and the replayers drive a harness-owned clock whose tickers honour Stop")]
CHECKS = {
    "C15": dict(engine="Membership",
                technique="TLA+/TLC model checking of Membership.tla (safety exhaustive, liveness under fairness); TLC behaviours replayed on the real jobs.Job + snapshots.Store "
                          "with recording fake nodes; fault skeletons of the same behaviours executed on real workers where progress is required",
                text="TLC proves DeployOnlyToLiveFull, StopsUsingDeadAssembly, RedeployFromNewest and NoLeftover (no pending checkpoint / splitter / operator checkpoint of an old "
                     "assembly survives into a running one) in every reachable state for WorkerCount 1-2 with up to 2 standby workers and <= 7 exhaustive (9 simulated) "
                     "membership / fault / tick events incl. kills during deployment and with a checkpoint open, and RunsAgain / CheckpointsResume under weak fairness on the "
                     "unconstrained small spec (each of the three named leftovers makes the liveness check fail). Hundreds of simulated behaviours are replayed on the real "
                     "jobs.Job on a frozen clock with fake nodes: every Deploy / StartCheckpoint target set is judged (exactly WorkerCount registered live operators and runners, "
                     "every member redeployed, from the newest published checkpoint) and a model-free epilogue demands Running and a new published checkpoint. Fault skeletons "
                     "extracted from the same behaviours (kill / graceful stop / delayed heartbeats; idle, during deployment, checkpoint in progress; standby or not; failing "
                     "or hanging calls to the dead worker) run on real operators and source runners with one surviving job: a new job checkpoint must be published within "
                     "10 ticks and the operators of the running assembly must keep processing.",
                note="Bounded: WorkerCount <= 2, <= 2 standby; time in heartbeat-deadline periods on a frozen clock (ticker Stop is not observable on FrozenClock); Deploy to a dead "
                     "node is assumed to fail (the production HTTP client can retry for ever); messages of an earlier deployment reaching a redeployed node are C01's subject; "
                     "arm (b) restarts workers like an orchestrator; RPC layer replaced by in-process adapters."),
}
