"""C02, fault arm: barrier alignment under request cancellation and handler failures.

spec/Align.tla's environment has fault actions (CancelCaller, ArmHandlerFail, the batch time-out, `stopped`), each
switched by a constant. This module
  * model checks the fault environment exhaustively for small constants (every REPORTED checkpoint is the demanded
    cut; nothing post-barrier is applied before a failure was handed out; an operator that handed out a failure never
    reports again),
  * replays TLC-simulated fault behaviours in lockstep on a real operator.Operator (every caller has its own
    cancellable context; the harness-owned handler fails on demand / when its context is done; the harness-owned
    job refuses a report whose context is done),
  * replays, in every run, the witness schedules TLC generates from the spec with one deviation switched on
    (Dev_CtxAwareWait, Dev_SwallowFlushError, Dev_IgnoreBarrierFlushError, Dev_ReportWithoutCancel): schedules that only
    the deviating design follows to a forbidden state. The real operator must leave each of them at the deviating step;
    if it follows one to its end the judge sees the forbidden observation (VIOLATION),
  * records free-running seeded runs with faults bound to points of the run and validates them with AlignTrace.tla.
Verdicts only come from observations of the real operator: the content of every checkpoint reported to the job (read
back by deploying a fresh operator from it) and the handler calls applied while a delivered barrier's checkpoint was
open."""
import json
from concurrent.futures import ThreadPoolExecutor
import vlib

FINVS = ["NotEarly", "DoomOnlyByFault"]
FPROPS = ["NoReportAfterDoom"]
DEVS = ("Dev_CtxAwareWait", "Dev_SwallowFlushError", "Dev_IgnoreBarrierFlushError", "Dev_ReportWithoutCancel",
        "Dev_SwallowEventFlushError", "Dev_SwallowWatermarkFlushError")


def lib():
    import c02
    return c02


def F(honour=True, cancel=1, hfail=1, **kw):
    return lib().K(MaxCancel=cancel, MaxHFail=hfail, HonourCtx=honour, **kw)


def exhaustive(c, consts, timeout=1500):
    L = lib()
    r = vlib.run_tlc("Align", cfg=dict(constants=consts, invariants=L.INVS + FINVS, properties=L.PROPS + FPROPS, view="view"),
                     timeout=timeout, workers=4)
    c.add_tlc(r, "Align exhaustive, faults on %s" % json.dumps(consts))
    return r


def shape(behs):
    """what the generated fault behaviours contain (vacuity guard + evidence)"""
    n = dict(behaviours=len(behs), CancelCaller=0, cancel_while_parked=0, cancel_while_queued=0, cancel_in_barrier=0, cancel_between_calls=0,
             ArmHandlerFail=0, failed_size_flush=0, failed_watermark_flush=0, failed_barrier_flush=0, failed_report=0,
             failed_timeout_flush_stop=0, timeout_flush=0, reported_checkpoints=0, doomed_handler_calls=0)
    for b in behs:
        for s in b:
            a = s["a"]
            if a == "CancelCaller":
                n["CancelCaller"] += 1
                n[{"parked": "cancel_while_parked", "pass": "cancel_while_queued", "loop": "cancel_in_barrier"}.get(s["pc"], "cancel_between_calls")] += 1
            elif a == "ArmHandlerFail":
                n["ArmHandlerFail"] += 1
            elif a == "LoopEvent" and s.get("err"):
                n["failed_size_flush"] += 1
            elif a == "LoopWatermark" and s.get("err"):
                n["failed_watermark_flush"] += 1
            elif a == "LoopBarrier" and s.get("last") and s.get("err"):
                n["failed_barrier_flush"] += 1
            elif a == "CompleteCheckpoint":
                n["failed_report" if s.get("err") else "reported_checkpoints"] += 1
            elif a == "LoopBatchTimeout":
                n["timeout_flush"] += 1
                if s.get("stop"):
                    n["failed_timeout_flush_stop"] += 1
            if s.get("allow", {}).get("doomed") and s.get("calls"):
                n["doomed_handler_calls"] += len(s["calls"])
    return n


def add(total, part):
    for k, v in part.items():
        total[k] = total.get(k, 0) + v


def payload_of(c, consts, behs, witness=None):
    cfg = dict(consts)
    if witness:
        cfg["Witness"] = witness
    return dict(property="C02", arm="faults", seed=c.seed, config=cfg, behaviours=behs)


def nat_set(n):
    return "@{" + ", ".join(str(i) for i in range(n + 1)) + "}"


def gen_sim(consts, n, seed):
    # spread the faults over the behaviour: none before 0..(all but two) items were sent (chosen per behaviour)
    consts = dict(consts, MaxLen=400, FaultFrom=nat_set(consts["NS"] * consts["MaxScript"] - 2))
    behs, r = vlib.gen_behaviours("Align", consts, n, 400, seed)
    return consts, behs[:n], r


def gen_witness(dev, consts, limit, num, seed):
    consts = dict(consts, MaxLen=400, FaultFrom=nat_set(3))
    behs, r = vlib.gen_counterexamples("Align", consts, limit=limit, num=num, depth=45, seed=seed, timeout=120)
    return dev, consts, behs, r


def gen_witness_bfs(dev, consts, limit, seed):
    """witnesses too rare for random simulation: TLC enumerates the whole (small) state graph with CexDump as its only
    invariant and prints one shortest history per forbidden state; a seeded choice among the shortest is replayed"""
    import random
    consts = dict(consts, MaxLen=400, FaultFrom="@{0}")
    r = vlib.run_tlc("Align", cfg=dict(constants=consts, invariants=["CexDump"], view="view"), workers=2, timeout=300, name="Align-cexbfs")
    if not r.ok:
        raise vlib.MachineryError("witness enumeration failed for %s: %s %s" % (dev, r.error, r.violated))
    behs = sorted(r.behaviours, key=lambda b: (len(b), json.dumps(b, sort_keys=True)))
    if behs:
        short = [b for b in behs if len(b) <= len(behs[0]) + 2]
        random.Random(seed).shuffle(short)
        behs = short[:limit]
    return dev, consts, behs, r


def witness_consts(dev, honour, **kw):
    """the smallest fault environment in which the deviation reaches a forbidden state"""
    d = dict(NS=2, K=2, MaxScript=4, MaxSize=2, MaxW=1)
    d.update(kw)
    if dev == "Dev_CtxAwareWait":
        return F(honour, cancel=1, hfail=0, Dev_CtxAwareWait=True, **d)
    if dev == "Dev_SwallowFlushError":
        return F(honour, cancel=0, hfail=1, Dev_SwallowFlushError=True, **d)
    if dev == "Dev_IgnoreBarrierFlushError":
        return F(honour, cancel=0, hfail=1, Dev_IgnoreBarrierFlushError=True, **d)
    if dev == "Dev_SwallowEventFlushError":
        return F(honour, cancel=0, hfail=1, Dev_SwallowEventFlushError=True, **d)
    if dev == "Dev_SwallowWatermarkFlushError":
        # a watermark's flush needs due timers (both runners' watermarks) and an acknowledged event pending in the batch:
        # enumerated exhaustively (gen_witness_bfs), hence one checkpoint and no batch timer
        d.update(K=1, MaxW=1, UseTimer=False, MaxFires=0)
        return F(honour, cancel=0, hfail=1, Dev_SwallowWatermarkFlushError=True, **d)
    if dev == "Dev_ReportWithoutCancel":
        # a report detached from the caller's context is only harmful together with a pre-checkpoint flush whose
        # error is ignored (the repaired defect): the witnesses are those of the pair
        return F(True, cancel=1, hfail=0, Dev_ReportWithoutCancel=True, Dev_IgnoreBarrierFlushError=True, **d)
    raise ValueError(dev)


def run(c):
    import time
    t0 = time.time()
    try:
        run_arm(c)
    finally:
        c.extra["fault_arm_wall_s"] = round(time.time() - t0, 1)


def run_arm(c):
    L = lib()
    s = c.seed * 1000 + 500
    quick = c.tier == "quick"
    # 1. the fault environment, exhaustively
    if quick:
        exhaustive(c, F(True, MaxScript=3, MaxW=1, MaxFires=1))
        exhaustive(c, F(False, MaxScript=3, MaxW=1, MaxFires=1))
        exhaustive(c, F(True, NS=2, K=1, MaxScript=3, MaxSize=1, MaxW=1, MaxFires=1))
    else:
        exhaustive(c, F(True, MaxScript=4, MaxW=1, MaxFires=1))
        exhaustive(c, F(False, MaxScript=4, MaxW=1, MaxFires=1))
        exhaustive(c, F(True, MaxScript=4, MaxSize=3, MaxW=0, MaxFires=1))
        exhaustive(c, F(True, cancel=2, hfail=2, MaxScript=3, MaxW=1, MaxFires=1))
        exhaustive(c, F(True, NS=2, K=1, MaxScript=3, MaxSize=1, MaxW=1, MaxFires=1, MaxSkip=0))
        exhaustive(c, F(True, NS=3, K=1, MaxScript=2, MaxW=0, MaxFires=1))
        r = vlib.run_tlc("Align", cfg=dict(constants=F(True, NS=3, K=2, MaxScript=5, MaxSize=2, MaxW=2, MaxFires=2, cancel=2, hfail=2),
                                           invariants=L.INVS + FINVS, properties=L.PROPS + FPROPS),
                         simulate=20000, depth=400, seed=s + 90, timeout=900, name="Align-fsim")
        c.add_tlc(r, "Align simulate x20000, faults on (NS=3 K=2 MaxScript=5)")

    # 2. generation (TLC -simulate, one worker each, four at a time)
    nsim = 60 if quick else 300
    nwit, wnum = (8, 700) if quick else (30, 6000)
    sims = [(F(True, NS=2, K=2, MaxScript=4, MaxSize=2), s + 1),
            (F(False, NS=3, K=2, MaxScript=4, MaxSize=2), s + 2),
            (F(True, NS=2, K=2, MaxScript=5, MaxSize=3), s + 3)]
    if not quick:
        sims += [(F(True, NS=3, K=3, MaxScript=6, MaxSize=2, MaxW=3, cancel=2, hfail=2), s + 4),
                 (F(False, NS=2, K=3, MaxScript=6, MaxSize=1, UseTimer=False, MaxFires=0, cancel=2, hfail=2), s + 5),
                 (F(True, NS=3, K=2, MaxScript=5, MaxSize=3, MaxW=2, cancel=1, hfail=2), s + 6)]
    wits = [("Dev_CtxAwareWait", witness_consts("Dev_CtxAwareWait", True), s + 11),
            ("Dev_CtxAwareWait", witness_consts("Dev_CtxAwareWait", False), s + 12),
            ("Dev_SwallowFlushError", witness_consts("Dev_SwallowFlushError", True), s + 13),
            ("Dev_IgnoreBarrierFlushError", witness_consts("Dev_IgnoreBarrierFlushError", True), s + 14),
            ("Dev_ReportWithoutCancel", witness_consts("Dev_ReportWithoutCancel", True), s + 15),
            ("Dev_SwallowEventFlushError", witness_consts("Dev_SwallowEventFlushError", False), s + 31),
            ("Dev_SwallowWatermarkFlushError", witness_consts("Dev_SwallowWatermarkFlushError", True), s + 32)]
    if not quick:
        wits += [("Dev_CtxAwareWait", witness_consts("Dev_CtxAwareWait", True, NS=3, MaxScript=5, MaxSize=3), s + 16),
                 ("Dev_SwallowFlushError", witness_consts("Dev_SwallowFlushError", False, NS=3, MaxScript=5, MaxSize=3, MaxFires=2), s + 17),
                 ("Dev_IgnoreBarrierFlushError", witness_consts("Dev_IgnoreBarrierFlushError", False, NS=3, MaxScript=5, MaxSize=3), s + 18),
                 ("Dev_ReportWithoutCancel", witness_consts("Dev_ReportWithoutCancel", True, NS=3, MaxScript=5, MaxSize=3), s + 19)]
    vlib.build("align")
    with ThreadPoolExecutor(max_workers=4) as ex:
        fs = [ex.submit(gen_sim, k, nsim, sd) for k, sd in sims]
        fw = [ex.submit(gen_witness_bfs, dev, k, nwit, sd) if dev == "Dev_SwallowWatermarkFlushError" else
              ex.submit(gen_witness, dev, k, nwit, wnum, sd) for dev, k, sd in wits]
        gsims = [f.result() for f in fs]
        gwits = [f.result() for f in fw]

    # 3. lockstep replay of simulated fault behaviours
    tot = {}
    for consts, behs, r in gsims:
        if not behs:
            raise vlib.MachineryError("no fault behaviours generated for %s" % consts)
        p = payload_of(c, consts, behs)
        res = L.run_align(c, p, "fault replay")
        c.add_harness(res, p, "Align fault replay %s" % json.dumps(consts))
        add(tot, shape(behs))
    c.extra["fault_replay_shape"] = tot
    for k in ("cancel_while_parked", "cancel_in_barrier", "failed_size_flush", "failed_barrier_flush", "failed_report",
              "failed_timeout_flush_stop", "reported_checkpoints", "doomed_handler_calls"):
        if not tot.get(k):
            L.vacuous(c, "fault behaviours never contain %s: vacuous (%s)" % (k, tot))
    c.sample(dict(kind="Align fault behaviour replayed on the real operator", config=gsims[0][0], steps=gsims[0][1][0][:16]))

    # 4. witness schedules of the deviations
    wsum = {}
    for dev, consts, behs, r in gwits:
        w = wsum.setdefault(dev, dict(witnesses=0, left_at_critical_step=0, not_followed=0, violations=0))
        if not behs:
            L.vacuous(c, "TLC found no witness schedule for %s with %s: the deviation constant is dead" % (dev, consts))
            continue
        p = payload_of(c, consts, behs, witness=dev)
        res = L.run_align(c, p, "witness " + dev)
        c.add_harness(res, p, "Align witness schedules of %s %s" % (dev, json.dumps(consts)))
        cn = res.get("counters", {})
        w["witnesses"] += len(behs)
        w["left_at_critical_step"] += cn.get("witness_left_at_critical_step", 0)
        w["not_followed"] += cn.get("witness_not_followed", 0)
        w["violations"] += len(res.get("violations", []))
    c.extra["fault_witnesses"] = wsum
    for dev, w in wsum.items():
        if w["witnesses"] and (w["left_at_critical_step"] + w["violations"]) * 5 < w["witnesses"] * 4:
            L.vacuous(c, "witness schedules of %s mostly did not reach their deviating step on the real operator: %s" % (dev, w))
    if gwits and gwits[0][2]:
        c.sample(dict(kind="witness schedule of Dev_CtxAwareWait (the real operator must not follow it)", steps=gwits[0][2][0][:16]))

    # 5. free-running runs with faults, validated by AlignTrace.tla
    tcfgs = [(dict(NS=3, K=2, MaxScript=6, MaxSize=2, UseTimer=True, MaxW=3, Runs=30 if quick else 250, Faults=True), s + 21)]
    if not quick:
        tcfgs += [(dict(NS=2, K=3, MaxScript=7, MaxSize=3, UseTimer=True, MaxW=3, Runs=250, Faults=True), s + 22),
                  (dict(NS=3, K=3, MaxScript=8, MaxSize=4, UseTimer=True, MaxW=3, Runs=200, Faults=True), s + 23)]
    for cfg, sd in tcfgs:
        fault_traces(c, cfg, sd)
    c.assumptions.extend([
        "fault arm: a runner stops at the first HandleEvent call that returns an error (the source runner does: errChan -> cancel); "
        "a cancelled request context stays cancelled for the rest of that runner's calls (the RPC handler loops over the batch with one "
        "context); 'delivered' = the HandleEvent call returned nil",
        "fault arm: the job client always honours the context of a report; the handler honours the context of its call or ignores it "
        "(HonourCtx, both explored); a handler failure is transient and leaves no partial effects",
        "fault arm: after a failed handler call or a failed report the operator instance is not expected to keep later events out of "
        "its state (it never reports a checkpoint again; if it does, the content is judged)",
    ])


def fault_traces(c, cfg, seed):
    L = lib()
    cfg = dict(cfg, Mode="trace")
    payload = dict(property="C02", arm="faults", seed=seed, config=cfg, mode="align-trace")
    res = L.run_align(c, payload, "fault trace")
    events = res.pop("samples", None) or []
    c.add_harness(dict(res, executed=0), payload, "Align free-running with faults %s" % json.dumps(cfg))
    if not events:
        L.vacuous(c, "fault trace mode recorded nothing")
        return
    ok, runs = L.validate(c, cfg, events, payload, "faults, seed %d" % seed)
    if ok:
        c.traces += len(runs)
        n = {}
        for e in events:
            k = e["op"] + ("(fail)" if e["op"] == "Call" and e.get("fail") else "") + ("(err)" if e["op"] == "Ret" and e.get("err") else "")
            n[k] = n.get(k, 0) + 1
        c.extra.setdefault("fault_trace_shape", []).append(dict(runs=len(runs), events=len(events), ops=n, counters=res.get("counters", {})))
        if not n.get("Cancel") or not n.get("Call(fail)") or not n.get("Cut"):
            L.vacuous(c, "recorded fault runs contain no cancellation / failed handler call / reported checkpoint: %s" % n)


def replay(c, payload):
    L = lib()
    if payload.get("mode") == "align-trace":
        fault_traces(c, payload["config"], payload["seed"])
        return
    res = L.run_align(c, payload, "replay")
    c.add_harness(res, payload, "fault arm replay")
