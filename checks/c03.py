"""C03 Keyed state behaves as a per-key map the handler fully controls - spec/KeyedState.tla.

Binding: the spec's composite keys are built from the byte strings of the replayer's concretisation tables and from
the key-group bytes computed by the repository's own partitioning package (harness `keyedstate`, Mode "tables");
TLC-generated behaviours are replayed on the real KeyedStateStore (+ TimerStore) over a real dkv.DB with the background
goroutines driven through the dkv gates (Mode "store"), and on a real operator.Operator whose handler is the harness
(Mode "operator")."""
import json
import vlib

RULE = ("TLC checks EncodingOK (composite keys of the aliasing-hostile tables are injective, per-key prefixes prefix-free, timers "
        "outside every prefix), StoreEq / FetchEq (what GetState decodes from the composite-key map is exactly the handler's own "
        "map, the same for every event of a batch) and OnlyOwnMutations over every history of batches, handler answers, timer "
        "writes, checkpoints and restores within the bounds; TLC-generated behaviours are executed on the real KeyedStateStore over "
        "a real dkv.DB (flush / compaction goroutines stepped through gates, also inside a fetch) and on a real operator.Operator; "
        "every state supplied to the handler / returned by GetState must be exactly the live cells of the key's shadow map")

INVS = ["TableSane", "StoreEq", "FetchEq", "TimersInvisible", "TypeOK"]
PROPS = ["OnlyOwnMutations"]
_tables = None


def tables():
    global _tables
    if _tables is None:
        res = vlib.run_harness("keyedstate", dict(property="C03", seed=0, config=dict(Mode="tables"), behaviours=[]))
        _tables = res["samples"][0]
    return _tables


def _t(seq):
    return "<<" + ", ".join(str(b) for b in seq) + ">>"


def _tt(lst):
    return "<<" + ", ".join(_t(x) for x in lst) + ">>"


def mc(conc, c):
    """the module that binds the byte tables (tuples cannot be written in a .cfg)"""
    tab = tables()[conc]
    defs = dict(KeyB=tab["KeyB"][:c["NK"]], KgB=tab["KgB"][:c["NK"]], NsB=tab["NsB"][:c["NN"]], EkB=tab["EkB"][:c["NE"]],
                TimeB=tab["TimeB"][:c["NT"]])
    text = "---- MODULE KeyedStateMC ----\nEXTENDS KeyedState\n" + "".join("MC_%s == %s\n" % (k, _tt(v)) for k, v in defs.items()) + "====\n"
    extra = "CONSTANTS\n" + "".join("  %s <- MC_%s\n" % (k, k) for k in defs)
    return {"KeyedStateMC.tla": text}, extra


def consts(**kw):
    c = dict(NK=3, NN=2, NE=2, NT=2, MaxBatch=2, MaxRet=2, MaxMut=3, MaxTimers=0, MaxBg=0, MaxCkpt=0, MaxRestore=0,
             MaxLen=1000, Sim=False, LenPrefixed=True, NsLenPrefixed=True, SchemaSplit=True)
    c.update(kw)
    return c


def exhaustive(c, conc, cs, label, invariants=None, properties=None, must_hold=True, timeout=900):
    files, extra = mc(conc, cs)
    r = vlib.run_tlc("KeyedStateMC", files=files, timeout=timeout, name="KeyedState-ex",
                     cfg=dict(constants=cs, invariants=INVS if invariants is None else invariants,
                              properties=PROPS if properties is None else properties, view="view", extra=extra))
    c.add_tlc(r, "%s (table %d)" % (label, conc), must_hold=must_hold)
    return r


def static(c, conc, nk=5, nn=3, ne=3, nt=3):
    """EncodingOK is a constant-level formula: one initial state suffices"""
    cs = consts(NK=nk, NN=nn, NE=ne, NT=nt, MaxMut=0, MaxBatch=1, MaxLen=0)
    return exhaustive(c, conc, cs, "EncodingOK %dx%dx%d cells, %d timer times" % (nk, nn, ne, nt), invariants=["TableSane", "EncodingOK"], properties=[],
                      timeout=120)


def self_test(c):
    """non-vacuity: with one ingredient of the encoding removed TLC must find a counterexample"""
    for dev, dyn in (("LenPrefixed", True), ("NsLenPrefixed", True), ("SchemaSplit", True)):
        cs = consts(MaxMut=2, MaxTimers=1, **{dev: False})
        files, extra = mc(0, cs)
        r = vlib.run_tlc("KeyedStateMC", files=files, timeout=120, name="KeyedState-self",
                         cfg=dict(constants=cs, invariants=["EncodingOK"], view="view", extra=extra))
        if r.ok or "EncodingOK" not in (r.error or "") + (r.violated or ""):
            c.errors.append("self-test: EncodingOK still holds with %s = FALSE (%s %s)" % (dev, r.error, r.violated))
        r = vlib.run_tlc("KeyedStateMC", files=files, timeout=120, name="KeyedState-self",
                         cfg=dict(constants=cs, invariants=["StoreEq", "FetchEq"], properties=PROPS, view="view", extra=extra))
        if r.violated not in ("StoreEq", "FetchEq", "OnlyOwnMutations"):
            c.errors.append("self-test: no counterexample to StoreEq/FetchEq with %s = FALSE (%s %s)" % (dev, r.error, r.violated))
        c.extra.setdefault("self_tests", []).append(dict(removed=dev, violated=r.violated))


def generate(c, conc, cs, num, depth, seed, check=True):
    files, extra = mc(conc, cs)
    invs = ["Dump"] + (["StoreEq", "FetchEq"] if check else [])
    r = vlib.run_tlc("KeyedStateMC", files=files, cfg=dict(constants=cs, invariants=invs, extra=extra), simulate=num, depth=depth,
                     seed=seed, timeout=600, name="KeyedState-gen")
    if r.error or r.violated:
        raise vlib.MachineryError("behaviour generation failed: %s %s\n%s" % (r.error, r.violated, r.out[-3000:]))
    seen, behs = set(), []
    for b in r.behaviours:
        # TLC evaluates Dump on every successor of the last-but-one state: keep one behaviour per such family
        k = json.dumps(b[:-1], sort_keys=True)
        if k not in seen:
            seen.add(k)
            behs.append(b)
    return behs, r


def sim_consts(nk, maxmut, maxlen, **kw):
    cs = consts(NK=nk, NN=3, NE=3, NT=3, MaxBatch=3, MaxRet=4, MaxMut=maxmut, MaxTimers=6, MaxBg=maxlen // 4, MaxCkpt=2, MaxRestore=1,
                MaxLen=maxlen, Sim=True)
    cs.update(kw)
    return cs


def replay_gen(c, mode, conc, cs, num, seed, label, memcap=60, l0=2, **hk):
    behs, r = generate(c, conc, cs, num, cs["MaxLen"] + 5, seed)
    c.add_tlc(r, "simulate x%d %s (table %d)" % (num, label, conc))
    cfg = dict(Mode=mode, Conc=conc, NK=cs["NK"], MaxBatch=cs["MaxBatch"], MemCap=memcap, L0Trigger=l0, Chunk=40)
    if mode == "operator":
        cfg["tune.dkv.memTableSize"] = memcap
    cfg.update(hk)
    payload = dict(property=c.prop, seed=seed, config=cfg, behaviours=behs)
    res = vlib.run_harness("keyedstate", payload, timeout=3000)
    c.add_harness(res, payload, "%s %s table %d MemCap=%d L0=%d (%d behaviours)" % (mode, label, conc, memcap, l0, len(behs)))
    if behs:
        c.sample(dict(kind="KeyedState behaviour replayed on the real %s" % ("operator.Operator" if mode == "operator" else "KeyedStateStore over dkv.DB"),
                      config=cfg, table=tables()[conc]["name"], steps=behs[0][:16]))
    return res


def vacuous(c, res, what, key, least):
    n = res.get("counters", {}).get(key, 0)
    if n < least:
        c.errors.append("vacuous replay: %s: %s = %d (< %d)" % (what, key, n, least))


def run(c):
    q = c.tier == "quick"
    # -- static encoding theorem, every table, all 5 x 3 x 3 cells
    for conc in range(len(tables())):
        static(c, conc)
    self_test(c)
    # -- exhaustive dynamics
    exhaustive(c, 0, consts(MaxMut=3, MaxBatch=2), "3 keys x 2 ns x 2 entry keys, <=3 mutations, batches <=2 events")
    exhaustive(c, 0, consts(MaxMut=2, MaxBatch=1, MaxTimers=1, MaxCkpt=1, MaxRestore=1), "<=2 mutations, timer, checkpoint+restore")
    if not q:
        exhaustive(c, 0, consts(MaxMut=4, MaxBatch=2), "3x2x2, <=4 mutations, batches <=2 events", timeout=1200)
        exhaustive(c, 2, consts(MaxMut=3, MaxBatch=2, MaxTimers=1), "3x2x2, <=3 mutations, 1 timer")
        exhaustive(c, 0, consts(NN=1, MaxMut=6, MaxBatch=1, MaxRet=6), "3 keys x 1 ns x 2 entry keys, <=6 mutations", timeout=1200)
        exhaustive(c, 3, consts(NK=2, NE=1, MaxMut=6, MaxBatch=2, MaxRet=3), "2 keys x 2 ns x 1 entry key, <=6 mutations", timeout=1200)
        exhaustive(c, 1, consts(MaxMut=2, MaxBatch=2, MaxTimers=2, MaxCkpt=1, MaxRestore=1), "3x2x2, <=2 mutations, timers, checkpoint+restore", timeout=1200)
    c.exhaustive = True
    # -- replay on the real store
    n = 60 if q else 400
    runs = [(0, 60, 2), (1, 700, 2), (2, 45, 1), (3, 90, 3), (0, 130, 2)]
    for i, (conc, memcap, l0) in enumerate(runs):
        nk = 3 if i % 2 == 0 else 5
        cs = sim_consts(nk, 30, 90 if q else 140)
        res = replay_gen(c, "store", conc, cs, n, c.seed * 100 + i, "%d keys" % nk, memcap=memcap, l0=l0)
        vacuous(c, res, "store replay %d" % i, "fetches_nonempty", 20)
        vacuous(c, res, "store replay %d" % i, "bg_steps", 20)
    # -- replay on the real operator
    oruns = [(2, 60, 2), (0, 60, 2)] if q else [(0, 60, 2), (1, 700, 2), (2, 45, 1), (3, 90, 3), (2, 130, 2)]
    for i, (conc, memcap, l0) in enumerate(oruns):
        nk = 5 if i % 2 == 0 else 3
        cs = sim_consts(nk, 30, 80 if q else 140)
        res = replay_gen(c, "operator", conc, cs, (25 if q else 250), c.seed * 100 + 50 + i, "%d keys" % nk, memcap=memcap, l0=l0)
        vacuous(c, res, "operator replay %d" % i, "fetches_nonempty", 10)
    c.assumptions += [
        "the handler answers only for keys of its batch; one operator per assembly, one source runner",
        "namespaces are valid UTF-8 strings shorter than 256 bytes (the protocol field is a string; its length is stored in one byte)",
        "keys / namespaces / entry keys / values from four fixed aliasing-hostile tables (prefix-related keys, 0x00 / 0xff bytes, empty strings, "
        ">=256-byte keys, shared and distinct key groups, key-group bytes on both sides of 0x80)",
        "DKV internals are C07's: here flush / compaction are steps that change nothing in the model and are forced onto the real goroutines",
    ]


def replay(c, path):
    payload = json.load(open(path))
    payload.pop("violation", None)
    res = vlib.run_harness("keyedstate", payload)
    c.add_harness(res, payload, "replay " + path)
