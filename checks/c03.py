"""C03 Keyed state behaves as a per-key map the handler fully controls - spec/KeyedState.tla.

Binding: the spec's composite keys are built from the byte strings of the replayer's concretisation tables and from
the key-group bytes computed by the repository's own partitioning package (harness `keyedstate`, Mode "tables");
TLC-generated behaviours are replayed on the real KeyedStateStore (+ TimerStore) over a real dkv.DB with the background
goroutines driven through the dkv gates (Mode "store"), and on a real operator.Operator whose handler is the harness
(Mode "operator")."""
import json
from concurrent.futures import ThreadPoolExecutor
import vlib

RULE = ("TLC checks EncodingOK (composite keys of the aliasing-hostile tables are injective, per-key prefixes prefix-free, timers "
        "outside every prefix), StoreEq / FetchEq (what GetState decodes from the composite-key map is exactly the handler's own "
        "map, the same for every event of a batch) and OnlyOwnMutations over every history of batches, handler answers, timer "
        "writes, checkpoints and restores within the bounds; TLC-generated behaviours are executed on the real KeyedStateStore over "
        "a real dkv.DB (flush / compaction goroutines stepped through gates, also inside a fetch) and on a real operator.Operator; "
        "every state supplied to the handler / returned by GetState must be exactly the live cells of the key's shadow map")

INVS = ["TableSane", "StoreEq", "FetchEq", "TimersInvisible", "TypeOK"]
PROPS = ["OnlyOwnMutations"]
_tables = None


def tables():
    global _tables
    if _tables is None:
        res = vlib.run_harness("keyedstate", dict(property="C03", seed=0, config=dict(Mode="tables"), behaviours=[]))
        _tables = res["samples"][0]
    return _tables


def _t(seq):
    return "<<" + ", ".join(str(b) for b in seq) + ">>"


def _tt(lst):
    return "<<" + ", ".join(_t(x) for x in lst) + ">>"


def mc(conc, c):
    """the module that binds the byte tables (tuples cannot be written in a .cfg)"""
    tab = tables()[conc]
    defs = dict(KeyB=tab["KeyB"][:c["NK"]], KgB=tab["KgB"][:c["NK"]], NsB=tab["NsB"][:c["NN"]], EkB=tab["EkB"][:c["NE"]],
                TimeB=tab["TimeB"][:c["NT"]])
    text = "---- MODULE KeyedStateMC ----\nEXTENDS KeyedState\n" + "".join("MC_%s == %s\n" % (k, _tt(v)) for k, v in defs.items()) + "====\n"
    extra = "CONSTANTS\n" + "".join("  %s <- MC_%s\n" % (k, k) for k in defs)
    return {"KeyedStateMC.tla": text}, extra


def consts(**kw):
    c = dict(NK=3, NN=2, NE=2, NT=2, MaxBatch=2, MaxRet=2, MaxMut=3, MaxTimers=0, MaxBg=0, MaxCkpt=0, MaxRestore=0,
             MaxLen=1000, Sim=False, LenPrefixed=True, NsLenPrefixed=True, SchemaSplit=True)
    c.update(kw)
    return c


def par(jobs, width=4):
    """run the thunks concurrently (each starts its own single-purpose TLC), results in order"""
    with ThreadPoolExecutor(max_workers=width) as ex:
        return [f.result() for f in [ex.submit(j) for j in jobs]]


def tlc(conc, cs, invariants=None, properties=None, timeout=900, workers=None):
    files, extra = mc(conc, cs)
    return vlib.run_tlc("KeyedStateMC", files=files, timeout=timeout, name="KeyedState-ex", workers=workers,
                        cfg=dict(constants=cs, invariants=INVS if invariants is None else invariants,
                                 properties=PROPS if properties is None else properties, view="view", extra=extra))


def exhaustive(c, conc, cs, label, timeout=900):
    r = tlc(conc, cs, timeout=timeout)
    c.add_tlc(r, "%s (table %d)" % (label, conc))
    return r


def static_and_self_test(c, nk=5, nn=3, ne=3, nt=3):
    """EncodingOK is a constant-level formula (one initial state suffices), checked for every table with all its cells.
    Non-vacuity: with one ingredient of the encoding removed TLC must refute EncodingOK and find a behaviour violating StoreEq."""
    cs = consts(NK=nk, NN=nn, NE=ne, NT=nt, MaxMut=0, MaxBatch=1, MaxLen=0)
    devs = ("LenPrefixed", "NsLenPrefixed", "SchemaSplit")
    jobs = [(lambda conc=conc: tlc(conc, cs, ["TableSane", "EncodingOK"], [], 120, 2)) for conc in range(len(tables()))]
    for dev in devs:
        ds = consts(MaxMut=2, MaxTimers=1, **{dev: False})
        jobs.append(lambda ds=ds: tlc(0, ds, ["EncodingOK"], [], 120, 2))
        jobs.append(lambda ds=ds: tlc(0, ds, ["StoreEq", "FetchEq"], PROPS, 120, 4))
    rs = par(jobs, 6)
    for conc in range(len(tables())):
        c.add_tlc(rs[conc], "EncodingOK %dx%dx%d cells, %d timer times (table %d: %s)" % (nk, nn, ne, nt, conc, tables()[conc]["name"]))
    for i, dev in enumerate(devs):
        a, b = rs[len(tables()) + 2 * i], rs[len(tables()) + 2 * i + 1]
        if a.ok or "EncodingOK" not in (a.error or "") + (a.violated or ""):
            c.errors.append("self-test: EncodingOK still holds with %s = FALSE (%s %s)" % (dev, a.error, a.violated))
        if b.violated not in ("StoreEq", "FetchEq", "OnlyOwnMutations"):
            c.errors.append("self-test: no counterexample to StoreEq/FetchEq with %s = FALSE (%s %s)" % (dev, b.error, b.violated))
        c.extra.setdefault("self_tests", []).append(dict(removed=dev, violated=b.violated))


def generate(c, conc, cs, num, depth, seed, check=True):
    files, extra = mc(conc, cs)
    invs = ["Dump"] + (["StoreEq", "FetchEq"] if check else [])
    r = vlib.run_tlc("KeyedStateMC", files=files, cfg=dict(constants=cs, invariants=invs, extra=extra), simulate=num, depth=depth,
                     seed=seed, timeout=600, name="KeyedState-gen")
    if r.error or r.violated:
        raise vlib.MachineryError("behaviour generation failed: %s %s\n%s" % (r.error, r.violated, r.out[-3000:]))
    seen, behs = set(), []
    for b in r.behaviours:
        # TLC evaluates Dump on every successor of the last-but-one state: keep one behaviour per such family
        k = json.dumps(b[:-1], sort_keys=True)
        if k not in seen:
            seen.add(k)
            behs.append(b)
    return behs, r


def sim_consts(nk, maxmut, maxlen, **kw):
    cs = consts(NK=nk, NN=3, NE=3, NT=3, MaxBatch=3, MaxRet=4, MaxMut=maxmut, MaxTimers=6, MaxBg=maxlen // 4, MaxCkpt=2, MaxRestore=1,
                MaxLen=maxlen, Sim=True)
    cs.update(kw)
    return cs


def replay_gen(c, mode, conc, cs, num, seed, label, memcap=60, l0=2, gen=None, **hk):
    behs, r = gen or generate(c, conc, cs, num, cs["MaxLen"] + 5, seed)
    if not hk.pop("again", False):
        c.add_tlc(r, "simulate x%d %s (table %d)" % (num, label, conc))
    cfg = dict(Mode=mode, Conc=conc, NK=cs["NK"], MaxBatch=cs["MaxBatch"], MemCap=memcap, L0Trigger=l0, Chunk=40)
    if mode == "operator":
        cfg["tune.dkv.memTableSize"] = memcap
    cfg.update(hk)
    payload = dict(property=c.prop, seed=seed, config=cfg, behaviours=behs)
    res = vlib.run_harness("keyedstate", payload, timeout=3000)
    c.add_harness(res, payload, "%s %s table %d MemCap=%d L0=%d (%d behaviours)" % (mode, label, conc, memcap, l0, len(behs)))
    if behs:
        c.sample(dict(kind="KeyedState behaviour replayed on the real %s" % ("operator.Operator" if mode == "operator" else "KeyedStateStore over dkv.DB"),
                      config=cfg, table=tables()[conc]["name"], steps=behs[0][:16]))
    return res


def binding_self_test(c, conc, cs, gen):
    """the replayer must notice when the real store misses one put the handler returned (withheld by the harness itself)"""
    behs = gen[0][:12]
    payload = dict(property=c.prop, seed=c.seed, config=dict(Mode="store", Conc=conc, NK=cs["NK"], MaxBatch=cs["MaxBatch"], MemCap=60, L0Trigger=2, Sabotage=True),
                   behaviours=behs)
    res = vlib.run_harness("keyedstate", payload, timeout=600)
    n = len(res.get("violations", []))
    c.extra["binding_self_test"] = dict(behaviours=len(behs), reported=n)
    if n == 0:
        c.errors.append("binding self-test: a put withheld from the real store was not reported in any of %d behaviours" % len(behs))


def stuck(c, res, what):
    n = res.get("counters", {}).get("wait_timeouts", 0)
    if n:
        c.errors.append("%s: %d waits for the databases' background tasks timed out" % (what, n))


def vacuous(c, res, what, key, least):
    n = res.get("counters", {}).get(key, 0)
    if n < least:
        c.errors.append("vacuous replay: %s: %s = %d (< %d)" % (what, key, n, least))


def run(c):
    q = c.tier == "quick"
    tables()
    # -- static encoding theorem for every table (all 5 x 3 x 3 cells) + non-vacuity self-test
    static_and_self_test(c)
    # -- exhaustive dynamics
    exhaustive(c, 0, consts(MaxMut=3, MaxBatch=2), "3 keys x 2 ns x 2 entry keys, <=3 mutations, batches <=2 events")
    exhaustive(c, 4, consts(NK=2, MaxMut=2, MaxBatch=1, MaxTimers=1, MaxCkpt=1, MaxRestore=1), "2 keys x 2 x 2, <=2 mutations, timer, checkpoint+restore")
    if not q:
        exhaustive(c, 0, consts(MaxMut=4, MaxBatch=2), "3x2x2, <=4 mutations, batches <=2 events", timeout=1200)
        exhaustive(c, 2, consts(MaxMut=3, MaxBatch=2, MaxTimers=1), "3x2x2, <=3 mutations, 1 timer")
        exhaustive(c, 0, consts(NN=1, MaxMut=6, MaxBatch=1, MaxRet=6), "3 keys x 1 ns x 2 entry keys, <=6 mutations", timeout=1200)
        exhaustive(c, 3, consts(NK=2, NE=1, MaxMut=6, MaxBatch=2, MaxRet=3), "2 keys x 2 ns x 1 entry key, <=6 mutations", timeout=1200)
        exhaustive(c, 1, consts(MaxMut=2, MaxBatch=1, MaxTimers=1, MaxCkpt=1, MaxRestore=1), "3x2x2, <=2 mutations, timer, checkpoint+restore", timeout=1200)
    c.exhaustive = True
    # -- replays: (mode, table, MemTableSize, L0 trigger, keys, behaviours, extra constants)
    n = 60 if q else 300
    jobs = [("store", 0, 60, 2, 3, n, {}), ("store", 1, 700, 2, 5, n, {}), ("store", 2, 45, 1, 5, n, {}),
            ("store", 4, 60, 2, 5, n, dict(MaxCkpt=3, MaxRestore=2)), ("store", 3, 90, 3, 3, n, dict(MaxTimers=0)), ("store", 0, 130, 2, 5, n, {})]
    if q:
        jobs += [("operator", 2, 60, 2, 5, 40, {}), ("operator", 4, 60, 2, 3, 40, {})]
    else:
        jobs += [("store", 4, 130, 3, 3, n, dict(MaxCkpt=3, MaxRestore=2)), ("store", 2, 200, 2, 3, n, {}), ("store", 1, 1500, 1, 3, n, {}),
                 ("operator", 0, 60, 2, 5, 250, {}), ("operator", 1, 700, 2, 3, 250, {}), ("operator", 2, 45, 1, 5, 250, {}),
                 ("operator", 4, 90, 3, 5, 250, {}),
                 # 65535 key groups: deploying an operator scans the database once per key group - few behaviours
                 ("operator", 3, 130, 2, 3, 20, {})]
    maxlen = 90 if q else 140
    css = [sim_consts(nk, 30, maxlen, **kw) for (_, _, _, _, nk, _, kw) in jobs]
    gens = par([(lambda i=i: generate(c, jobs[i][1], css[i], jobs[i][5], maxlen + 5, c.seed * 100 + i)) for i in range(len(jobs))], 4)
    binding_self_test(c, jobs[0][1], css[0], gens[0])
    for i, (mode, conc, memcap, l0, nk, num, kw) in enumerate(jobs):
        res = replay_gen(c, mode, conc, css[i], num, c.seed * 100 + i, "%d keys" % nk, memcap=memcap, l0=l0, gen=gens[i])
        vacuous(c, res, "%s replay %d" % (mode, i), "fetches_nonempty", 10 if mode == "operator" else 20)
        if mode == "store":
            vacuous(c, res, "store replay %d" % i, "bg_steps", 20)
        # the same behaviours under another rotation / compaction rhythm (the model's Bg steps then meet other real states)
        res2 = replay_gen(c, mode, conc, css[i], num, c.seed * 100 + i, "%d keys" % nk, memcap=memcap * 2 + 15, l0=l0 % 3 + 1, gen=gens[i], again=True)
        stuck(c, res, "%s replay %d" % (mode, i))
        stuck(c, res2, "%s replay %d (second rhythm)" % (mode, i))
    c.assumptions += [
        "the handler answers only for keys of its batch; one operator per assembly, one source runner",
        "namespaces are valid UTF-8 strings shorter than 256 bytes (the protocol field is a string; its length is stored in one byte)",
        "keys / namespaces / entry keys / values from four fixed aliasing-hostile tables (prefix-related keys, 0x00 / 0xff bytes, empty strings, "
        ">=256-byte keys, shared and distinct key groups, key-group bytes on both sides of 0x80)",
        "DKV internals are C07's: here flush / compaction are steps that change nothing in the model and are forced onto the real goroutines",
    ]


def replay(c, path):
    payload = json.load(open(path))
    payload.pop("violation", None)
    res = vlib.run_harness("keyedstate", payload)
    c.add_harness(res, payload, "replay " + path)
