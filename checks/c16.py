"""C16 Source positions match the barrier cut; every split has exactly one reader.
Cut half: checks/c16_cut.py (pipeline family: spec/Pipeline.tla replayed on the real
SourceRunner).  Assignment / shard-lineage half: checks/c16_assign.py (splitter
family: spec/Splitter.tla replayed on the real kinesis / embedded / httpapi
splitters).  Reader half (Kinesis, same family): checks/c16_reader.py
(spec/KinesisReader.tla replayed on real kinesis.SourceReaders + the real splitter
against kinesisfake).  Either half alone still runs when the other family is absent.
Restart half: checks/restartlib.py (spec/Restart.tla on the real jobs.Job: the splits
are resumed from the positions of the checkpoint the operators were restored from)."""
import json
import os

try:
    import c16_cut
except ImportError:
    c16_cut = None
try:
    import c16_assign
except ImportError:
    c16_assign = None
try:
    import c16_reader
except ImportError:
    c16_reader = None

try:
    import restartlib
except ImportError:
    restartlib = None

RULE_RESTART = ("restart half: Restart.tla steps start() of the real jobs.Job (read, Deploy per node, splitter start) while the gated "
                "publication of an acknowledged checkpoint completes in between; the SourceCheckpoint (id, split positions) handed to the "
                "splitter must belong to the job checkpoint of the operator checkpoints in the Deploy requests")
RULE = " || ".join(r for r in (getattr(c16_cut, "RULE_CUT", None), getattr(c16_assign, "RULE_ASSIGN", None),
                               getattr(c16_reader, "RULE_READER", None), RULE_RESTART if restartlib else None) if r)


def run(c):
    if c16_cut is None and c16_assign is None:
        raise ImportError("neither c16_cut nor c16_assign is available")
    only = os.environ.get("VERIF_C16_ONLY", "")  # development aid: cut | assign | reader | restart
    if restartlib is not None and only in ("", "restart"):
        restartlib.single_cut_arm(c, c.tier, "C16")
    if c16_cut is not None and only in ("", "cut"):
        c16_cut.cut_half(c)
    if c16_assign is not None and only in ("", "assign"):
        c16_assign.assign_half(c)
    if c16_reader is not None and only in ("", "reader"):
        c16_reader.reader_half(c)


def replay(c, path):
    payload = json.load(open(path))
    if payload.get("family") == "restart":
        restartlib.replay(c, path)
    elif payload.get("family", "pipeline") == "kreader":
        c16_reader.replay_reader(c, path)
    elif payload.get("family", "pipeline") == "splitter":
        c16_assign.replay_assign(c, path)
    else:
        c16_cut.replay_cut(c, path)
