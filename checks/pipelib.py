"""Shared driver code of the pipeline family (C04, cut half of C16):
spec/Pipeline.tla (TLC exhaustive / simulate), harness/cmd/pipeline (replay of
TLC behaviours on a real sourcerunner.SourceRunner; free-running recorded
traces), spec/PipelineTrace.tla (trace validation)."""
import copy
import json
import vlib

STREAM_INVS = ["OnceAtOwner", "SplitKeyOrder", "MarkersOK", "MarkersOrdered"]
MODEL_INVS = ["TypeOK", "StreamsAlwaysOK", "CutConsistent", "Complete", "NoStuck"]


def keycode(keys, nkeys):
    code = 0
    for i, k in enumerate(keys):
        code += (k - 1) * nkeys ** i
    return code


def shape(nsplits, nrec, nops, keys, nkeys):
    return dict(NSplits=nsplits, NRec=nrec, NOps=nops, NKeys=nkeys, KeyCode=keycode(keys, nkeys), KeyDigits=len(keys))


S2x2 = shape(2, 2, 2, [1, 2, 2, 1], 2)
S2x3 = shape(2, 3, 2, [1, 2, 1, 2, 2, 1], 2)          # split 1: A B A, split 2: B B A
S3x4 = shape(3, 4, 3, [1, 2, 3, 1, 3, 3, 2, 1, 2, 2, 1, 3], 3)
S3x4b = shape(3, 4, 2, [1, 2, 1, 1, 2, 2, 2, 1, 1, 2, 1, 2], 2)

DEFAULTS = dict(MaxSize=2, UseTimer=True, MaxKFires=1, MaxOFires=1, MaxBarriers=1, MaxTicks=0, MaxRead=2, WithEOI=False,
                AtomicFlush=True, Dev_NoFlushAtEOI=True, Dev_SnapshotAfterNextRead=False, MaxLen=100000)


def consts(sh, **over):
    return dict(DEFAULTS, **sh, **over)


def exhaustive(c, cfgs, timeout=900):
    for cc in cfgs:
        r = vlib.run_tlc("Pipeline", cfg=dict(constants=cc, invariants=MODEL_INVS, view="view"), timeout=timeout)
        c.add_tlc(r, "Pipeline exhaustive %s" % brief(cc))
        if r.ok:
            c.exhaustive = True


def simulate(c, cc, num, depth, timeout):
    r = vlib.run_tlc("Pipeline", cfg=dict(constants=cc, invariants=MODEL_INVS), simulate=num, depth=depth, seed=c.seed, timeout=timeout,
                     name="Pipeline-sim")
    if r.error and "timeout" in r.error:
        r.error = None
        r.ok = r.violated is None
    c.add_tlc(r, "Pipeline simulate %s" % brief(cc))


def self_test_model(c):
    """the stream clauses are not vacuous: a model whose positions are snapshotted one read late must fail"""
    r = vlib.run_tlc("Pipeline", cfg=dict(constants=consts(S2x2, Dev_SnapshotAfterNextRead=True), invariants=MODEL_INVS, view="view"), timeout=120)
    c.add_tlc(r, "Pipeline self-test (Dev_SnapshotAfterNextRead must violate StreamsAlwaysOK)", must_hold=False)
    if r.violated != "StreamsAlwaysOK":
        c.errors.append("model self-test: expected StreamsAlwaysOK to fail with Dev_SnapshotAfterNextRead, got %s %s" % (r.violated, r.error))


def eoi_design(c):
    """end of input without batch time-outs: the intended design (Flush + final watermark + SourceComplete + operators.flush())
    delivers everything; the model of the code as it is (Dev_NoFlushAtEOI) must reproduce the known finding"""
    base = consts(S2x3, MaxSize=3, MaxRead=3, UseTimer=False, WithEOI=True)
    r = vlib.run_tlc("Pipeline", cfg=dict(constants=dict(base, Dev_NoFlushAtEOI=False), invariants=MODEL_INVS + ["NoLossAtEOI"], view="view"), timeout=300)
    c.add_tlc(r, "Pipeline exhaustive, intended end-of-input design (Dev_NoFlushAtEOI=FALSE, no time-outs) %s" % brief(base))
    r = vlib.run_tlc("Pipeline", cfg=dict(constants=dict(base, Dev_NoFlushAtEOI=True), invariants=MODEL_INVS + ["NoLossAtEOI"], view="view"), timeout=300)
    c.add_tlc(r, "Pipeline, code as it is (Dev_NoFlushAtEOI=TRUE) must violate NoLossAtEOI", must_hold=False)
    if r.violated != "NoLossAtEOI":
        c.errors.append("Dev_NoFlushAtEOI=TRUE did not violate NoLossAtEOI in the model: %s %s" % (r.violated, r.error))


def run_events(events, ri):
    out, on = [], False
    for e in events:
        if e.get("op") == "Reset":
            on = e.get("run") == ri
        if on:
            out.append(e)
    return out


def brief(cc):
    keep = ("NSplits", "NRec", "NOps", "NKeys", "MaxSize", "UseTimer", "MaxKFires", "MaxOFires", "MaxBarriers", "MaxTicks", "MaxRead", "WithEOI")
    return json.dumps({k: cc[k] for k in keep if k in cc})


def replay(c, cc, nbeh, seed, restart, depth=None, label=""):
    """TLC-simulated behaviours of Pipeline.tla forced onto a real SourceRunner"""
    if c.violations:
        return [], {}     # witnesses exist already; diverging replays are slow
    behs, r = vlib.gen_behaviours("Pipeline", cc, nbeh, depth or cc["MaxLen"] + 30, seed)
    cfg = dict(cc, KeyGroups=8, Restart=restart, Chunk=40)
    payload = dict(property=c.prop, seed=c.seed, config=cfg, behaviours=behs)
    res = vlib.run_harness("pipeline", payload)
    c.add_harness(res, payload, "Pipeline replay%s %s" % (label, brief(cc)))
    if behs:
        c.sample(dict(kind="Pipeline behaviour (first steps)", config=brief(cc), steps=behs[0][:10]))
    return behs, res


def racy(beh):
    """one key-by flusher takes a batch while the other sits between Flush and Reserve"""
    pc = {"c": "idle", "t": "idle"}
    for s in beh:
        if s["a"] == "KTake":
            other = "t" if s["g"] == "c" else "c"
            if pc[other] == "reserve":
                return True
            pc[s["g"]] = "reserve" if s["took"] else "idle"
        elif s["a"] == "KReserve":
            pc[s["g"]] = "idle"
    return False


def adversarial(c, cc, nbeh, keep, seed):
    """schedules only a non-atomic ReorderFetcher.flush admits (AtomicFlush = FALSE): the code must serialise them"""
    if c.violations:
        return
    cc = dict(cc, AtomicFlush=False)
    behs, r = vlib.gen_behaviours("Pipeline", cc, nbeh, cc["MaxLen"] + 30, seed)
    behs = [b for b in behs if racy(b)][:keep]
    if not behs:
        raise vlib.MachineryError("no racy behaviours generated")
    payload = dict(property=c.prop, seed=c.seed, config=dict(cc, KeyGroups=8, Restart=False, Adversarial=True, Chunk=40), behaviours=behs)
    res = vlib.run_harness("pipeline", payload)
    c.add_harness(res, payload, "Pipeline adversarial (non-atomic key-by flush schedules) %s" % brief(cc))
    if not res.get("counters", {}).get("serialised") and not res.get("violations"):
        c.errors.append("adversarial replay: no schedule reached the point where the code has to serialise the flushers")


def self_test_replay(c, cc, seed):
    """binding: a behaviour whose predicted HandleEventBatch argument is falsified must not replay"""
    behs, _ = vlib.gen_behaviours("Pipeline", cc, 12, cc["MaxLen"] + 30, seed)
    bad = None
    for b in behs:
        for i, s in enumerate(b):
            if s["a"] in ("SRecv", "STimeout") and len(s["batch"]) >= 1:
                bad = copy.deepcopy(b)
                it = bad[i]["batch"][0]
                it["b"] = it["b"] + 1 if it["t"] == "r" else 0
                it["a"] = it["a"] + (0 if it["t"] == "r" else 1)
                break
        if bad:
            break
    if not bad:
        raise vlib.MachineryError("replay self-test: no behaviour with a predicted batch")
    payload = dict(property=c.prop, seed=c.seed, config=dict(cc, KeyGroups=8, Restart=False), behaviours=[bad])
    res = vlib.run_harness("pipeline", payload)
    if res.get("drift", 0) != 1 or res.get("executed", 0) != 0:
        c.errors.append("replay self-test: a falsified predicted batch was not noticed by the replayer: %s" % {k: res.get(k) for k in ("executed", "drift", "violations")})
    c.extra["replay_selftest"] = "falsified prediction reported as drift: %s" % (res.get("drift_notes", [""])[:1])


TRACE_SHAPE = dict(NSplits=3, NRec=8, NOps=3, NKeys=4, KeyDigits=12)


def trace_consts(sh):
    return dict(DEFAULTS, **sh, MaxKFires=0, MaxOFires=0, MaxBarriers=0, MaxRead=1, MaxLen=0)


def record(c, runs, seed, sh=None):
    sh = dict(sh or TRACE_SHAPE)
    if "KeyCode" not in sh:
        sh["KeyCode"] = (seed * 7654321 + 12345) % (sh["NKeys"] ** sh["KeyDigits"])
    payload = dict(property=c.prop, seed=seed, config=dict(sh, Mode="trace", Runs=runs, SizeMax=4, DelayMaxMs=3, KeyGroups=8, ReadMax=4, JitterUs=400))
    res = vlib.run_harness("pipeline", payload)
    events = res.pop("samples", [])
    return sh, payload, res, events


def validate(c, sh, events, label):
    ok, at, tr = vlib.validate_trace("PipelineTrace", trace_consts(sh), events, invariants=STREAM_INVS)
    c.add_tlc(tr, "PipelineTrace validation %s (%d events)" % (label, len(events)), must_hold=False)
    if not ok and tr.violated in STREAM_INVS:
        at -= 1     # an invariant fails in the state AFTER the offending line was consumed
    return ok, at, tr


def traces(c, runs, seed):
    """free-running seeded runs of the real runner, recorded and validated by PipelineTrace.tla"""
    sh, payload, res, events = record(c, runs, seed)
    go_viol = {}
    for v in res.get("violations", []):
        if v.get("known"):
            if v.get("property") == c.prop:
                c.add_violation(v["what"], dict(mode="trace-run", property=c.prop, shape=sh, recorded_run=run_events(events, v["behaviour"]), violation=v),
                                known=v["known"])
            continue
        go_viol.setdefault(v["behaviour"], []).append(v)
    for e in res.get("errors", []):
        c.errors.append("pipeline trace mode: " + e)
    c.extra.setdefault("trace_runs", []).append(dict(runs=res.get("executed", 0), counters=res.get("counters", {}), events=len(events)))
    pending = events
    rejected, accepted = set(), set()
    for _ in range(10):
        if not pending or len(c.violations) >= 3:
            break
        ok, at, tr = validate(c, sh, pending, "seed %d" % seed)
        if ok:
            accepted.update(e.get("run") for e in pending if e.get("op") == "Reset")
            c.traces += sum(1 for e in pending if e.get("op") == "Reset")
            runs_ = vlib.split_runs(pending)
            if runs_ and len(c.samples) < 6:
                c.sample(dict(kind="recorded free run of the real SourceRunner (first events)", events=runs_[0][1][:12]))
            break
        at = min(at, len(pending))
        start = max(k for k in range(at) if pending[k].get("op") == "Reset")
        nxt = [k for k in range(at, len(pending)) if pending[k].get("op") == "Reset"]
        end = nxt[0] if nxt else len(pending)
        ri = pending[start].get("run")
        rejected.add(ri)
        accepted.update(e.get("run") for e in pending[:start] if e.get("op") == "Reset")
        c.traces += sum(1 for e in pending[:start] if e.get("op") == "Reset")
        gvs = go_viol.get(ri)
        gv = None if gvs is None else ([v for v in gvs if v.get("property") == c.prop] or gvs)[0]
        what = "free run rejected by PipelineTrace.tla (%s) at event %d: %s" % (
            tr.violated or "no action explains it", at - start, json.dumps(pending[at - 1]))
        if gv is None:
            c.errors.append("trace verdicts disagree: TLC rejects run %s (%s) but the Go predicates accept it" % (ri, what))
        elif gv.get("property") == c.prop:
            c.add_violation(what + " -- " + gv["what"], dict(mode="trace-run", property=c.prop, shape=sh, recorded_run=pending[start:end], violation=gv))
        pending = pending[end:]
    for ri, gvs in go_viol.items():
        if ri in accepted:
            c.errors.append("trace verdicts disagree: Go predicates reject run %s (%s) but PipelineTrace.tla accepts it" % (ri, gvs[0]["what"]))
    return sh, events


def self_test_trace(c, sh, events):
    """binding: a recorded trace with one batch delivered twice must be rejected"""
    for i, e in enumerate(events):
        if e.get("op") == "Batch" and any(it["t"] == "r" for it in e["items"]):
            bad = events[:i + 1] + [e] + events[i + 1:]
            ok, at, tr = validate(c, sh, bad[:i + 40], "self-test (duplicated batch)")
            if ok or at != i + 2:
                c.errors.append("trace self-test: duplicated Batch event at line %d not rejected there (ok=%s at=%s)" % (i + 2, ok, at))
            c.extra["trace_selftest"] = "duplicated batch rejected at line %s (%s)" % (at, tr.violated)
            return
    raise vlib.MachineryError("trace self-test: no Batch event recorded")


def replay_file(c, path):
    payload = json.load(open(path))
    if payload.get("mode") == "trace-run":
        sh = payload["shape"]
        ok, at, tr = validate(c, sh, payload["recorded_run"], "replay " + path)
        if not ok:
            c.add_violation("recorded run rejected by PipelineTrace.tla (%s) at event %s" % (tr.violated, at), payload)
        return
    res = vlib.run_harness("pipeline", payload)
    c.add_harness(res, payload, "replay " + path)
