"""C05 Key routing agrees with state ownership for every configuration.
spec/Partition.tla (keyGroupRanges loop, lookup table, Owner, KG as a constant table, AssignRanges) and
spec/PartitionTrace.tla (events recorded at the router, the key encoders and OwnsKey);
harness/cmd/partition binds them to the real partitioning / murmur / sourcerunner / operator code."""
import json
import random
import re
import vlib

RULE = ("TLC evaluates Contiguous/Cover/Disjoint/Balanced/closed form on every iteration of the transcribed "
        "keyGroupRanges loop for the whole (count, n) grid and the boundary pairs and prints the ranges; the real "
        "partitioning package must satisfy the same (transcribed, TLC-cross-checked) predicates on the grid and for "
        "every count 1..65535; (key, group, operator) events recorded at the real router, key encoders and OwnsKey are "
        "validated by PartitionTrace.tla against a reference-hash table; AssignRanges is checked for every ack order")

BOUNDARY_NS = [1, 2, 3, 255, 256, 257, 65535, 65536]


def consts(**kw):
    b = dict(KGH="@NoKeys", GridMaxCount=64, GridMaxN=70, BoundaryCount=65535,
             BoundaryNs="@{" + ", ".join(map(str, BOUNDARY_NS)) + "}", Keep=300, DeclMaxCount=64,
             AssignCounts="@{1, 2, 3, 4, 5, 8}", AssignMaxOps=4)
    b.update(kw)
    return b


def harvest(c, res, payload, label):
    """violations of cmd/partition carry a minimal replay configuration"""
    for v in res.pop("violations", []):
        exp = v.get("expected") or {}
        one = dict(property="C05", seed=payload["seed"], config=exp.get("replay_config") or payload["config"], violation=v)
        c.add_violation(v.get("what", "?"), one, known=v.get("known"))
    res["violations"] = []
    c.add_harness(res, payload, label)


# ----------------------------------------------------------------- ranges ----
def ranges(c, grid_consts, sweep_random, deep_random, sweep=True):
    r = vlib.run_tlc("Partition", cfg=dict(spec="SpecGrid", constants=grid_consts, invariants=[
        "IterClosedForm", "FinalCover", "FinalBalanced", "FinalRanges", "FinalDeclarative", "GridDump"]), timeout=1500)
    c.add_tlc(r, "Partition SpecGrid count<=%d n<=%d + (65535, %s), declarative forms up to count %d" % (
        grid_consts["GridMaxCount"], grid_consts["GridMaxN"], BOUNDARY_NS, grid_consts["DeclMaxCount"]))
    grid = []
    for line in r.out.splitlines():
        if line.startswith('"RANGES '):
            grid.append(json.loads(line[len('"RANGES '):-1]))
    want = grid_consts["GridMaxCount"] * grid_consts["GridMaxN"] + len([n for n in BOUNDARY_NS if n <= grid_consts["Keep"]])
    if r.ok and len(grid) != want:
        raise vlib.MachineryError("TLC printed %d range lists, expected %d" % (len(grid), want))
    grid.sort()
    rng = random.Random(c.seed)
    deep = [[65535, n] for n in BOUNDARY_NS]
    for _ in range(deep_random):
        cnt = rng.choice([rng.randint(1, 300), rng.randint(300, 65535), 65535 - rng.randint(0, 3), 2 ** rng.randint(1, 15)])
        deep.append([cnt, rng.choice([rng.randint(1, cnt), cnt + rng.randint(1, 9), rng.randint(1, 9)])])
    cfg = dict(mode="ranges", grid=grid, deep=deep, sweepFrom=1, sweepTo=65535 if sweep else 0, sweepRandomNs=sweep_random)
    payload = dict(property="C05", seed=c.seed, config=cfg)
    res = vlib.run_harness("partition", payload)
    harvest(c, res, payload, "real NewKeySpace vs TLC grid (%d configs) + sweep of every count 1..65535" % len(grid))
    if grid:
        c.sample(dict(kind="ranges printed by TLC and reproduced by partitioning.NewKeySpace", sample=[g for g in grid if g[0] in (5, 64) and g[1] in (3, 70)]))
    c.exhaustive = True


# ----------------------------------------------------------------- assign ----
def assign(c, counts, max_ops, sweep_counts, sweep_max_ops, rnd_perms):
    k = consts(AssignCounts="@{" + ", ".join(map(str, counts)) + "}", AssignMaxOps=max_ops)
    r = vlib.run_tlc("Partition", cfg=dict(spec="SpecAssign", constants=k, invariants=["AssignOK", "SweepAgreesWhenSorted", "AssignDump"]), timeout=900)
    c.add_tlc(r, "Partition SpecAssign counts %s, 1..%d old x new operators, every ack order" % (counts, max_ops))
    cases = []
    for line in r.out.splitlines():
        if line.startswith('"ASSIGN '):
            cases.append(json.loads(vlib._unescape(line[len('"ASSIGN '):-1])))
    if r.ok and len(cases) != r.distinct:
        raise vlib.MachineryError("TLC printed %d assignment cases for %d states" % (len(cases), r.distinct))
    # the model must distinguish the repaired algorithm from the sorted-input sweep (defect #20)
    r2 = vlib.run_tlc("Partition", cfg=dict(spec="SpecAssign", constants=k, invariants=["SweepOK"]), timeout=300)
    c.add_tlc(r2, "Partition SpecAssign: two-pointer sweep on unsorted `from` (must be violated)", must_hold=False)
    if r2.violated != "SweepOK":
        c.errors.append("TLC did not find the ack order on which the sorted-input sweep drops an overlap: %s %s" % (r2.violated, r2.error))
    cfg = dict(mode="assign", cases=cases, sweepCounts=sweep_counts, sweepMaxOps=sweep_max_ops, sweepAllPermsUpTo=5, sweepRandomPerms=rnd_perms)
    payload = dict(property="C05", seed=c.seed, config=cfg)
    res = vlib.run_harness("partition", payload)
    harvest(c, res, payload, "real AssignRanges on %d TLC cases + sweep" % len(cases))
    if cases:
        c.sample(dict(kind="AssignRanges case enumerated by TLC (from in ack order)", case=[x for x in cases if len(x["from"]) == 3][:1]))


# ------------------------------------------------------------------- hash ----
def hashes(c, nrandom, per_len):
    payload = dict(property="C05", seed=c.seed, config=dict(mode="hash", shortLen=3, perLen=per_len, random=nrandom))
    res = vlib.run_harness("partition", payload)
    harvest(c, res, payload, "real murmur.Hash / KeySpace.KeyGroup vs independent MurmurHash3-32 reference")


# ------------------------------------------------------------------ sites ----
DIRECT = [[1, 1], [1, 3], [2, 1], [2, 2], [3, 2], [4, 3], [5, 3], [5, 2], [7, 7], [8, 3], [16, 5], [64, 70], [255, 4],
          [256, 8], [256, 7], [257, 3], [1000, 9], [4096, 64], [65535, 1], [65535, 2], [65535, 3], [65535, 255],
          [65535, 257], [65521, 16]]
CLUSTER = [[1, 1, 2], [2, 2, 3], [3, 2, 2], [4, 3, 2], [5, 3, 4], [8, 3, 5], [7, 4, 2], [16, 5, 3], [256, 4, 3],
           [256, 3, 4], [65535, 3, 2], [65535, 2, 5]]


def site_lists(c, nd, nc):
    rng = random.Random(c.seed * 7919 + 5)
    direct, cluster = list(DIRECT), list(CLUSTER)
    for _ in range(nd):
        cnt = rng.choice([rng.randint(1, 40), rng.randint(1, 3000), rng.randint(3000, 65535)])
        direct.append([cnt, rng.choice([rng.randint(1, min(cnt, 200)), min(cnt + rng.randint(1, 5), 250), rng.randint(1, 8)])])
    for _ in range(nc):
        cnt = rng.choice([rng.randint(1, 12), rng.randint(1, 300), rng.randint(300, 65535)])
        cluster.append([cnt, rng.randint(1, 6), rng.randint(1, 6)])
    return direct, cluster


def block_of(events, at):
    """events: full trace incl. header line; at: 1-based rejected line -> (first index, last index) of its Config block"""
    i = at - 1
    while i > 0 and events[i].get("op") != "Config":
        i -= 1
    j = at
    while j < len(events) and events[j].get("op") != "Config":
        j += 1
    return i, j


def sites(c, direct, cluster, dkeys, ckeys, rkeys, selftest=True, chunk=9000):
    base = dict(mode="sites", directKeys=dkeys, clusterKeys=ckeys, randomKeys=rkeys)
    p1 = dict(property="C05", seed=c.seed, config=dict(base, direct=direct, cluster=[]))
    r1 = vlib.run_harness("partition", p1)
    ev = r1.pop("events", [])
    keys = r1.pop("keys")
    r1["executed"] = 0  # counted when TLC has accepted the configuration's trace
    harvest(c, r1, p1, "recorded direct call sites (%d configs)" % len(direct))
    cluster_error = None
    if cluster:
        p2 = dict(property="C05", seed=c.seed, config=dict(base, direct=[], cluster=cluster))
        try:
            r2 = vlib.run_harness("partition", p2)
            if r2.pop("keys") != keys:
                raise vlib.MachineryError("key tables of the two recordings differ")
            ev += r2.pop("events", [])
            r2["executed"] = 0
            harvest(c, r2, p2, "recorded in-process source runner + operators (%d configs)" % len(cluster))
        except vlib.MachineryError as e:  # report a rejected direct trace first: it usually explains a dead cluster
            cluster_error = e
    header = dict(op="Keys", h=[[k["hi"], k["lo"]] for k in keys])
    # split at Config boundaries into chunks TLC validates in one start each
    blocks, cur = [], []
    for e in ev:
        if e["op"] == "Config" and len(cur) >= chunk:
            blocks.append(cur)
            cur = []
        cur.append(e)
    if cur:
        blocks.append(cur)
    rejected = False
    for bi, blk in enumerate(blocks):
        events = [header] + blk
        ok, at, tr = vlib.validate_trace("PartitionTrace", {}, events, timeout=1200)
        c.add_tlc(tr, "PartitionTrace validation (%d events, chunk %d/%d)" % (len(blk), bi + 1, len(blocks)), must_hold=False)
        nconf = len([e for e in blk if e["op"] == "Config"])
        if ok:
            c.traces += nconf
            continue
        rejected = True
        i, j = block_of(events, at)
        conf, bad = events[i], (events[at - 1] if at <= len(events) else None)
        one = dict(base)
        if conf.get("level") == "direct":
            one.update(direct=[[conf["count"], conf["n"]]], cluster=[])
        else:
            one.update(direct=[], cluster=[conf["cfg"]])
        keyhex = keys[bad["key"] - 1]["hex"] if bad and "key" in bad else None
        c.add_violation("%s trace (count=%d, n=%d) rejected by PartitionTrace.tla at %s (key bytes %s)" % (
            conf.get("level"), conf["count"], conf["n"], json.dumps(bad), keyhex),
            dict(property="C05", seed=c.seed, config=one, rejected_event=bad, key_hex=keyhex, recorded_block=events[i:j][:400]))
    if cluster_error and not rejected:
        raise cluster_error
    if ev and not rejected:
        c.sample(dict(kind="recorded call-site trace (first events of a cluster configuration)",
                      events=[e for e in ev if e.get("level", "x") != "direct"][:1] + [e for e in ev if e.get("via") == "routeEvent"][:3]
                      + [e for e in ev if e["op"] == "Store"][:3] + [e for e in ev if e["op"] == "Owns"][:3]))
        if selftest:
            binding_selftest(c, header, ev)
    return ev


def binding_selftest(c, header, ev):
    """corrupt one logged field per event kind: TLC must reject exactly there"""
    def block(pred):
        for idx, e in enumerate(ev):
            if pred(e):
                i = idx
                while ev[i]["op"] != "Config":
                    i -= 1
                j = idx + 1
                while j < len(ev) and ev[j]["op"] != "Config":
                    j += 1
                return i, idx, j
        return None
    conf = {}

    def n_of(idx):
        i = idx
        while ev[i]["op"] != "Config":
            i -= 1
        return ev[i]

    muts = [
        ("Route", lambda e: e["op"] == "Route" and e.get("via") == "routeEvent", lambda e, cf: dict(e, to=(e["to"] + 1) % max(cf["n"], 2))),
        ("Store", lambda e: e["op"] == "Store", lambda e, cf: dict(e, prefix=(e["prefix"] + 1) % 65536)),
        ("Owns", lambda e: e["op"] == "Owns", lambda e, cf: dict(e, res=not e["res"])),
        ("KeyGroup", lambda e: e["op"] == "KeyGroup", lambda e, cf: dict(e, group=(e["group"] + 1) % 65536)),
    ]
    for name, pred, mut in muts:
        b = block(pred)
        if not b:
            c.errors.append("self-test: no %s event recorded" % name)
            continue
        i, idx, j = b
        blk = [dict(e) for e in ev[i:j]]
        blk[idx - i] = mut(blk[idx - i], n_of(idx))
        ok, at, tr = vlib.validate_trace("PartitionTrace", {}, [header] + blk)
        if ok or at != idx - i + 2:
            c.errors.append("self-test: corrupted %s event at line %d was not rejected there (ok=%s at=%s)" % (name, idx - i + 2, ok, at))
    c.extra["binding_selftest"] = "corrupted Route/Store/Owns/KeyGroup events rejected by PartitionTrace.tla"


# ------------------------------------------------------------------ tlaps ----
def tlaps(c, timeout=300):
    """spec/PartitionProof.tla: closed form, balance and cover of the keyGroupRanges loop for ALL count, n"""
    import os, shutil, subprocess, tempfile, time
    if not shutil.which("tlapm"):
        c.extra["tlaps"] = "tlapm not installed: proof not re-checked"
        return
    d = tempfile.mkdtemp(prefix="tlaps-")
    try:
        shutil.copy(os.path.join(vlib.SPEC, "PartitionProof.tla"), d)
        t = time.time()
        p = subprocess.run(["timeout", str(timeout), "tlapm", "--toolbox", "0", "0", "PartitionProof.tla"], cwd=d,
                           stdout=subprocess.PIPE, stderr=subprocess.STDOUT, text=True)
        m = re.search(r"All (\d+) obligations proved", p.stdout)
        c.extra["tlaps"] = dict(module="PartitionProof", proved=bool(m), obligations=int(m.group(1)) if m else None,
                                wall_s=round(time.time() - t, 1), rc=p.returncode)
        if p.returncode == 124:
            c.extra["tlaps"]["note"] = "timeout: proof not re-checked"
        elif not m:
            c.errors.append("tlapm did not prove PartitionProof.tla:\n" + "\n".join(
                l for l in p.stdout.splitlines() if "obligations" in l or "ERROR" in l)[:1500])
    finally:
        shutil.rmtree(d, ignore_errors=True)


# -------------------------------------------------------------------- run ----
def run(c):
    if c.tier == "quick":
        ranges(c, consts(), sweep_random=1, deep_random=8)
        assign(c, [1, 2, 3, 4, 5, 8], 4, [1, 2, 3, 5, 7, 8, 16, 255, 256, 257, 65535], 6, 20)
        hashes(c, 20000, 200)
        d, cl = site_lists(c, 8, 4)
        sites(c, d, cl, 40, 24, 100)
    else:
        ranges(c, consts(GridMaxCount=128, GridMaxN=130, DeclMaxCount=65535), sweep_random=8, deep_random=40)
        assign(c, [1, 2, 3, 4, 5, 6, 7, 8, 9, 16], 5, [1, 2, 3, 4, 5, 6, 7, 8, 9, 16, 100, 255, 256, 257, 1000, 65534, 65535], 9, 300)
        hashes(c, 3000000, 20000)
        d, cl = site_lists(c, 150, 60)
        sites(c, d, cl, 80, 40, 400)
        tlaps(c)
    c.assumptions += [
        "MurmurHash3-32 is not computed in TLA+: KGH is a table from the harness's independent reference implementation (pinned by 15 published/repo vectors)",
        "TLC evaluates the range predicates on the stated grid and boundary pairs; every other count 1..65535 is checked by the harness with predicates transcribed from the spec and cross-checked on TLC's own ranges",
        "OwnsKey is observed through dkv.Start's WAL replay filter of real operators restored from real checkpoints (no flushed tables involved)",
    ]


def replay(c, path):
    payload = json.load(open(path))
    cfg = payload["config"]
    c.seed = payload.get("seed", c.seed)
    if cfg.get("mode") == "sites":
        sites(c, cfg.get("direct", []), cfg.get("cluster", []), cfg.get("directKeys", 40), cfg.get("clusterKeys", 24),
              cfg.get("randomKeys", 100), selftest=False)
        return
    p = dict(property="C05", seed=c.seed, config=cfg)
    res = vlib.run_harness("partition", p)
    harvest(c, res, p, "replay " + path)
