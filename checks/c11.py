"""C11 Watermarks are monotone; operators act on the minimum of their upstreams.
Runner half: spec/Watermark.tla bound to wmark.Watermarker, to streams recorded
from free-running real SourceRunners, and - with keying, operator back-pressure
and an eager sender switched on - replayed on a real SourceRunner through gated
reader / handler / operator adapters (mode srsched), the received stream being
validated by WatermarkTrace.tla.
Operator half: spec/Timers.tla (up[sr], Min(up)) bound to a real
operator.Operator and to TimerRegistry; spec/TimersOp.tla (event batches,
restore, re-deployment of the same Operator) bound in mode opbatch."""
import json
import vlib
import c10

RULE = ("runner half: TLC proves Monotone/Below/Close of Watermark.tla for every timestamp sequence of length <= 5 over 4 "
        "values with ticks at any position and any sender lag; its behaviours are executed on the real wmark.Watermarker "
        "and every emitted watermark must be non-decreasing, < the largest event timestamp forwarded before it and >= "
        "that timestamp - 1ns; operator half: TLC proves HandlerWM/NoLateFire of Timers.tla; every interleaving of <= 4 "
        "watermark messages of 2-3 runners with events is executed on a real operator.Operator: "
        "ProcessEventBatchRequest.Watermark must equal Min(up) (epoch for a runner that has not reported) on every "
        "handler call and the TimerExpired deliveries must be exactly the pending timers at or before Min(up); schedules of "
        "Watermark.tla with asynchronous keying and a slow operator (reads, ticks, keying completions and operator deliveries in "
        "model-chosen order, incl. the witnesses of 'maxTimestamp advances at keying') are replayed on a real SourceRunner and "
        "the stream its operator received must satisfy Monotone/Below/Close; behaviours of TimersOp.tla (batches of 1-3, "
        "restore, redeploy of the same Operator with and without a checkpoint) are executed on a real Operator and every "
        "handler call must be told Min(up) of the current deployment")

WM_INV = ["Monotone", "Below", "Close", "ImplOK"]


def wm_consts(**kw):
    c = dict(MaxTs=4, MaxEv=5, MaxTick=3, Lateness=0, StampAtSend=True, Keying=False, MaxAhead=2, Pipe=0, Eager=False,
             Dev_AdvanceAtKeyed=False, StopAtBad=False, MaxLen=100000)
    c.update(kw)
    return c


def runner_half(c, ex, nsim, seed):
    for k in ex:
        r = vlib.run_tlc("Watermark", cfg=dict(constants=k, invariants=WM_INV, view="view"), timeout=3000)
        c.add_tlc(r, "Watermark exhaustive %s" % json.dumps(k))
    for i, (k, unit, off) in enumerate([(wm_consts(MaxLen=40), 1, 0), (wm_consts(MaxTick=5, MaxLen=40), 1000000000, 0),
                                        (wm_consts(MaxLen=40), 1000, 1), (wm_consts(MaxTick=5, MaxLen=40), 1000000000, 6)]):
        behs, r = vlib.gen_behaviours("Watermark", k, nsim, 60, seed + i)
        payload = dict(property="C11", seed=c.seed, config=dict(k, Mode="watermarker", Unit=unit, Offset=off), behaviours=behs)
        res = vlib.run_harness("timers", payload)
        c.add_harness(res, payload, "Watermarker replay %s unit=%d, model time %d = the Unix epoch" % (json.dumps(k), unit, off))
        if behs and i == 0:
            c.sample(dict(kind="Watermark behaviour replayed on wmark.Watermarker",
                          steps=" ".join("%s%s" % (s["a"], "(%s)" % s["ts"] if s["a"] == "Read" else "") for s in behs[0])))


BACKPRESSURE = dict(Keying=True, MaxAhead=2, Pipe=2)


def wm_show(b):
    return " ".join("%s%s" % (s["a"], "(%s)" % s["ts"] if s["a"] == "Read" else ("[%s]" % s["ty"] if s["a"] == "Send" else "")) for s in b)


def judge_streams(c, events, payload, label, count=True):
    """events: the streams real SourceRunners sent (runs separated by Reset lines); TLC replays them into Watermark's
    `out` and checks Monotone/Below/Close in every state reached"""
    ok, at, tr = vlib.validate_trace("WatermarkTrace", wm_consts(), events, invariants=["Monotone", "Below", "Close"])
    c.add_tlc(tr, "WatermarkTrace validation (%s)" % label, must_hold=False)
    runs_ = vlib.split_runs(events)
    if ok:
        if count:
            c.traces += len(runs_)
        return True, runs_
    line = at - 1 if tr.violated else at      # invariant broken by the state *after* line at-1 / line `at` not explained
    bad = [r_ for r_ in runs_ if r_[0] <= line][-1]
    idx = max(0, min(line - bad[0], len(bad[1]) - 1))
    one = dict(payload, recorded_run=bad[1], rejected_index=idx)
    sched = ""
    if payload.get("behaviours"):
        b = payload["behaviours"][events[bad[0] - 2]["b"]]
        one["behaviours"] = [b]
        sched = "; schedule: " + wm_show(b)
    c.add_violation("stream sent by a real SourceRunner breaks the runner half of C11 (%s) at element %d: %s; stream received by its operator: %s%s" %
                    (tr.violated, idx, json.dumps(bad[1][idx]), json.dumps(bad[1][:idx + 1]), sched), one)
    return False, runs_


def source_runner_sched(c, nsim, keep, seed, par=12):
    """model -> code -> model: schedules of Watermark.tla (keying, back-pressure of a slow operator, eager sender) on a real
    SourceRunner through gates; (1) simulated schedules of the model as it is, (2) every witness (thinned to `keep`) of the
    deviation 'maxTimestamp advances when the event is keyed' - a tick queued behind a stalled sender, stamped after a later
    event was keyed but before it is forwarded"""
    k = wm_consts(Eager=True, MaxLen=26, **BACKPRESSURE)
    sims, r = vlib.gen_behaviours("Watermark", k, nsim, 60, seed)
    kw = wm_consts(Eager=True, MaxEv=3, MaxTs=3, MaxTick=3, Dev_AdvanceAtKeyed=True, StopAtBad=True, **BACKPRESSURE)
    r = vlib.run_tlc("Watermark", cfg=dict(constants=kw, invariants=["DumpBad"], view="view"), workers=1, timeout=900, name="Watermark-wit")
    if not r.ok or not r.behaviours:
        raise vlib.MachineryError("witness enumeration failed: %s %s\n%s" % (r.error, r.violated, r.out[-2000:]))
    wits = sorted(r.behaviours, key=lambda b: (len(b), json.dumps(b, sort_keys=True)))
    if len(wits) > keep:
        step = len(wits) / float(keep)
        wits = [wits[int(i * step)] for i in range(keep)]
    for label, behs in (("simulated schedules", sims), ("witness schedules of Dev_AdvanceAtKeyed", wits)):
        payload = dict(property="C11", seed=c.seed, config=dict(Mode="srsched", Parallel=par), behaviours=behs, mode="srsched-trace")
        res = vlib.run_harness("timers", payload)
        events = res.pop("samples", [])
        c.add_harness(res, payload, "SourceRunner schedule replay (%d %s)" % (len(behs), label))
        if not events:
            raise vlib.MachineryError("no stream recorded")
        ok, runs_ = judge_streams(c, events, payload, "%d streams of SourceRunners driven through %s" % (res.get("executed", 0), label), count=False)
        if ok and label.startswith("simulated"):
            c.sample(dict(kind="schedule replayed on a real SourceRunner", schedule=wm_show(behs[0]), stream=runs_[0][1][:16]))
            if res.get("counters", {}).get("stream_differs_from_model", 0) * 5 > len(behs) * 4:
                c.errors.append("srsched: %s of %d replayed streams differ from the model's prediction (the gates do not drive the runner as modelled)" %
                                (res["counters"]["stream_differs_from_model"], len(behs)))


def operator_level(c, s, n, nwit):
    """operator half at the handler of a real Operator: batches of 1..3, restore, and re-deployment of the SAME Operator
    (with and without a checkpoint): the first handler calls of a deployment must be told the epoch"""
    gen = dict(c10.OP_GEN, MaxRestore=1, MaxRedeploy=2, MaxCkpt=2)
    c10.op_exhaustive(c, [c10.op_consts(BatchMax=2, MaxRedeploy=2, MaxEv=2, MaxTimeout=1)])
    for i, (k, h) in enumerate([(c10.op_consts(BatchMax=1, **gen), dict()),
                                (c10.op_consts(BatchMax=2, NSR=3, **gen), dict(Unit=1000000000)),
                                (c10.op_consts(BatchMax=3, **gen), dict(RangeIdx=1))][:2 if c.tier == "quick" else 3]):
        c10.op_replay_sim(c, "C11", k, n, s + 80 + i, hcfg=h)
    for i, bm in enumerate((1, 2) if c.tier == "quick" else (1, 2, 3)):
        c10.op_adversarial(c, "C11", c10.op_consts(BatchMax=bm, **dict(gen, MaxLen=16)), "Dev_StaleToldWM", nwit, s + 90 + i, 60)


def all_interleavings(c, k, label, limit=None, mode="operator", hcfg=None):
    """every maximal history of Timers.tla within the bounds (hist is part of the state: no VIEW), replayed"""
    r = vlib.run_tlc("Timers", cfg=dict(constants=k, invariants=["Dump"]), workers=1, timeout=1500, name="Timers-all")
    if not r.ok:
        raise vlib.MachineryError("enumeration failed: %s %s\n%s" % (r.error, r.violated, r.out[-2000:]))
    c.add_tlc(r, "Timers enumeration of all histories %s" % json.dumps(k))
    behs = r.behaviours
    if limit and len(behs) > limit:   # deterministic thinning
        step = len(behs) / float(limit)
        behs = [behs[int(i * step)] for i in range(limit)]
    cfg = dict(k, Mode=mode, Unit=1)
    cfg.update(hcfg or {})
    payload = dict(property="C11", seed=c.seed, config=cfg, behaviours=behs)
    res = vlib.run_harness("timers", payload)
    c.add_harness(res, payload, "%s (%d of %d histories, %s)" % (label, len(behs), len(r.behaviours), mode))
    if behs:
        c.sample(dict(kind=label, steps=c10.show(behs[len(behs) // 2])))
    return payload


def selftest(c, payload):
    """binding self-test: corrupt the operator watermark one handler call must report; the replayer has to notice"""
    import copy
    for b in payload["behaviours"]:
        for i, st in enumerate(b):
            if st["a"] == "SetTimer" and i > 2:
                bb = copy.deepcopy(b)
                bb[i]["wm"] += 1
                res = vlib.run_harness("timers", dict(payload, behaviours=[bb]))
                hit = [v for v in res.get("violations", []) if v["step"] == i and "handler was told" in v["what"]]
                if not hit:
                    c.errors.append("self-test: a corrupted expected watermark at step %d was not reported" % i)
                c.extra["selftest"] = "corrupted handler watermark reported: %s" % (hit[0]["what"] if hit else "NO")
                return
    c.errors.append("self-test: no suitable behaviour")


def run(c):
    s = c.seed * 1000
    tiny = c10.consts(KGCode=1, LenCode=1, NG=1, MaxT=1, NSR=2, MaxBytes=c10.cap(1), MaxSet=2, MaxAdv=4, MaxCkpt=0, MaxRestore=0)
    if c.tier == "quick":
        runner_half(c, [wm_consts(), wm_consts(MaxEv=4, **BACKPRESSURE)], 600, s)
        ex = [c10.consts(KGCode=12, LenCode=11, MaxT=2, NSR=3, MaxAdv=4)]
        nsim = 80
    else:
        runner_half(c, [wm_consts(), wm_consts(MaxTs=5, MaxEv=5, MaxTick=3), wm_consts(Lateness=2), wm_consts(MaxEv=4, **BACKPRESSURE),
                        wm_consts(MaxEv=5, MaxTick=4, Eager=True, **BACKPRESSURE)], 4000, s)
        ex = [c10.consts(KGCode=12, LenCode=11, MaxT=2, NSR=3, MaxAdv=4),
              c10.consts(KGCode=12, LenCode=11, MaxT=3, NSR=3, MaxAdv=5, MaxSet=3, PreEpochWM=True),
              c10.consts(MaxT=3, NSR=2, PreEpochWM=True, MaxSet=3, MaxAdv=6)]
        nsim = 500
    for k in ex:
        r = vlib.run_tlc("Timers", cfg=dict(constants=k, invariants=c10.INV, view="view"), timeout=3000)
        c.add_tlc(r, "Timers exhaustive %s" % json.dumps(k))
    c.exhaustive = True
    # all interleavings of <= 4 watermark messages of 2 runners and 2 events, on the real Operator
    lbl = "all interleavings of 4 watermark messages (2 runners) and 2 events"
    if c.tier == "quick":
        all_interleavings(c, tiny, lbl, mode="registry")
        selftest(c, all_interleavings(c, tiny, lbl, limit=2500))
        all_interleavings(c, dict(tiny, NSR=3, MaxSet=1), "all interleavings of 4 watermark messages (3 runners) and 1 event", limit=1500)
    else:
        selftest(c, all_interleavings(c, tiny, lbl))
        all_interleavings(c, dict(tiny, NSR=3, MaxSet=1), "all interleavings of 4 watermark messages (3 runners) and 1 event")
        all_interleavings(c, dict(tiny, MaxT=2, MaxSet=1), "all interleavings of 4 watermark messages over 3 values (2 runners) and 1 event")
        all_interleavings(c, dict(tiny, MaxT=1, MaxSet=2, MaxAdv=3, PreEpochWM=True, MaxCkpt=1, MaxRestore=1),
                          "all interleavings of 3 watermark messages incl. the no-event watermark, 2 events, checkpoint/restore", limit=12000)
        all_interleavings(c, dict(tiny, NSR=3, MaxT=2, MaxSet=1), "all interleavings of 4 watermark messages over 3 values (3 runners) and 1 event", mode="registry")
    # longer simulated behaviours through the Operator: 2 and 3 runners, watermark of a runner without events included
    gen = dict(MaxSet=10, MaxAdv=99, MaxCkpt=1, MaxRestore=1, MaxLen=24, PreEpochWM=True, MidSet=True)
    c10.replay_sim(c, "C11", c10.consts(MaxT=4, NSR=3, **gen), nsim, s + 20, mode="operator")
    c10.replay_sim(c, "C11", c10.consts(MaxT=4, NSR=2, **gen), nsim, s + 21, mode="operator", hcfg=dict(Unit=1000000000))
    c10.adversarial(c, "C11", c10.consts(MaxT=4, NSR=2, MaxSet=12, MaxAdv=99, MaxLen=24), ["Dev_ZeroWatermark"], 500, s + 22, 40)
    if c.tier == "quick":
        operator_level(c, s, 90, 250)
        source_runner_sched(c, 40, 36, s + 30)
    else:
        operator_level(c, s, 500, 1500)
        source_runner_sched(c, 300, 240, s + 30)
    source_runner(c, 16 if c.tier == "quick" else 120)
    c.assumptions += [
        "srsched: the runner's 200 ms ticker is real time: a Tick step waits for its next boundary, every other step is followed by "
        "a 4 ms pause for the runner's goroutines to settle; where the machine is slower than that the stream differs from the "
        "model's (counted, never judged): the verdict is taken from the stream the operator received, by WatermarkTrace.tla",
        "opbatch (TimersOp.tla): see C10; the same Operator object is only re-deployed with no checkpoint open and an empty batch",
        "wmark.Watermarker.allowedLateness is unexported and always zero in the runner: the code is exercised with lateness 0 "
        "(Watermark.tla is also checked for lateness 2)",
        "the operator runs with event batch size 1 so that each keyed event / expired timer is one handler call",
        "watermark messages of one runner are non-decreasing (runner half), except that a runner may first report the "
        "watermark of a runner that has seen no event (zero time - 1ns), which is below the epoch",
    ]


def source_runner(c, runs, seed=None):
    """streams recorded from real SourceRunners (their own 200 ms ticker at uncontrolled positions) validated
    against WatermarkTrace.tla (Monotone, Below, Close as invariants of the replayed stream)"""
    payload = dict(property="C11", seed=seed if seed is not None else c.seed, config=dict(Mode="sourcerunner", Runs=runs, MaxTs=4, MaxEv=5),
                   behaviours=[], mode="sourcerunner-trace")
    res = vlib.run_harness("timers", payload)
    events = res.pop("samples", [])
    for e in res.get("errors", []):
        c.errors.append("sourcerunner: " + e)
    if not events:
        raise vlib.MachineryError("no source runner stream recorded")
    k = wm_consts()
    ok, at, tr = vlib.validate_trace("WatermarkTrace", k, events, invariants=["Monotone", "Below", "Close"])
    c.add_tlc(tr, "WatermarkTrace validation (%d events of %d SourceRunner streams)" % (len(events), runs), must_hold=False)
    runs_ = vlib.split_runs(events)
    nwm = sum(1 for e in events if e.get("op") == "wm")
    c.extra.setdefault("sourcerunner", []).append(dict(streams=len(runs_), events=len(events), watermarks=nwm))
    if nwm < len(runs_):
        c.errors.append("sourcerunner: only %d watermarks in %d streams (ticker did not fire?)" % (nwm, len(runs_)))
    if ok:
        c.traces += len(runs_)
        c.sample(dict(kind="SourceRunner output stream (one run)", events=runs_[0][1][:20]))
        # binding self-test: one corrupted watermark value must make TLC reject the recorded streams
        for i, e in enumerate(events):
            if e.get("op") == "wm" and e["v"] >= 0:
                bad = [dict(x) for x in events]
                bad[i]["v"] += 1
                ok2, _, tr2 = vlib.validate_trace("WatermarkTrace", k, bad, invariants=["Monotone", "Below", "Close"])
                if ok2:
                    c.errors.append("self-test: corrupted watermark value in line %d was accepted by WatermarkTrace" % (i + 1))
                c.extra["selftest_trace"] = "corrupted stream rejected: %s" % (not ok2)
                break
    else:
        line = at - 1 if tr.violated else at      # invariant broken by the state *after* line at-1 / line `at` not explained
        bad = [r_ for r_ in runs_ if r_[0] <= line][-1]
        idx = max(0, min(line - bad[0], len(bad[1]) - 1))
        c.add_violation("stream sent by a real SourceRunner breaks the runner half of C11 (%s) at element %d: %s; stream: %s" %
                        (tr.violated, idx, json.dumps(bad[1][idx]), json.dumps(bad[1][:idx + 1])),
                        dict(payload, recorded_run=bad[1], rejected_index=idx))


def replay(c, path):
    payload = json.load(open(path))
    if payload.get("mode") == "srsched-trace":   # judge the recorded stream itself, then drive the schedule again (3 times)
        if "recorded_run" in payload:
            judge_streams(c, payload["recorded_run"], dict(payload, behaviours=[]), "the recorded run")
        again = dict(payload, behaviours=payload["behaviours"] * 3)
        res = vlib.run_harness("timers", again)
        events = res.pop("samples", [])
        c.add_harness(res, again, "SourceRunner schedule replay")
        if events:
            judge_streams(c, events, again, "the schedule driven again", count=False)
        return
    if payload.get("mode") == "sourcerunner-trace":
        if "recorded_run" in payload:   # judge the recorded stream itself, then record again with the same seed
            ok, at, tr = vlib.validate_trace("WatermarkTrace", wm_consts(), payload["recorded_run"], invariants=["Monotone", "Below", "Close"])
            c.add_tlc(tr, "WatermarkTrace validation of the recorded run", must_hold=False)
            if not ok:
                c.add_violation("recorded SourceRunner stream breaks C11 (%s)" % tr.violated, payload)
        source_runner(c, payload["config"]["Runs"], seed=payload["seed"])
        return
    res = vlib.run_harness("timers", payload)
    c.add_harness(res, payload, "replay " + path)
