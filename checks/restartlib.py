"""One cut per (re)start: shared arm of C13, C16 and C01.

spec/Restart.tla makes jobs.Job.start() the multi-step thing it is (ReadCheckpoint, SendDeploys, DeployNode(s),
StartSplitter, Run) and the store's publication two steps (the last Ack puts the write of job-N.snapshot in flight,
PublishDone makes N current) with PublishDone enabled at any time - while the job is paused and between any two
steps of start().  Invariant SingleCut: within one start every Deploy request and the splitter's Start carry the
same checkpoint, and that checkpoint was current at some moment of that start.

Binding (model -> code): a transition cover of the 1x1 graph, simulated behaviours for WorkerCount 2 and the
schedules on which the deviating designs Dev_RereadAfterDeploy / Dev_RereadAtDeploy use two cuts (CexDump) are
forced onto the REAL jobs.Job + snapshots.Store by harness/cmd/membership mode "restart": the store's file write is
parked in a harness-owned StorageLocation, start() is parked at its first log record, inside the harness-owned
NewSourceSplitter, at every fake node's Deploy handler and inside the harness-owned SourceSplitter.Start.  The verdict
is model-free: the job checkpoint ids of the operator checkpoints in every recorded DeployOperatorRequest and of the
SourceCheckpoint (id and split positions) handed to the splitter.

Late acknowledgements (family "late", C12 / C13): todo[s] of Restart.tla = the acknowledgement member s of the assembly that
took the pending checkpoint still owes (possibly under way, also from the member that was lost); it is delivered at every
point of the following start() and after it.  NoOldAssemblyPublication: a checkpoint completes only while its own assembly is
the job's assembly.  The replayer delivers the held acknowledgements of the fake nodes at the model's Ack steps and judges
model-free: the LAST acknowledgement of a checkpoint of assembly k accepted after start k+1 has read its recovery checkpoint
(then it lets the write go and reports the store's current checkpoint and the retention announcements the new assembly got).

  C12  "published only after every operator and every source runner of the CURRENT assembly has acknowledged ...; late ...
       acknowledgements never complete or corrupt it"
  C13  "whenever the job (re)starts it recovers from THE completed checkpoint with the highest id"
       -> two cuts in one start, or a cut that was never the newest completed checkpoint during the start
  C16  "after recovery every split is resumed from its checkpointed position" (the checkpoint the job recovered from)
  C01  "no source record's effect on state is lost and none is applied twice"
       -> two cuts in one start (operators restore N, sources resume at N+1: the records in between are lost)
"""
import json
import vlib
import storelib

DEVS = ("Dev_RereadAfterDeploy", "Dev_RereadAtDeploy")          # two cuts in one start
LATE = "Dev_DiscardAtRunning"                                   # a late acknowledgement completes the old assembly's checkpoint
TLC_WORKERS = 4
ASSUMES = ("restart arm: membership is abstract (one member deregisters, a node registers again; C15 covers the rest); the fake nodes "
           "answer every Deploy; the instants at which a publication can strike inside start() are those a harness-owned interface "
           "gives without a hook (first log record, NewSourceSplitter, each node's Deploy handler, SourceSplitter.Start)")


def consts(W, ck, restarts, maxlen=1000, hold="@{}", focus=False, **dev):
    k = dict(W=W, MaxCk=ck, MaxRestarts=restarts, MaxLen=maxlen, HoldIn=hold, Focus=focus)
    for d in DEVS + (LATE,):
        k[d] = False
    k.update(dev)
    return k


def label(k):
    return "W=%d MaxCk=%d MaxRestarts=%d%s" % (k["W"], k["MaxCk"], k["MaxRestarts"], "".join(" " + d for d in DEVS + (LATE,) if k[d]))


def during_deploy(beh):
    """a publication completes while Deploy calls are outstanding (or between the read and the Deploy calls)"""
    return any(s["a"] == "PublishDone" and s["ph"] in ("read", "deploying") for s in beh)


def cuts(beh):
    """(checkpoint of the Deploy requests, checkpoint of the splitter) of the last start of a witness schedule"""
    dep = [s["ck"] for s in beh if s["a"] == "SendDeploys"]
    spl = [s["ck"] for s in beh if s["a"] == "StartSplitter"]
    return (dep[-1] if dep else -1, spl[-1] if spl else -1)


def witnesses(k, num, seed):
    """schedules (histories up to the StartSplitter step) on which the deviating design k uses two cuts in one start:
    (those whose other cut is 'no checkpoint', those between two checkpoints), shortest first"""
    r = vlib.run_tlc("Restart", cfg=dict(constants=k, invariants=["CexDump"]), simulate=num, depth=k["MaxLen"], seed=seed, timeout=200, name="Restart-cex")
    if r.error and "timeout" not in r.error:
        raise vlib.MachineryError("witness generation failed: %s\n%s" % (r.error, r.out[-3000:]))
    seen, first, later = set(), [], []
    for b in sorted(r.behaviours, key=len):
        key = json.dumps(b, sort_keys=True)
        if b[-1]["a"] != "StartSplitter" or key in seen:
            continue
        seen.add(key)
        (first if 0 in cuts(b) else later).append(b)
    return first, later, r


class Decided(Exception):
    """the tree is decided (enough violations) or too slow to finish (budget): the rest of the arm is skipped"""


def late_point(beh):
    """index of the first acknowledgement that completes a checkpoint after a later start() has discarded / read (None: never)"""
    for i, s in enumerate(beh):
        if s["a"] == "Ack" and s["complete"] and s["ph"] not in ("none", "spawned"):
            return i
    return None


def late_witnesses(k, num, seed):
    """schedules of Dev_DiscardAtRunning up to the late acknowledgement that completes the old assembly's checkpoint,
    grouped by where in start() it strikes, shortest first"""
    r = vlib.run_tlc("Restart", cfg=dict(constants=k, invariants=["CexDumpLate"]), simulate=num, depth=k["MaxLen"], seed=seed, timeout=200, name="Restart-late")
    if r.error and "timeout" not in r.error:
        raise vlib.MachineryError("witness generation failed: %s\n%s" % (r.error, r.out[-3000:]))
    seen, by_ph = set(), {}
    for b in sorted(r.behaviours, key=len):
        key = json.dumps(b, sort_keys=True)
        if late_point(b) != len(b) - 1 or key in seen:
            continue
        seen.add(key)
        # (phase, how many acknowledgements arrive late, an earlier checkpoint is current: the new assembly restores from it)
        n = sum(1 for s in b if s["a"] == "Ack" and s["ph"] not in ("none", "spawned"))
        by_ph.setdefault((b[-1]["ph"], min(n, 2), any(s["a"] == "PublishDone" for s in b)), []).append(b)
    return by_ph, r


# every wait of the replayer is bounded, and so is the whole call: a chunk of 60 behaviours takes < 1 s on a healthy tree; a
# child is killed after 25 s, after 3 violations or 150 s the remaining behaviours are skipped (a job that hangs ends the
# arm after ~100 s with "child timed out" violations; measured with a store call that never returns)
BOUNDS = dict(Chunk=60, ChildTimeoutS=25, StopAfterViolations=3, BudgetS=150)


def _replay(c, prop, k, behs, what):
    if not behs:
        raise vlib.MachineryError("no behaviours generated for " + what)
    cfg = dict(W=k["W"], mode="restart", Harness="membership", JudgeNewest=(prop == "C13"), JudgeLateAck=(prop in ("C12", "C13")), **BOUNDS)
    payload = dict(property=prop, family="restart", seed=c.seed, config=cfg, behaviours=behs)
    res = vlib.run_harness("membership", payload, timeout=600)
    c.add_harness(res, payload, "restart inside a living job, real jobs.Job: %s (%s, %d behaviours)" % (what, label(k), len(behs)))
    cn = res.get("counters", {})
    if cn.get("skipped_budget"):
        c.errors.append("restart arm: time budget exhausted replaying %s; %d behaviours not run" % (what, cn["skipped_budget"]))
        raise Decided()
    if len(c.violations) >= 3:
        raise Decided()
    return res


def coverage_of(r):
    """action -> states generated (vlib's own pattern misses actions under a quantifier: TLC prints their location twice)"""
    import re
    cov = {}
    for line in r.out.splitlines():
        m = re.match(r"^<(\w+) line \d+, col \d+ to line \d+, col \d+ of module \w+(?: \([\d ]+\))?>: (\d+):(\d+)", line)
        if m:
            cov[m.group(1)] = cov.get(m.group(1), 0) + int(m.group(3))
    return cov


def single_cut_arm(c, tier, prop, families=None):
    """families: "cut" (one cut per start: SingleCut, Dev_Reread*), "late" (late acknowledgements of the previous assembly:
    NoOldAssemblyPublication, Dev_DiscardAtRunning).  Default: both for C12 / C13, "cut" for the others."""
    if families is None:
        families = ("cut", "late") if prop in ("C12", "C13") else ("cut",)
    try:
        _arm(c, tier, prop, families)
    except Decided:
        c.extra["restart_arm_cut_short"] = True
    if ASSUMES not in c.assumptions:
        c.assumptions.append(ASSUMES)


def _arm(c, tier, prop, families):
    quick = tier == "quick"
    # 1. the design: SingleCut in every reachable state; PublishDone must really strike inside start()
    need = ("PublishPaused", "PublishBeforeRead", "PublishBeforeDeploy", "PublishDuringDeploy", "PublishAfterDeploy", "Lose", "StartSplitter",
            "AckPaused", "AckBeforeRead", "LateAckBeforeDeploy", "LateAckDuringDeploy", "LateAckAfterDeploy", "LateAckRunning")
    for k in ([consts(1, 3, 2), consts(2, 3, 2)] if quick else [consts(1, 4, 3), consts(2, 4, 2), consts(3, 3, 2)]):
        r = vlib.run_tlc("Restart", cfg=dict(constants=k, invariants=["Safety"], view="view"), workers=TLC_WORKERS, timeout=600, coverage=True)
        c.add_tlc(r, "Restart SingleCut + NoOldAssemblyPublication " + label(k))
        full = coverage_of(r)
        cov = {a: full.get(a, 0) for a in need}
        c.extra.setdefault("restart_coverage", {})[label(k)] = cov
        for a, n in cov.items():
            if r.ok and n == 0:
                c.errors.append("Restart.tla %s: action %s is never taken: the check is vacuous" % (label(k), a))
    # 2. non-vacuity + witness schedules: each deviating design uses two cuts; replayed on the real code, which must not
    wit = {}
    if "late" in families:
        k = consts(1, 2, 1, **{LATE: True})
        r = vlib.run_tlc("Restart", cfg=dict(constants=k, invariants=["Safety"], view="view"), workers=TLC_WORKERS, timeout=300)
        c.add_tlc(r, "Restart with %s (must be violated)" % LATE, must_hold=False)
        if r.violated != "Safety":
            c.errors.append("Restart.tla with %s did not violate NoOldAssemblyPublication: violated=%s error=%s" % (LATE, r.violated, r.error))
        for W in (1, 2):
            kk = consts(W, 3, 2, maxlen=44 if W == 1 else 60, focus=True, **{LATE: True})
            by_ph, r = late_witnesses(kk, 600 if quick else 3000, c.seed * 10 + 7)
            c.add_tlc(r, "Restart witness schedules with %s W=%d" % (LATE, W), must_hold=False)
            missing = [ph for ph in ("read", "deploying", "deployed") if not any(key[0] == ph for key in by_ph)]
            if not any(key[2] for key in by_ph):
                missing.append("(with an earlier checkpoint current)")
            if missing:
                raise vlib.MachineryError("no %s witness with the late acknowledgement in phase %s (W=%d)" % (LATE, missing, W))
            late = [b for key in sorted(by_ph) for b in by_ph[key][:1 if quick else 6]]
            res = _replay(c, prop, consts(W, 3, 2), late, "schedules on which a job that discards the old pending checkpoint only when it runs again publishes it")
            cn = res.get("counters", {})
            if not res.get("violations") and cn.get("late_ack_refused", 0) == 0:
                c.errors.append("restart arm W=%d: no late acknowledgement of a previous assembly's checkpoint reached the real job (%s)" % (W, res.get("drift_notes", [])[:3]))
    for i, d in enumerate(DEVS if "cut" in families else ()):
        k = consts(1, 2, 1, **{d: True})
        r = vlib.run_tlc("Restart", cfg=dict(constants=k, invariants=["Safety"], view="view"), workers=TLC_WORKERS, timeout=300)
        c.add_tlc(r, "Restart with %s (must be violated)" % d, must_hold=False)
        if r.violated != "Safety":
            c.errors.append("Restart.tla with %s did not violate SingleCut: violated=%s error=%s" % (d, r.violated, r.error))
        for W in (1, 2):
            kk = consts(W, 3, 2, maxlen=44 if W == 1 else 60, focus=True, **{d: True})
            first, later, r = witnesses(kk, 600 if quick else 3000, c.seed * 10 + i)
            c.add_tlc(r, "Restart witness schedules with %s W=%d" % (d, W), must_hold=False)
            # both kinds: the first read sees no checkpoint at all / an earlier checkpoint
            if not first or not later:
                raise vlib.MachineryError("no witness schedule with %s W=%d (%d without, %d with an earlier checkpoint)" % (d, W, len(first), len(later)))
            wit.setdefault(W, []).extend(first[:3 if quick else 10] + later[:5 if quick else 20])
    viol = 0
    for W in sorted(wit):
        res = _replay(c, prop, consts(W, 3, 2), wit[W], "schedules on which a start() that re-reads the current checkpoint uses two cuts")
        viol += len(res.get("violations", []))
        if not res.get("violations") and res.get("executed", 0) == 0:
            c.errors.append("restart arm W=%d: none of the %d witness schedules could be forced onto the real job: %s" % (W, len(wit[W]), res.get("drift_notes", [])[:3]))
        if not res.get("violations") and res.get("counters", {}).get("publish_during_deploy", 0) + res.get("counters", {}).get("publish_before_deploy", 0) == 0:
            c.errors.append("restart arm W=%d: no publication completed inside a start() of the real job" % W)
    # 3. transition cover of the 1x1 graph: every (state, step) of the model once on the real job
    for k in ([consts(1, 2, 1)] if quick else [consts(1, 2, 1), consts(1, 3, 2), consts(2, 2, 1)]):
        r = vlib.run_tlc("Restart", cfg=dict(constants=k, invariants=["DumpAll"], view="viewT"), workers=1, timeout=900, name="Restart-cover")
        if not r.ok:
            raise vlib.MachineryError("Restart cover generation failed: %s %s\n%s" % (r.error, r.violated, r.out[-2000:]))
        c.add_tlc(r, "Restart transition cover " + label(k))
        _replay(c, prop, k, storelib._maximal(r.behaviours), "transition cover")
    if "cut" not in families:
        return
    # 4. simulated behaviours, two workers, overlapping publications held back while Running / Paused
    n = 150 if quick else 1500
    for i, (hold, focus) in enumerate((('@{"Running"}', True), ('@{"Running", "Idle"}', True), ("@{}", True), ("@{}", False))):
        k = consts(2, 3 if quick else 4, 2, maxlen=60, hold=hold, focus=focus)
        behs, r = vlib.gen_behaviours("Restart", k, n, k["MaxLen"] + 5, c.seed * 100 + i, timeout=300)
        c.add_tlc(r, "Restart -simulate %s HoldIn=%s Focus=%s" % (label(k), hold[1:], focus), must_hold=False)
        _replay(c, prop, k, behs, "simulated schedules HoldIn=%s Focus=%s" % (hold[1:], focus))


def is_restart_file(payload):
    return payload.get("family") == "restart"


def replay(c, path):
    payload = json.load(open(path))
    payload.pop("violation", None)
    payload["property"] = c.prop
    payload.setdefault("config", {})["JudgeNewest"] = (c.prop == "C13")
    payload["config"]["JudgeLateAck"] = (c.prop in ("C12", "C13"))
    payload["config"].update(BOUNDS)
    res = vlib.run_harness("membership", payload, timeout=600)
    c.add_harness(res, payload, "replay " + path)
