"""C10 Event-time timers fire exactly once, in order, and survive recovery.
spec/Timers.tla (TimerRegistry + TimerStore + PartitionedPriorityQueue +
SortedCache over an abstract DKV) bound to the real code by replay
(harness/cmd/timers: registry mode and operator mode); spec/TimersOp.tla (the
operator's handler-event batcher between "timer due" and "TimerExpired given to
the handler", barriers of several runners with traffic in between, crash /
restore, re-deployment of the same Operator) bound by replay in mode opbatch."""
import json
import vlib

RULE = ("TLC proves FiredOnce/FiredOrdered/FiredDue/NoneLost/DbIsPending (+ cache-prefix and heap invariants) of "
        "Timers.tla for every history within small bounds, every cache capacity 1-3 entries and a checkpoint/restore at "
        "any position; TLC-simulated behaviours of the same spec (and the witness schedules of its repaired "
        "deviations) are executed on the real TimerRegistry/TimerStore over a real dkv.DB (restore = real DKV "
        "checkpoint + fresh DB/store/registry) and through a real operator.Operator; the timers returned by every "
        "AdvanceWatermark / delivered as TimerExpired must be exactly the pending timers at or before Min(up), each "
        "once, in non-decreasing time; TLC proves NoneLost/FiredOnce/NotEarly/CkptExact of TimersOp.tla (event batches of 1-3 "
        "items, a checkpoint cut between the barriers of different runners, restore, redeploy) and its behaviours - plus the "
        "witness schedules of the deviation 'batch flushed at the first barrier' - are executed on a real Operator with a "
        "manually fired batch timer: every TimerExpired given to the handler must be pending in the timeline (as cut when "
        "OperatorCheckpointComplete was called), and nothing due may stay pending once the batch delay has elapsed")

INV = ["FiredOnce", "FiredOrdered", "FiredDue", "NoneLost", "NoLateFire", "HandlerWM", "DbIsPending", "CacheOK", "HeapOK", "TypeOK"]
NODEV = dict(Dev_PushCountsReplace=False, Dev_PartialLoadAllIn=False, Dev_PushKeepsLater=False, Dev_ZeroWatermark=False)


def consts(**kw):
    c = dict(KGCode=112, LenCode=111, NG=2, MaxT=3, NSR=2, MaxBytes=25, MaxSet=4, MaxAdv=5, MaxCkpt=1, MaxRestore=1,
             MaxLen=100000, PreEpochWM=False, MidSet=False)
    c.update(NODEV)
    c.update(kw)
    return c


# cache capacity in entries -> SortedCache.maxSizeBytes (keys of 1 byte: 12 bytes per entry; full iff bytes >= max)
def cap(entries, entry_bytes=12):
    return entries * entry_bytes + 1


def exhaustive(c, cl, timeout=1500):
    for k in cl:
        r = vlib.run_tlc("Timers", cfg=dict(constants=k, invariants=INV, view="view"), timeout=timeout)
        c.add_tlc(r, "Timers exhaustive %s" % json.dumps(k))
    c.exhaustive = True


def show(b, n=40):
    return " ".join("%s(%s)" % (s["a"], ",".join(str(s[x]) for x in ("sr", "k", "t", "end") if x in s)) for s in b[:n])


def replay_sim(c, prop, k, n, seed, mode="registry", hcfg=None, depth=400):
    behs, r = vlib.gen_behaviours("Timers", k, n, depth, seed)
    cfg = dict(k, Mode=mode, Unit=1)
    cfg.update(hcfg or {})
    payload = dict(property=prop, seed=c.seed, config=cfg, behaviours=behs)
    res = vlib.run_harness("timers", payload)
    c.add_harness(res, payload, "Timers %s replay %s" % (mode, json.dumps(cfg)))
    if behs:
        c.sample(dict(kind="Timers behaviour replayed (%s)" % mode, steps=show(behs[0])))
    return res, payload


def selftest(c, payload):
    """binding self-test: drop one demanded timer from one Adv step of a behaviour that the code just replayed without
    complaint; the replayer must now report exactly that delivery (the verdict of the real run is not affected)"""
    import copy
    for b in payload["behaviours"]:
        for i, st in enumerate(b):
            if st["a"] == "Adv" and st["due"]:
                bb = copy.deepcopy(b)
                gone = bb[i]["due"].pop()
                res = vlib.run_harness("timers", dict(payload, behaviours=[bb]))
                hit = [v for v in res.get("violations", []) if v["step"] > i and ("key %d, t=%d" % (gone["k"], gone["t"])) in v["what"]]
                if not hit:
                    c.errors.append("self-test: a corrupted expectation (timer %s removed from the due set of step %d) was not reported" % (gone, i))
                c.extra["selftest"] = "corrupted due set reported: %s" % (hit[0]["what"] if hit else "NO")
                return
    c.errors.append("self-test: no behaviour with a non-empty due set")


def adversarial(c, prop, k, devs, n, seed, keep, hcfg=None, bfs=False):
    """Witness schedules of the deviations that were repaired in the code (DESIGN 7 #11 #13 #14, and #12 combined with
    them): histories on which a model *with* the deviation breaks C10. The real code must get them right. The Fire
    steps of such a behaviour are not binding (Free). bfs: enumerate every bad state of the (small) model instead of
    simulating."""
    kk = dict(k)
    kk.update({d: True for d in devs})
    if bfs:
        r = vlib.run_tlc("Timers", cfg=dict(constants=kk, invariants=["DumpBad"], view="view"), workers=1, timeout=900, name="Timers-wit")
        if not r.ok:
            raise vlib.MachineryError("witness enumeration failed: %s %s\n%s" % (r.error, r.violated, r.out[-2000:]))
        behs = r.behaviours
    else:
        behs, r = vlib.gen_behaviours("Timers", kk, n, 80, seed, invariant="DumpBad")
    behs.sort(key=lambda b: (len(b), json.dumps(b, sort_keys=True)))
    mins = []
    for b in behs:
        if not any(b[:len(m)] == m for m in mins):
            mins.append(b)
    if len(mins) > keep:   # spread over lengths
        step = len(mins) / float(keep)
        mins = [mins[int(i * step)] for i in range(keep)]
    if not mins:
        raise vlib.MachineryError("no witness schedules generated for %s" % devs)
    cfg = dict(kk, Mode="registry", Unit=1, Free=True)
    cfg.update(hcfg or {})
    payload = dict(property=prop, seed=c.seed, config=cfg, behaviours=mins)
    res = vlib.run_harness("timers", payload)
    c.add_harness(res, payload, "Timers adversarial %s (%d witness schedules%s)" % ("+".join(devs), len(mins), ", all bad states" if bfs else ""))
    return res


# ------------------------------------------------------------------ operator level (TimersOp.tla, mode opbatch) ----
OP_INV = ["NoneLost", "FiredOnce", "NotEarly", "CkptExact", "HandlerWM", "ToldFresh", "TypeOK"]
OP_KEYS = {1: (1, 1, 1), 2: (12, 11, 2), 3: (121, 111, 2)}   # NK -> KGCode, LenCode, NG of the concretisation


def op_consts(**kw):
    c = dict(NK=2, MaxT=2, NSR=2, BatchMax=2, MaxEv=3, MaxAdv=3, MaxCkpt=1, MaxRestore=1, MaxRedeploy=1, MaxTimeout=1,
             MaxLen=100000, ScratchRedeploy=True, Sim=False, Directed=False, Dev_FlushAtFirstBarrier=False, Dev_StaleToldWM=False)
    c.update(kw)
    return c


OP_GEN = dict(MaxT=4, MaxEv=8, MaxAdv=99, MaxCkpt=2, MaxRestore=2, MaxRedeploy=1, MaxTimeout=3, MaxLen=22, Sim=True)


def op_exhaustive(c, cl, timeout=1500):
    for k in cl:
        r = vlib.run_tlc("TimersOp", cfg=dict(constants=k, invariants=OP_INV, view="view"), timeout=timeout)
        c.add_tlc(r, "TimersOp exhaustive %s" % json.dumps(k))


def op_show(b, n=40):
    return " ".join("%s(%s)" % (s["a"], ",".join(str(s[x]) for x in ("sr", "k", "t", "last", "ck") if x in s)) for s in b[:n])


def op_payload(c, prop, k, behs, hcfg=None):
    kg, ln, ng = OP_KEYS[k["NK"]]
    cfg = dict(k, Mode="opbatch", Unit=1, KGCode=kg, LenCode=ln, NG=ng, MaxBytes=25)
    cfg.update(hcfg or {})
    return dict(property=prop, seed=c.seed, config=cfg, behaviours=behs)


def op_replay_sim(c, prop, k, n, seed, hcfg=None):
    behs, r = vlib.gen_behaviours("TimersOp", k, n, 120, seed)
    payload = op_payload(c, prop, k, behs, hcfg)
    res = vlib.run_harness("timers", payload)
    c.add_harness(res, payload, "TimersOp replay %s" % json.dumps(payload["config"]))
    if behs:
        c.sample(dict(kind="TimersOp behaviour replayed on a real Operator (batches of %d)" % k["BatchMax"], steps=op_show(behs[0])))
    return res, payload


def op_adversarial(c, prop, k, dev, n, seed, keep, hcfg=None, bfs=False):
    """complete behaviours (up to the final drain) of the model WITH the deviation in which it shows (the checkpoint
    misses a timer / a handler call is told a stale watermark); the real code must get them right"""
    kk = dict(k, Directed=True)
    kk[dev] = True
    if bfs:
        r = vlib.run_tlc("TimersOp", cfg=dict(constants=dict(kk, Sim=False), invariants=["DumpBad"], view="view"), workers=1, timeout=900,
                         name="TimersOp-wit")
        if not r.ok:
            raise vlib.MachineryError("witness enumeration failed: %s %s\n%s" % (r.error, r.violated, r.out[-2000:]))
        behs = r.behaviours
    else:
        behs, r = vlib.gen_behaviours("TimersOp", dict(kk, Sim=True), n, 120, seed, invariant="DumpBad")
    behs.sort(key=lambda b: (len(b), json.dumps(b, sort_keys=True)))
    if len(behs) > keep:
        step = len(behs) / float(keep)
        behs = [behs[int(i * step)] for i in range(keep)]
    if not behs:
        raise vlib.MachineryError("no witness schedules generated for %s" % dev)
    payload = op_payload(c, prop, kk, behs, hcfg)
    res = vlib.run_harness("timers", payload)
    c.add_harness(res, payload, "TimersOp adversarial %s BatchMax=%d (%d witness schedules%s)" % (dev, k["BatchMax"], len(behs), ", all bad states" if bfs else ""))
    return res


def op_selftest(c, payload):
    """binding self-test: lower the operator watermark one delivering step carries below a timer the code just
    delivered there without complaint; the replayer must now object to exactly that step"""
    import copy
    for b in payload["behaviours"]:
        for i, st in enumerate(b):
            xs = [it for it in st.get("dl", []) if it["ty"] == "x"]
            if st["a"] == "Adv" and xs and xs[-1]["t"] > 0:
                bb = copy.deepcopy(b)
                bb[i]["wm"] = xs[-1]["t"] - 1
                res = vlib.run_harness("timers", dict(payload, behaviours=[bb]))
                hit = [v for v in res.get("violations", []) if v["step"] == i]
                if not hit:
                    c.errors.append("self-test (opbatch): a corrupted operator watermark at step %d was not reported" % i)
                c.extra["selftest_opbatch"] = "corrupted expectation reported: %s" % (hit[0]["what"] if hit else "NO")
                return
    c.errors.append("self-test (opbatch): no behaviour delivers a timer")


def operator_level(c, s):
    """C10 at the handler of a real Operator with event batches of 1..3 items (TimersOp.tla)"""
    small = dict(MaxT=2, MaxEv=2, MaxAdv=3, MaxCkpt=1, MaxRestore=1, MaxRedeploy=0, MaxTimeout=1)
    if c.tier == "quick":
        op_exhaustive(c, [op_consts(BatchMax=2), op_consts(BatchMax=3, MaxRedeploy=0)])
        n, sims = 90, [
            (op_consts(BatchMax=2, **OP_GEN), dict()),
            (op_consts(BatchMax=3, NSR=3, **OP_GEN), dict(RangeIdx=1)),
            (op_consts(BatchMax=1, NK=3, **OP_GEN), dict(MaxBytes=cap(1), Unit=1000000000)),
        ]
        wit = [(2, 2), (3, 2)]
    else:
        op_exhaustive(c, [op_consts(BatchMax=1), op_consts(BatchMax=2), op_consts(BatchMax=3), op_consts(BatchMax=2, NSR=3, MaxEv=2, MaxRedeploy=0),
                          op_consts(BatchMax=2, MaxT=3, MaxAdv=4, MaxCkpt=2, MaxRedeploy=0, ScratchRedeploy=False)], timeout=3000)
        n, sims = 600, []
        for bm in (1, 2, 3):
            for nsr in (2, 3):
                sims.append((op_consts(BatchMax=bm, NSR=nsr, NK=2 + (bm + nsr) % 2, **dict(OP_GEN, MaxLen=30, MaxEv=12)),
                             dict(RangeIdx=(bm + nsr) % 2, Unit=[1, 1000, 1000000000][bm % 3], MaxBytes=cap(1 + bm % 3))))
        wit = [(2, 2), (3, 2), (2, 3), (3, 3)]
    for i, (k, h) in enumerate(sims):
        res, payload = op_replay_sim(c, "C10", k, n, s + 70 + i, hcfg=h)
        if i == 0:
            op_selftest(c, payload)
    for bm, nsr in wit:
        op_adversarial(c, "C10", op_consts(BatchMax=bm, NSR=nsr, **small), "Dev_FlushAtFirstBarrier", 0, 0, 400, bfs=True)


def run(c):
    s = c.seed * 1000
    if c.tier == "quick":
        exhaustive(c, [
            consts(MaxT=2),                                                                  # 2 groups, capacity 2
            consts(KGCode=11, LenCode=12, NG=1, MaxBytes=cap(1), NSR=1, MaxSet=5, MidSet=True),  # capacity 1, key lengths 1 and 2
        ])
        gen = dict(MaxSet=12, MaxAdv=99, MaxCkpt=2, MaxRestore=2, MaxLen=30, PreEpochWM=True, MidSet=True)
        n = 120
        sims = [
            (consts(MaxT=4, **gen), dict()),
            (consts(MaxT=4, MaxBytes=cap(1), Dev_PushCountsReplace=True, **gen), dict(RangeIdx=1, Unit=1000000000)),
            (consts(KGCode=1122, LenCode=1212, MaxT=4, MaxBytes=cap(3, 13), **gen), dict()),
            (consts(KGCode=11, LenCode=11, NG=1, NSR=1, MaxT=5, MaxBytes=cap(1), **dict(gen, MaxLen=24)), dict()),
        ]
        nop, nadv, keep = 60, 1500, 40
    else:
        exhaustive(c, [
            consts(MaxT=2),
            consts(KGCode=11, LenCode=12, NG=1, MaxBytes=cap(1), NSR=1, MaxSet=5, MidSet=True),
            consts(),                                                         # times 0..3
            consts(NSR=1, MaxSet=5, MaxBytes=cap(1)),                         # capacity 1, 5 registrations
            consts(MaxT=2, MaxSet=5, MaxBytes=cap(3), KGCode=1112, LenCode=1111, MaxAdv=4),   # capacity 3, 4 keys
            consts(MaxT=2, Dev_PushCountsReplace=True),                       # SortedCache as it is without the util/ds repair
            consts(MaxT=2, NSR=1, MaxSet=4, MaxCkpt=2, MaxRestore=2, MidSet=True, PreEpochWM=True),
        ], timeout=3000)
        gen = dict(MaxSet=25, MaxAdv=99, MaxCkpt=3, MaxRestore=3, MaxLen=40, PreEpochWM=True, MidSet=True)
        n = 500
        sims = []
        for i, (kg, ln, ng) in enumerate([(112, 111, 2), (11223, 11212, 3), (12312, 11111, 3), (11, 12, 1), (1111, 1122, 1)]):
            for entries in (1, 2, 3):
                sims.append((consts(KGCode=kg, LenCode=ln, NG=ng, MaxT=5, NSR=1 + (i + entries) % 3, MaxBytes=cap(entries, 13 if 2 in map(int, str(ln)) else 12),
                                    Dev_PushCountsReplace=bool(entries % 2), **gen),
                             dict(RangeIdx=(i + entries) % 2, Unit=[1, 1000, 1000000000][(i + entries) % 3])))
        nop, nadv, keep = 400, 6000, 300
    for i, (k, h) in enumerate(sims):
        res, payload = replay_sim(c, "C10", k, n, s + i, hcfg=h)
        if i == 0:
            selftest(c, payload)
    # the same over a DKV that flushes and compacts all the time (tiny memtable): fired timers' deletes, re-registrations
    # and restores then meet sstables, tombstones in memtables and checkpoints that reference tables
    for i, mt in enumerate((200,) if c.tier == "quick" else (150, 400, 1000)):
        replay_sim(c, "C10", consts(MaxT=4, MaxBytes=cap(1 + i % 3), **gen), n, s + 40 + i, hcfg=dict(MemTable=mt))
    # a cache budget smaller than the number of key groups (every key group's share rounds down to 0 bytes): timers must
    # still fire exactly once, in order (the cache is a performance device; what it holds is not demanded)
    replay_sim(c, "C10", consts(MaxT=4, MaxBytes=cap(1), **gen), max(n // 2, 20), s + 45, hcfg=dict(TotalCacheBytes=1))
    # through the real Operator (TimerExpired deliveries)
    opk = consts(MaxT=4, **dict(gen, MaxLen=24))
    replay_sim(c, "C10", opk, nop, s + 50, mode="operator")
    replay_sim(c, "C10", dict(opk, MaxBytes=cap(1), NSR=3), nop, s + 51, mode="operator", hcfg=dict(RangeIdx=1))
    # witness schedules of the repaired deviations
    adv = consts(MaxT=4, NSR=1, MaxSet=12, MaxAdv=99, MaxCkpt=1, MaxRestore=1, MaxLen=24, Dev_PushCountsReplace=True)
    adversarial(c, "C10", adv, ["Dev_PartialLoadAllIn"], nadv, s + 60, keep)
    small = consts(KGCode=11, LenCode=11, NG=1, MaxT=3, NSR=1, MaxSet=5, MaxAdv=4, MaxCkpt=0, MaxRestore=0)
    adversarial(c, "C10", small, ["Dev_PushKeepsLater"], 0, 0, 200, bfs=True)
    adversarial(c, "C10", dict(small, MaxSet=4, MaxAdv=3, MaxCkpt=1, MaxRestore=1, MidSet=True), ["Dev_PushKeepsLater"], 0, 0, keep * 4, bfs=True)
    adversarial(c, "C10", dict(adv, MaxBytes=cap(1)), ["Dev_PartialLoadAllIn", "Dev_PushKeepsLater"], nadv, s + 62, keep)
    adversarial(c, "C10", dict(adv, NSR=2), ["Dev_ZeroWatermark"], nadv // 3, s + 63, keep)
    operator_level(c, s)
    c.assumptions += [
        "operator level (TimersOp.tla / opbatch): a runner whose barrier has arrived sends nothing until the checkpoint completes "
        "(alignment is C02's subject); the same Operator object is only re-deployed with no checkpoint open and an empty batch "
        "(DESIGN 7 #22 / C15 otherwise); the ledger is cut when OperatorCheckpointComplete is called; 'the batch delay has elapsed' "
        "= the harness fires the operator's batch timer (opkit.Timer) and lets the event loop settle",
        "most replays use the DKV with its default (64 MB) memtable (nothing is flushed, restore replays the checkpoint's "
        "WAL); the runs labelled MemTable=<n> use a tiny memtable so that flushes, compactions and table-referencing "
        "checkpoints happen throughout (needs the DKV read-path repairs of C07/C08 to be present in the tree)",
        "key concretisation: 1-2 byte subject keys hashed into the modelled key groups, order preserving; model time "
        "unit = 1 ns, 1 us or 1 s after the epoch",
        "AdvanceWatermark's iterator is always consumed to its end (as operator.handleWatermark does)",
    ]


def replay(c, path):
    payload = json.load(open(path))
    res = vlib.run_harness("timers", payload)
    c.add_harness(res, payload, "replay " + path)
