"""C20 Batching never loses, duplicates or reorders items.
spec/Fetcher.tla (ReorderFetcher + ReorderBuffer + EventBatcher at critical-
section granularity) and spec/Batcher.tla (EventBatcher call strings)."""
import json
import vlib

RULE = ("TLC explores every interleaving of caller / time-out / fetch goroutines of Fetcher.tla for small "
        "constants (InOrder, NoLoss); simulated behaviours of the same spec are replayed on the real "
        "ReorderFetcher through scheduler gates, output compared after every action")

FETCH_CONSTS = dict(NItems=4, MaxSize=2, BufSize=2, UseTimer=True, MaxFires=3, MaxExplicit=1, Atomic=True, MaxLen=1000)


def fetcher(c, consts_list, nbeh, exhaustive_consts):
    for i, ec in enumerate(exhaustive_consts):
        r = vlib.run_tlc("Fetcher", cfg=dict(constants=ec, invariants=["InOrder", "NoLoss", "ReservedOK", "TypeOK"], view="view"),
                         timeout=900)
        c.add_tlc(r, "Fetcher exhaustive %s" % json.dumps(ec))
    for i, consts in enumerate(consts_list):
        behs, r = vlib.gen_behaviours("Fetcher", consts, nbeh, 80, c.seed * 1000 + i)
        payload = dict(property="C20", seed=c.seed, config=consts, behaviours=behs)
        res = vlib.run_harness("fetcher", payload)
        c.add_harness(res, payload, "Fetcher replay %s" % json.dumps(consts))
        if behs:
            c.sample(dict(kind="Fetcher behaviour", config=consts, steps=behs[0][:12]))


def racy(beh):
    """behaviour in which one flusher takes a batch while the other is between Flush and Reserve"""
    pc = {"c": "idle", "t": "idle"}
    for s in beh:
        if s["a"] == "FlushTake":
            other = "t" if s["g"] == "c" else "c"
            if pc[other] == "reserve":
                return True
            pc[s["g"]] = "reserve" if s["took"] else "idle"
        elif s["a"] == "Reserve":
            pc[s["g"]] = "idle"
    return False


def adversarial(c, consts, nbeh, keep):
    """schedules only the unrepaired design admits (Atomic = FALSE): the code must serialise them"""
    consts = dict(consts, Atomic=False)
    behs, r = vlib.gen_behaviours("Fetcher", consts, nbeh, 80, c.seed * 1000 + 77)
    behs = [b for b in behs if racy(b)][:keep]
    if not behs:
        raise vlib.MachineryError("no racy behaviours generated")
    payload = dict(property="C20", seed=c.seed, config=dict(consts, Adversarial=True), behaviours=behs)
    res = vlib.run_harness("fetcher", payload)
    c.add_harness(res, payload, "Fetcher adversarial (non-atomic flush schedules)")


def run(c):
    gen = dict(FETCH_CONSTS, MaxLen=60)
    if c.tier == "quick":
        ex = [FETCH_CONSTS]
        cl = [dict(gen, NItems=5), dict(gen, NItems=5, MaxSize=1, BufSize=1), dict(gen, NItems=6, MaxSize=3, BufSize=1)]
        n = 120
    else:
        ex = [FETCH_CONSTS, dict(FETCH_CONSTS, NItems=5, MaxSize=3, BufSize=1, MaxFires=4),
              dict(FETCH_CONSTS, NItems=5, MaxSize=1, BufSize=3, MaxFires=2), dict(FETCH_CONSTS, NItems=5, MaxSize=2, BufSize=2, MaxFires=4, MaxExplicit=2)]
        cl = [dict(gen, NItems=n_, MaxSize=ms, BufSize=bs, MaxFires=5, MaxExplicit=2, MaxLen=120)
              for n_ in (6, 8) for ms in (1, 2, 3) for bs in (1, 2, 3)]
        n = 400
    fetcher(c, cl, n, ex)
    adversarial(c, dict(gen, NItems=5), 400 if c.tier == "quick" else 2000, 60 if c.tier == "quick" else 400)


def replay(c, path):
    payload = json.load(open(path))
    res = vlib.run_harness("fetcher", payload)
    c.add_harness(res, payload, "replay " + path)
