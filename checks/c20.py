"""C20 Batching never loses, duplicates or reorders items.
spec/Fetcher.tla (ReorderFetcher + ReorderBuffer + EventBatcher at critical-
section granularity) and spec/Batcher.tla (EventBatcher call strings)."""
import json
import vlib

RULE = ("TLC explores every interleaving of caller / time-out / fetch goroutines of Fetcher.tla for small "
        "constants (InOrder, NoLoss); simulated behaviours of the same spec are replayed on the real "
        "ReorderFetcher through scheduler gates, output compared after every action")

FETCH_CONSTS = dict(NItems=4, MaxSize=2, BufSize=2, UseTimer=True, MaxFires=3, MaxExplicit=1, Atomic=True, MaxLen=1000)


def fetcher(c, consts_list, nbeh, exhaustive_consts):
    for i, ec in enumerate(exhaustive_consts):
        r = vlib.run_tlc("Fetcher", cfg=dict(constants=ec, invariants=["InOrder", "NoLoss", "ReservedOK", "TypeOK"], view="view"),
                         timeout=900)
        c.add_tlc(r, "Fetcher exhaustive %s" % json.dumps(ec))
    for i, consts in enumerate(consts_list):
        behs, r = vlib.gen_behaviours("Fetcher", consts, nbeh, 80, c.seed * 1000 + i)
        payload = dict(property="C20", seed=c.seed, config=consts, behaviours=behs)
        res = vlib.run_harness("fetcher", payload)
        c.add_harness(res, payload, "Fetcher replay %s" % json.dumps(consts))
        if behs:
            c.sample(dict(kind="Fetcher behaviour", config=consts, steps=behs[0][:12]))


def racy(beh):
    """behaviour in which one flusher takes a batch while the other is between Flush and Reserve"""
    pc = {"c": "idle", "t": "idle"}
    for s in beh:
        if s["a"] == "FlushTake":
            other = "t" if s["g"] == "c" else "c"
            if pc[other] == "reserve":
                return True
            pc[s["g"]] = "reserve" if s["took"] else "idle"
        elif s["a"] == "Reserve":
            pc[s["g"]] = "idle"
    return False


def adversarial(c, consts, nbeh, keep):
    """schedules only the unrepaired design admits (Atomic = FALSE): the code must serialise them"""
    consts = dict(consts, Atomic=False)
    behs, r = vlib.gen_behaviours("Fetcher", consts, nbeh, 80, c.seed * 1000 + 77)
    behs = [b for b in behs if racy(b)][:keep]
    if not behs:
        raise vlib.MachineryError("no racy behaviours generated")
    payload = dict(property="C20", seed=c.seed, config=dict(consts, Adversarial=True), behaviours=behs)
    res = vlib.run_harness("fetcher", payload)
    c.add_harness(res, payload, "Fetcher adversarial (non-atomic flush schedules)")


def batcher(c, max_size, max_ops, runs, ops, seed=None):
    consts = dict(MaxSize=max_size, UseTimer=True, MaxOps=max_ops)
    r = vlib.run_tlc("Batcher", cfg=dict(constants=consts, invariants=["HandedOK", "ArmedOK", "ArmedCurrentHasBatch", "InflightOld"]))
    c.add_tlc(r, "Batcher exhaustive %s" % json.dumps(consts))
    payload = dict(property="C20", seed=seed if seed is not None else c.seed * 31 + max_size, config=dict(MaxSize=max_size, UseTimer=True, Runs=runs, Ops=ops), mode="batcher-trace")
    res = vlib.run_harness("batcher", payload)
    events = res.pop("samples")
    ok, at, tr = vlib.validate_trace("BatcherTrace", consts, events, invariants=["HandedOK"])
    c.add_tlc(tr, "BatcherTrace validation (%d events)" % len(events), must_hold=False)
    runs_ = vlib.split_runs(events)
    if ok:
        c.traces += len(runs_)
        c.sample(dict(kind="EventBatcher recorded trace (first run)", events=runs_[0][1][:15]))
    else:
        bad = [r_ for r_ in runs_ if r_[0] <= at][-1]
        c.add_violation("EventBatcher trace rejected by BatcherTrace.tla at event %d of the run: %s" %
                        (at - bad[0] + 1, json.dumps(events[at - 1]) if at <= len(events) else "end"),
                        dict(payload, recorded_run=bad[1], rejected_index=at - bad[0]))
    for e in res.get("errors", []):
        c.errors.append(e)


def run(c):
    gen = dict(FETCH_CONSTS, MaxLen=60)
    if c.tier == "quick":
        ex = [FETCH_CONSTS]
        cl = [dict(gen, NItems=5), dict(gen, NItems=5, MaxSize=1, BufSize=1), dict(gen, NItems=6, MaxSize=3, BufSize=1)]
        n = 120
    else:
        ex = [FETCH_CONSTS, dict(FETCH_CONSTS, NItems=5, MaxSize=3, BufSize=1, MaxFires=4),
              dict(FETCH_CONSTS, NItems=5, MaxSize=1, BufSize=3, MaxFires=2), dict(FETCH_CONSTS, NItems=5, MaxSize=2, BufSize=2, MaxFires=4, MaxExplicit=2)]
        cl = [dict(gen, NItems=n_, MaxSize=ms, BufSize=bs, MaxFires=5, MaxExplicit=2, MaxLen=120)
              for n_ in (6, 8) for ms in (1, 2, 3) for bs in (1, 2, 3)]
        n = 400
    fetcher(c, cl, n, ex)
    for ms in ((1, 2, 3) if c.tier == "quick" else (1, 2, 3, 5)):
        batcher(c, ms, 7 if c.tier == "quick" else 9, 60 if c.tier == "quick" else 600, 30)
    adversarial(c, dict(gen, NItems=5), 400 if c.tier == "quick" else 2000, 60 if c.tier == "quick" else 400)


def replay(c, path):
    payload = json.load(open(path))
    if payload.get("mode") == "batcher-trace":
        # re-record with the same seed and validate again
        cfg = payload["config"]
        batcher(c, cfg["MaxSize"], 7, cfg["Runs"], cfg["Ops"], seed=payload["seed"])
        return
    res = vlib.run_harness("fetcher", payload)
    c.add_harness(res, payload, "replay " + path)
