ENGINES = [dict(name="Savepoint", path="spec/Savepoint.tla", serves_properties=["C14"],
                kind_free_text="TLA+ spec of savepoint creation and restore: store coordination (CreateCheckpoint / CreateSavepoint folding into the pending checkpoint, "
                               "acks, asynchronous publication, retention), operators' DKV checkpoint documents with several entries (WAL + level-list tables each, memtable / L0 / deeper), "
                               "the per-operator artifact copy from the document as it is when the copy runs, Wipe, start from the savepoint URI; TLC exhaustive + behaviours and "
                               "Dev_ListLatest counterexamples replayed end-to-end on the real in-process cluster on a real directory (harness/cmd/savepoint, harness/cluster)")]
CHECKS = {
    "C14": dict(engine="Savepoint",
                technique="TLA+/TLC model checking of Savepoint.tla; TLC-generated schedules replayed end-to-end on the real jobs.Job / snapshots.Store / SourceRunners / Operators / dkv "
                          "on a real LocalDirectory through gates, then rm -rf of the working storage and a second cluster started from the savepoint URI",
                text="TLC proves SavepointClosed (the savepoint holds what each operator's checkpoint n - not the latest entry of its document - references), RestoredEqualsSnap, FoldsIntoPending, "
                     "AtMostOnePending, Undisturbed and PublishedIsCut over every interleaving of periodic checkpoints, the savepoint request (before / during / after a periodic checkpoint), "
                     "acknowledgements in any order, publication, retention rounds, flushes / compactions, further checkpoints before the per-operator copy, wipe and restore into N in {1,2} for 1-2 "
                     "operators, and that the model with ListFiles as found violates SavepointClosed. Simulated behaviours and the counterexamples of that deviating model are forced onto the real "
                     "cluster (gates hold acks, the snapshot write, retention calls and the artifact's document reads) under three data layouts (WAL only / L0 / deeper levels, tiny memtables via "
                     "verif Tune hooks); verdicts: CreateSavepoint's id and that nothing is started on a fold, the savepoint directory's contents against the document entry of ITS id, and - after "
                     "rm -rf of the working storage - source positions and the complete state of every key as given to the reference handler of a job started from the savepoint URI "
                     "(plus checkpoints of the restored job when the worker count is unchanged); the running job's handler inputs and published checkpoints are compared with the exactly-once run.",
                note="Bounded: <=2 operators, <=4 checkpoints, one savepoint per behaviour; all operators checkpoint in one step (alignment is C02); publications in id order (C13); no late retention "
                     "(#28); timers not exercised by the kit's handler (same DKV files); checkpoints of a rescaled restored job are C06; needs the rescale family's multi-handle repairs for N < W."),
}
