ENGINES = [dict(name="Savepoint", path="spec/Savepoint.tla", serves_properties=["C14"],
                kind_free_text="TLA+ spec of savepoint creation and restore: store coordination (CreateCheckpoint / CreateSavepoint folding into the pending checkpoint, "
                               "acks, asynchronous publication in ANY completion order (a publication overtaken by the next checkpoint's is superseded on arrival; a superseded savepoint still gets its artifact), "
                               "retention), savepoint chains (the job started from a savepoint goes on: ids continue, more checkpoints, a second savepoint, wipe, restore), operators' DKV checkpoint documents with several entries (WAL + level-list tables each, memtable / L0 / deeper), "
                               "the per-operator artifact copy from the document as it is when the copy runs, Wipe, start from the savepoint URI; TLC exhaustive + behaviours and "
                               "Dev_ListLatest counterexamples replayed end-to-end on the real in-process cluster on a real directory (harness/cmd/savepoint, harness/cluster)")]
CHECKS = {
    "C14": dict(engine="Savepoint",
                technique="TLA+/TLC model checking of Savepoint.tla; TLC-generated schedules replayed end-to-end on the real jobs.Job / snapshots.Store / SourceRunners / Operators / dkv "
                          "on a real LocalDirectory through gates, then rm -rf of the working storage and a second cluster started from the savepoint URI",
                text="TLC proves SavepointClosed (the savepoint holds what each operator's checkpoint n - not the latest entry of its document - references), RestoredEqualsSnap, FoldsIntoPending, "
                     "AtMostOnePending, Undisturbed and PublishedIsCut over every interleaving of periodic checkpoints, the savepoint request (before / during / after a periodic checkpoint), "
                     "acknowledgements in any order, publication, retention rounds, flushes / compactions, further checkpoints before the per-operator copy, wipe and restore into N in {1,2} for 1-2 "
                     "operators, and that the model with ListFiles as found violates SavepointClosed. Simulated behaviours and the counterexamples of that deviating model are forced onto the real "
                     "cluster (gates hold acks, the snapshot write, retention calls and the artifact's document reads) under three data layouts (WAL only / L0 / deeper levels, tiny memtables via "
                     "verif Tune hooks); verdicts: CreateSavepoint's id and that nothing is started on a fold, the savepoint directory's contents against the document entry of ITS id, and - after "
                     "rm -rf of the working storage - source positions and the complete state of every key as given to the reference handler of a job started from the savepoint URI "
                     "(plus checkpoints of the restored job when the worker count is unchanged); the running job's handler inputs and published checkpoints are compared with the exactly-once run. "
                     "Overlap: PubWrite finishes in any order and a batch of behaviours (SpHold) holds the savepoint's snapshot write at the store gate while the next checkpoint is started, acknowledged and "
                     "published; TLC proves SpFailedOnlyIfDropped / SpProducedUnlessOvertaken and the replayer demands the artifact of every handed-out savepoint whose checkpoint was published unless the "
                     "model says retention / a newer publication had already taken entry n / job snapshot n away. Chains (Gens=2): the cluster started from the first savepoint is gated like the first "
                     "job, takes further checkpoints and a second savepoint (ids of the real store mapped onto the model's), is wiped, and the job started from the SECOND savepoint must resume at that "
                     "savepoint's cut with exactly its state.",
                note="Bounded: <=2 operators, <=4 checkpoints (6 over a chain), one savepoint per job generation, chains of 2 savepoints with an unchanged worker count; all operators checkpoint in one step (alignment is C02); no late retention "
                     "(#28); timers not exercised by the kit's handler (same DKV files); checkpoints of a rescaled restored job are C06; needs the rescale family's multi-handle repairs for N < W."),
}
