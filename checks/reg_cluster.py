"""Registry fragment of the cluster family (C01)."""
ENGINES = [
    dict(name="Restart", path="spec/Restart.tla", serves_properties=["C01", "C13", "C16"],
         kind_free_text="TLA+ spec of one (re)start of jobs.Job inside a living job: start() as ReadCheckpoint / SendDeploys / DeployNode per member / "
                        "StartSplitter / Run, the store's publication as last acknowledgement (write in flight) / PublishDone enabled at any time, "
                        "ghost checkpoint ids of every Deploy request and of the splitter, invariant SingleCut; TLC exhaustive with -coverage, "
                        "transition cover + simulated behaviours + witness schedules of the deviating designs Dev_RereadAfterDeploy / Dev_RereadAtDeploy "
                        "replayed on the real jobs.Job + snapshots.Store with fake nodes (harness/cmd/membership mode restart, checks/restartlib.py)"),
    dict(name="Recovery", path="spec/Recovery.tla", serves_properties=["C01", "C14"],
         kind_free_text="TLA+ spec of a whole reduction cluster at message granularity (runner reads, per-(runner,operator) channels with "
                        "head-of-line blocking, barrier alignment, operator batching, job checkpoint coordination with acks in any order, "
                        "asynchronous publication, Kill of any node set at any state, Restart from the newest published checkpoint) over "
                        "abstract operator stores; TLC exhaustive + behaviours replayed through the message-level gates of the in-process "
                        "cluster kit harness/cluster (real jobs.Job, SourceRunner, Operator, dkv) by harness/cmd/recovery; "
                        "spec/RecoveryTrace.tla validates recorded free-running executions"),
]
CHECKS = {
    "C01": dict(
        engine="Recovery",
        technique="TLA+/TLC model checking of Recovery.tla; TLC-generated kill/ack/delivery schedules replayed on the real in-process cluster "
                  "through harness-owned adapters (no network, no hooks); recorded seeded free-running runs validated by RecoveryTrace.tla; one cut per restart: spec/Restart.tla (start() stepped, publication in two steps) replayed on the real jobs.Job with fake nodes, the snapshot write and every step of start() gated (checks/restartlib.py)",
        text="TLC exhaustively checks NoDouble/SeenIsClean/NoLoss/FinalState/ConsistentCut for 2 workers, 2 splits x 2 records, <=2 checkpoints, "
             "<=2 kills of any node set (incl. the job) at every state and every ack order; hundreds of simulated behaviours of the same spec are "
             "forced step by step onto the real Job/SourceRunner/Operator/dkv and judged by the state the real handler is given for every event, "
             "every published job checkpoint read back from the operators' DKV checkpoint files, and the final state; seeded free-running runs with "
             "random ack orders, kill sets and kill moments are validated as traces.",
        note="Bounded constants; one assembly per job (a restart is a new Job + fresh workers; of a re-assembly inside a living job the restart arm "
             "- Restart.tla stepped through start() of the real jobs.Job with the publication gated - checks that operators and sources resume from "
             "one cut, the rest is C15); rescale on restart and DKV "
             "flush/compaction under the operators are not exercised (default memtable sizes); watermarks are dropped in replay mode and passed in "
             "trace mode; publication (write + delete old + retention round) is atomic w.r.t. kills; no new checkpoint is started while a "
             "publication is in flight or a node is dead."),
}
