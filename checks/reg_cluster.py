"""Registry fragment of the cluster family (C01)."""
ENGINES = [
    dict(name="Restart", path="spec/Restart.tla", serves_properties=["C01", "C13", "C16"],
         kind_free_text="TLA+ spec of one (re)start of jobs.Job inside a living job: start() as ReadCheckpoint / SendDeploys / DeployNode per member / "
                        "StartSplitter / Run, the store's publication as last acknowledgement (write in flight) / PublishDone enabled at any time, "
                        "ghost checkpoint ids of every Deploy request and of the splitter, invariant SingleCut; TLC exhaustive with -coverage, "
                        "transition cover + simulated behaviours + witness schedules of the deviating designs Dev_RereadAfterDeploy / Dev_RereadAtDeploy "
                        "replayed on the real jobs.Job + snapshots.Store with fake nodes (harness/cmd/membership mode restart, checks/restartlib.py)"),
    dict(name="Recovery", path="spec/Recovery.tla", serves_properties=["C01", "C14"],
         kind_free_text="TLA+ spec of a whole reduction cluster at message granularity (runner reads, per-(runner,operator) channels with "
                        "head-of-line blocking, barrier alignment, operator batching, job checkpoint coordination with acks in any order, "
                        "asynchronous publication (several writes in flight, superseded writes), Kill of any node set at any state, Restart from the newest "
                        "published checkpoint with the same or ANOTHER worker count (key groups re-cut like partitioning.KeySpace, old operator checkpoints "
                        "assigned by range overlap like jobs.Assembly.Deploy / partitioning.AssignRanges) over "
                        "abstract operator stores; TLC exhaustive + behaviours replayed through the message-level gates of the in-process "
                        "cluster kit harness/cluster (real jobs.Job, SourceRunner, Operator, dkv) by harness/cmd/recovery; "
                        "spec/RecoveryTrace.tla validates recorded free-running executions"),
]
CHECKS = {
    "C01": dict(
        engine="Recovery",
        technique="TLA+/TLC model checking of Recovery.tla; TLC-generated kill/ack/delivery/publication/rescale schedules replayed on the real "
                  "in-process cluster through harness-owned adapters (no network; only the verif-tag tunables of dkv's memtable / level sizes); "
                  "recorded seeded free-running runs validated by RecoveryTrace.tla; one cut per restart: spec/Restart.tla (start() stepped, "
                  "publication in two steps) replayed on the real jobs.Job with fake nodes, the snapshot write and every step of start() gated "
                  "(checks/restartlib.py)",
        text="TLC exhaustively checks NoDouble/SeenIsClean/NoLoss/FinalState/ConsistentCut for 2 workers, 2 splits x 2 records, <=2 checkpoints, "
             "<=2 kills of any node set (incl. the job) at every state and every ack order; hundreds of simulated behaviours of the same spec are "
             "forced step by step onto the real Job/SourceRunner/Operator/dkv and judged by the state the real handler is given for every event, "
             "every published job checkpoint read back from the operators' DKV checkpoint files, and the final state; seeded free-running runs with "
             "random ack orders, kill sets and kill moments are validated as traces. "
             "Further arms (checks/c01_deep.py): the same replay and trace runs with dkv memtables of a few dozen bytes and 1-byte levels, so that "
             "flushes and compactions run under the operators and restarts restore from compacted tables + L0 tables + WAL tails (counted; zero = "
             "machinery error); restart with another worker count (1<->2 exhaustive in TLC, 1<->2 and 2<->3 replayed, 1..3 in free-running traces): "
             "splits re-assigned, several old operator checkpoints merged into one new operator / one old checkpoint shared by several; a new "
             "checkpoint created while the previous snapshot write is in flight, writes landing in either order, kills inside that window. "
             "Survivors arm (checks/c01_surv.py, harness/cluster/survivors.go): after a Kill only the killed workers are replaced - the others "
             "keep their Operator / SourceRunner objects and are deployed again in place by the surviving jobs.Job (heartbeat expiry, pause, "
             "re-assembly of the first N registered operators in id order) or by a new Job when the job was killed too; replacement ids sort "
             "after or before the survivors', so survivors move to other key-group ranges and restore other operators' checkpoints; calls of "
             "the old assembly are delivered late to redeployed survivors; snapshot writes of the old assembly land after the "
             "re-assembly; dkv tuned as in the deep arms and the garbage collector forced after every such restart.",
        note="Bounded constants (worker counts 1..3); one assembly per job (a restart is a new Job + fresh workers; the worker count only "
             "changes with such a restart; of a re-assembly inside a living job the restart arm - Restart.tla stepped through start() of the real "
             "jobs.Job with the publication gated - checks that operators and sources resume from one cut, the rest is C15); dkv flush/compaction run free under the operators (tuned sizes), their "
             "interleaving with the DKV checkpoint is sampled by the Go scheduler, not enumerated (C08/C18 enumerate it); watermarks are dropped "
             "in replay mode and passed in trace mode; the snapshot write may stay in flight across kills and the next checkpoint, but one "
             "publication (write + deletion of the old file + retention round to the operators) is one step; no new checkpoint is started "
             "while one is pending or a node is dead (the job refuses / cannot complete it). Survivors arm: a call to a killed node hangs, "
             "StartCheckpoint calls of the old assembly fail and its checkpoint acknowledgements are rejected by the job; a late call whose "
             "caller has been cancelled (redeployed or gone) is not handled (connection-oriented RPC); a worker one half of which ends by "
             "itself stops as a whole and is replaced; free-running (trace) survivors runs are not part of the check: without flow control "
             "every re-assembly kills the surviving runners that send during an operator's loading window, so all workers end up replaced."),
}
