"""C13 Restart resumes from the newest completed checkpoint; retention keeps it.
spec/Store.tla: asynchronous publication (Write, then spawned Remove and
notification) of overlapping checkpoints, crash after any storage operation,
restart = LoadCheckpoint over the listing order of the encoded file names;
replayed on the real snapshots.Store over a gated real LocalDirectory, with real
dkv.DBs receiving the retained-sets."""
import json
import vlib
import storelib as S
import restartlib

RULE = ("TLC checks LoadsNewest / NewestSurvives / RetainNamesNewest / OperatorsKeepNewest / CurrentIsNewest of Store.tla over every "
        "order of the asynchronous write, delete and notify steps of overlapping publications and a crash after any storage "
        "operation; the schedules are forced onto the real snapshots.Store through a gated StorageLocation over a real "
        "LocalDirectory (restart = real LoadCheckpoint on that directory), notifications are delivered to real dkv.DBs; "
        "up to 5 back-to-back checkpoints with their writes landing in every order are replayed against a subscriber that "
        "receives only when the model delivers (unbuffered channel) and with the notification goroutines released in every "
        "order; the job -> operator boundary (Forward / OpHandle) is replayed on the real jobs.Job with held "
        "UpdateRetainedCheckpoints requests; "
        "directory states with up to three snapshot ids around base64 character-class boundaries are materialised and loaded; "
        "one cut per restart (Restart.tla): start() of the real jobs.Job is stepped (read, Deploy per node, splitter start) while "
        "the gated publication of an acknowledged checkpoint completes in between; every Deploy request and the splitter must carry "
        "one checkpoint that was the newest completed one during that start")

# (first id, span): windows of ids around the places where a character of the encoded name changes its
# base64 class ('_' '-' digits lower upper sort differently in ASCII than in value): the last character
# cycles every 16 ids, the one before changes class at ids 16, 32, 192, 608 (+1024k), the next at 1024,
# 2048, 12288, 38912, then 2^16, 2^18 (carry into the 4th character from the end), 2^24
WINDOWS_QUICK = [(1, 23), (186, 12), (602, 12), (4088, 12)]
WINDOWS_THOROUGH = [(1, 23), (24, 23), (180, 20), (598, 20), (1016, 16), (2040, 16), (4084, 20), (12280, 16), (38904, 16),
                    (65524, 20), (262136, 16), (16777200, 16)]


# publication schedules without crashes and without the Remove steps (they stay parked)
PIPE = [a for a in S.GOOD if a not in ("Restart", "Delete")]


def out_of_order_notify(beh):
    pending = []
    for s in beh:
        if s["a"] == "NotifySend":
            if s["id"] != min(pending + [s["id"]]):
                return True
        pending = list(s["nt"])
    return False


def run(c):
    quick = c.tier == "quick"
    # 0. a restart inside a living job recovers from ONE checkpoint, the newest completed one (spec/Restart.tla, real jobs.Job)
    restartlib.single_cut_arm(c, c.tier, "C13")
    # 1. the repaired design: every schedule and crash point within the bounds
    S.exhaustive(c, "well-formed acks, whole state graph", MaxLen=1000, StartId=1, IdSpan=4 if quick else 5, MaxInFlight=3,
                 MaxRestarts=2 if quick else 3, Acts=S.GOOD)
    S.exhaustive(c, "2 operators, savepoints", MaxLen=1000, StartId=2, IdSpan=3 if quick else 4, MaxInFlight=3, MaxRestarts=2,
                 Ops={"o1", "o2"}, Acts=S.PUBL, timeout=2400)
    S.exhaustive(c, "full alphabet, depth-bounded", MaxLen=9 if quick else 11, StartId=2, IdSpan=3)
    if not quick:
        S.exhaustive(c, "6 checkpoints, 3 restarts", MaxLen=1000, StartId=1, IdSpan=6, MaxInFlight=3, MaxRestarts=3, Acts=S.GOOD)
        S.exhaustive(c, "2x2 assembly, 4 publications in flight", MaxLen=1000, StartId=1, IdSpan=5, MaxInFlight=4, MaxRestarts=3, Acts=S.GOOD,
                     Ops={"o1", "o2"}, Srs={"s1", "s2"})
    # 2. non-vacuity: each pre-repair behaviour is a counterexample
    S.must_break(c, "Pre_ListLexical", {"NoBad"}, MaxLen=1000, StartId=2, Acts=S.GOOD)
    S.must_break(c, "Pre_LateClobbers", {"NoBad", "NewestSurvives", "CurrentIsNewest", "OperatorsKeepNewest", "RetainNamesNewest"}, MaxLen=1000, StartId=1, Acts=S.GOOD)
    S.must_break(c, "Pre_NotifyUnordered", {"NoBad", "RetainNamesNewest", "OperatorsKeepNewest"}, MaxLen=1000, StartId=1, IdSpan=3, MaxInFlight=3, Acts=S.GOOD)
    S.must_break(c, "Pre_RetainDropsNewer", {"NoBad", "OperatorsKeepNewest"}, MaxLen=1000, StartId=1, Acts=S.GOOD)
    # 3. transition cover of the publication / crash graph, replayed with real DKVs
    for start in ((2, 14) if quick else (2, 14, 61, 4094)):
        # (quick: the second id range with one restart less -- the schedules are those of the first, only the file names differ)
        behs, cs = S.cover(c, "publication schedules and crash points", MaxLen=1000, StartId=start, IdSpan=3, MaxInFlight=3,
                           MaxRestarts=1 if quick and start != 2 else 2, Acts=S.GOOD)
        S.replay(c, behs, cs, "cover replay", WithDkv=True)
    behs, cs = S.cover(c, "full alphabet", MaxLen=7 if quick else 8, StartId=2)
    S.replay(c, behs, cs, "cover replay", WithDkv=True)
    # 4. longer simulated schedules: more checkpoints in flight, more restarts, bigger assemblies, other id ranges
    n = 300 if quick else 2500
    shapes = [dict(StartId=1, Ops={"o1", "o2"}), dict(StartId=13), dict(StartId=60, Srs={"s1", "s2"})]
    if not quick:
        shapes += [dict(StartId=4092, Ops={"o1", "o2"}), dict(StartId=65530), dict(StartId=0, Ops={"o1", "o2", "o3"}), dict(StartId=29, Acts=S.ALL, MaxLen=14)]
    for i, sh in enumerate(shapes):
        behs, cs = S.simulate(c, n, c.seed * 1000 + i, **dict(dict(MaxLen=26, IdSpan=6, MaxInFlight=3, MaxRestarts=3, Acts=S.GOOD, MaxTok=4), **sh))
        S.replay(c, behs, cs, "simulated schedules", WithDkv=True)
        if i == 0 and behs:
            c.sample(dict(kind="Store behaviour (publication schedule)", steps=[{k: s[k] for k in s if k in ("a", "id", "op", "sr", "ids", "by", "pick", "files", "cur")} for s in behs[0]]))
    # 5. schedules only the unrepaired design admits: notification goroutines overtaking each other
    behs, cs = S.simulate(c, 150 if quick else 1000, c.seed * 1000 + 77, keep=out_of_order_notify, MaxLen=24, StartId=1, IdSpan=5, MaxInFlight=3,
                          MaxRestarts=0, Acts=S.GOOD, Pre_NotifyUnordered=True)
    if not behs:
        raise vlib.MachineryError("no behaviour with overtaking notifications generated")
    cs = dict(cs, Pre_NotifyUnordered=False)  # nothing of it is a listed finding: the code must serialise or stay within the property
    res = S.replay(c, behs, cs, "adversarial notification order", Adversarial=True, WithDkv=True)
    # 5b. the same, exhaustively for back-to-back checkpoints (Burst): every state of the graph in which notification goroutines
    #     may overtake, two continuations each
    behs, cs = S.cover(c, "back-to-back checkpoints, notification goroutines in any order", MaxLen=1000, StartId=1, IdSpan=4, MaxInFlight=3,
                       MaxRestarts=0, Burst=True, Acts=PIPE, Pre_NotifyUnordered=True)
    behs = S.per_prefix(behs, S.first_overtaking_send, 2 if quick else 6)
    S.replay(c, behs, dict(cs, Pre_NotifyUnordered=False), "adversarial notification order, deep overlap", Adversarial=True, WithDkv=True)
    # 5c. deep overlap: 4-5 back-to-back checkpoints, their writes landing in every order, a subscriber that is busy until the
    #     model delivers (the store's channel is unbuffered, as in jobs.New)
    for span, inflight, acts in (((4, 3, PIPE), (5, 4, PIPE)) if quick else ((4, 3, PIPE), (5, 4, PIPE), (4, 3, [a for a in S.GOOD if a != "Restart"]))):
        behs, cs = S.cover(c, "back-to-back checkpoints, slow subscriber", MaxLen=1000, StartId=1, IdSpan=span, MaxInFlight=inflight,
                           MaxRestarts=0, Burst=True, Acts=acts)
        S.replay(c, behs, cs, "deep overlap, slow subscriber", SlowSub=True, WithDkv=True)
    # 5d. the job -> operator boundary on the real jobs.Job (in-process cluster, held UpdateRetainedCheckpoints requests):
    #     the model's own schedules, then those only a job forwarding concurrently admits (a slow request is overtaken)
    S.exhaustive(c, "job -> operator requests (RpcMode)", MaxLen=1000, StartId=0, IdSpan=4, MaxInFlight=2, MaxRestarts=0, Burst=True, RpcMode=True,
                 Acts=PIPE, Ops={"o1", "o2"}, Srs={"s1", "s2"})
    S.must_break(c, "Pre_ForwardConcurrent", {"NoBad", "RetainNamesNewest"}, MaxLen=1000, StartId=0, MaxInFlight=2, MaxRestarts=0, Burst=True, RpcMode=True, Acts=PIPE)
    for shape in (dict(IdSpan=4), dict(IdSpan=3, Ops={"o1", "o2"}, Srs={"s1", "s2"})):
        kw = dict(dict(MaxLen=1000, StartId=0, MaxInFlight=2, MaxRestarts=0, Burst=True, RpcMode=True, Acts=PIPE), **shape)
        behs, cs = S.cover(c, "job -> operator requests", **kw)
        S.replay(c, behs, cs, "real jobs.Job, retention requests", harness="storejob")
        behs, cs = S.cover(c, "job -> operator requests, concurrent forwarding", Pre_ForwardConcurrent=True, **kw)
        behs = S.per_prefix(behs, S.first_concurrent_forward, 2 if quick else 8)
        S.replay(c, behs, dict(cs, Pre_ForwardConcurrent=False), "real jobs.Job, overtaking retention requests", harness="storejob")
    # 6. directory states (1..3 snapshot ids per window) materialised on a real LocalDirectory + real LoadCheckpoint
    faults = 0
    for start, span in (WINDOWS_QUICK if quick else WINDOWS_THOROUGH):
        behs, cs = S.dirstates(c, start, span)
        S.replay(c, behs, cs, "directory states")
        # the same directories when the listing of the restart breaks off with an error at its 1st..4th entry (storage
        # fault): the start-up may fail and be retried; a store that starts must have resumed from the newest checkpoint
        res = S.replay(c, behs, cs, "directory states, failing listing", ListFaults=True)
        faults += res.get("counters", {}).get("restarts_with_a_failing_listing", 0)
    if not faults:
        c.errors.append("vacuity: no restart met a failing listing")


def replay(c, path):
    if restartlib.is_restart_file(json.load(open(path))):
        restartlib.replay(c, path)
        return
    S.replay_file(c, path)
