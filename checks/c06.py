"""C06 Rescaling redistributes checkpointed state completely and exclusively -- spec/Rescale.tla, harness/cmd/rescale.

TLC side : exhaustive runs of Rescale.tla (StateOK, TimersOK, OneOwner, NoCrash, SeqOK) over key-group counts, operator
           counts M -> N (-> M'), every ack permutation, every residence of the written cells (WAL only / L0 table /
           compacted level, both compaction regimes), post-restore writes and flushes; the repaired defects and two
           design mutations (Dev_*) must each make TLC find a counterexample.
Code side: behaviours of the same spec -- scenario scripts built here (systematic grids + seeded random ones) and
           elaborated step by step through the spec's own actions by TLC (which computes the abstract oracle after every
           step), TLC -simulate behaviours, and the bad-state witnesses TLC prints with a Dev_* constant on -- are replayed
           on real operators deployed by the real jobs.Assembly.Deploy (harness/cmd/rescale): after every step every
           subject key is read back through the handler of the operator that owns it, timers are fired by watermarks.
"""
import itertools
import json
import random

import vlib

RULE = ("TLC proves on Rescale.tla that after restoring M operator checkpoints (recorded in any ack order) into N operators, and "
        "after every later write / flush+compaction / timer firing / second checkpoint and rescale, each operator shows for the "
        "keys it owns exactly the job's state and pending timers; behaviours of that spec (scripted grids over count, M, N, ack "
        "permutation and cell residence, random scenarios, -simulate walks, witnesses of the named deviations) are replayed on real "
        "operators deployed through the real jobs.Assembly.Deploy and every key is read back through the owning operator's handler "
        "after every step")

DEVS = ["Dev_MultiWalPanic", "Dev_ConcatLevels", "Dev_DeleteMissingFails", "Dev_SeqFromFirst", "Dev_ReplayAll"]
INVS = ["StateOK", "TimersOK", "OneOwner", "NoCrash", "SeqOK"]
TIMES = (10, 20)
BIG = (127, 128, 255, 32767, 32768, 39999)   # key groups whose 2-byte prefix has a byte on either side of 0x80


def consts(**kw):
    c = dict(Counts={2}, MaxOps=2, NGens=1, NKeys=2, Times="@{}", BigGroups="@{%s}" % ", ".join(map(str, BIG)),
             MaxW1=2, MaxW2=1, MaxW3=0, MaxFl=2, MaxWm=0, MaxCk=1, Regimes={"major", "minor"}, MaxLen=1000, Canon=True)
    for d in DEVS:
        c[d] = False
    c.update(kw)
    return c


def exhaustive(c, label, timeout=600, must_hold=True, **kw):
    r = vlib.run_tlc("Rescale", cfg=dict(constants=consts(**kw), invariants=INVS, view="view"), timeout=timeout, name="Rescale-ex")
    c.add_tlc(r, label, must_hold=must_hold)
    return r


# ------------------------------------------------------------------ scenario scripts ----
def ranges(count, n):
    q, rem = divmod(count, n)
    out, s = [], 0
    for i in range(n):
        e = s + q + (1 if i < rem else 0)
        out.append((s, e))
        s = e
    return out


class Scn:
    """A scenario: the step list of one behaviour in terms of Rescale.tla's actions (operators and keys 1-based)."""

    def __init__(self, count, grp, n, reg, nkeys=3):
        assert len(grp) == nkeys
        self.count, self.grp, self.nkeys = count, list(grp), nkeys
        self.init = dict(count=count, grp=list(grp), n=n, reg=reg)
        self.steps, self.ndeploy = [], 0
        self._gen(n)

    def _gen(self, n):
        self.n = n
        self.rng = ranges(self.count, n)
        self.wm = [0] * n
        self.can = [False] * n

    def owner(self, k):
        g = self.grp[k - 1]
        return 1 + [i for i, (s, e) in enumerate(self.rng) if s <= g < e][0]

    def keys_of(self, o):
        return [k for k in range(1, self.nkeys + 1) if self.owner(k) == o]

    def put(self, k):
        o = self.owner(k)
        self.steps.append(dict(a="W", o=o, e=k, put=True))
        self.can[o - 1] = True
        return o

    def delete(self, k):
        o = self.owner(k)
        self.steps.append(dict(a="W", o=o, e=k, put=False))
        self.can[o - 1] = False

    def timer(self, k, ti):          # ti: 1-based index into TIMES
        o = self.owner(k)
        if TIMES[ti - 1] <= self.wm[o - 1]:
            return False
        self.steps.append(dict(a="W", o=o, e=self.nkeys * ti + k, put=True))
        self.can[o - 1] = False
        return True

    def flush(self, o):
        assert self.can[o - 1], "a flush follows a state put"
        self.steps.append(dict(a="Flush", o=o))
        self.can[o - 1] = False

    def put_flush(self, k):
        self.flush(self.put(k))

    def advance(self, o, t):
        if t > self.wm[o - 1]:
            self.steps.append(dict(a="Wm", o=o, t=t))
            self.wm[o - 1] = t
            self.can[o - 1] = False

    def ckpt(self, perm):
        assert sorted(perm) == list(range(1, self.n + 1))
        self.steps.append(dict(a="Ckpt", perm=list(perm)))
        self.can = [False] * self.n

    def resume(self):               # the job goes on after the checkpoint: retention round
        self.steps.append(dict(a="Resume"))

    def deploy(self, n, reg):
        self.steps.append(dict(a="Deploy", n=n, reg=reg))
        self.ndeploy += 1
        self._gen(n)

    def finish(self):
        self.steps.append(dict(a="Finish"))
        return self


def _tla(v):
    if isinstance(v, bool):
        return "TRUE" if v else "FALSE"
    if isinstance(v, int):
        return str(v)
    if isinstance(v, str):
        return '"%s"' % v
    if isinstance(v, (list, tuple)):
        return "<<" + ", ".join(_tla(x) for x in v) + ">>"
    if isinstance(v, dict):
        return "[" + ", ".join("%s |-> %s" % (k, _tla(x)) for k, x in v.items()) + "]"
    raise ValueError(v)


SCRIPT_MOD = """---- MODULE RescaleScript ----
EXTENDS Rescale
VARIABLE sid
Scripts == <<
%s
>>
Step(st) == CASE st.a = "W" -> Write(st.o, st.e, st.put)
              [] st.a = "Flush" -> Flush(st.o)
              [] st.a = "Wm" -> AdvanceWm(st.o, st.t)
              [] st.a = "Ckpt" -> TakeCkpt(st.perm)
              [] st.a = "Deploy" -> Deploy(st.n, st.reg)
              [] st.a = "Resume" -> Resume
              [] st.a = "Finish" -> Finish
SInit == \\E i \\in 1..Len(Scripts) : sid = i /\\ InitWith(Scripts[i].init.count, Scripts[i].init.grp, Scripts[i].init.n, Scripts[i].init.reg)
SNext == /\\ Len(hist) <= Len(Scripts[sid].steps) /\\ ~crashed /\\ Step(Scripts[sid].steps[Len(hist)]) /\\ UNCHANGED sid
SSpec == SInit /\\ [][SNext]_<<vars, sid>>
SDump == (Len(hist) = Len(Scripts[sid].steps) + 1 \\/ crashed) => PrintT(<<"BEHAVIOUR", ToJson([sid |-> sid, hist |-> hist])>>)
====
"""


def elaborate(c, scns, label, nkeys=3, devs=(), invariants=()):
    """TLC runs every scenario through the spec's own actions; -> behaviours (hist lists) in scenario order.
    With invariants given, TLC also checks them on the scripted behaviours (returns the TlcResult too)."""
    out = [None] * len(scns)
    results = []
    for nd in sorted({s.ndeploy for s in scns}):
        idx = [i for i, s in enumerate(scns) if s.ndeploy == nd]
        for lo in range(0, len(idx), 400):
            part = idx[lo:lo + 400]
            body = ",\n".join("  [init |-> %s, steps |-> %s]" % (_tla(scns[i].init), _tla(scns[i].steps)) for i in part)
            cs = consts(Counts={1}, MaxOps=8, NGens=nd, NKeys=nkeys, Times="@{%s}" % ", ".join(map(str, TIMES)), MaxW1=99, MaxW2=99,
                        MaxW3=99, MaxFl=9, MaxWm=9, MaxCk=9, Canon=False, **{d: True for d in devs})
            r = vlib.run_tlc("RescaleScript", cfg=dict(spec="SSpec", constants=cs, invariants=["SDump"] + list(invariants)), workers=1,
                             timeout=900, files={"RescaleScript.tla": SCRIPT_MOD % body}, name="RescaleScript")
            results.append(r)
            if (r.error or r.violated) and not invariants:
                raise vlib.MachineryError("elaboration of %s failed: %s %s\n%s" % (label, r.error, r.violated, r.out[-2500:]))
            for b in r.behaviours:
                out[part[b["sid"] - 1]] = b["hist"]
            c.states += r.distinct
            c.transitions += r.generated
    missing = [i for i, b in enumerate(out) if b is None]
    if missing and not invariants:
        raise vlib.MachineryError("%s: %d of %d scenarios are not behaviours of Rescale.tla (first: %s)" %
                                  (label, len(missing), len(scns), json.dumps(scns[missing[0]].steps)[:600]))
    return out, results


# the cells of generation 1: each key gets a residence -- C(ompacted), F(lushed to L0), W(AL only), or none --
# its timer at TIMES[0] goes with it, its timer at TIMES[1] stays in the WAL
def build_gen1(s, res, timers=True, dels=()):
    for o in range(1, s.n + 1):
        mine = s.keys_of(o)
        cs = [k for k in mine if res[k - 1] == "C"]
        fs = [k for k in mine if res[k - 1] == "F"]
        ws = [k for k in mine if res[k - 1] == "W"]
        if cs:
            for k in cs:
                if timers:
                    s.timer(k, 1)
                s.put(k)
            s.flush(o)
            s.put_flush(cs[0])          # second L0 table => the compaction loop runs
        if fs:
            for k in fs:
                if timers:
                    s.timer(k, 1)
                s.put(k)
            s.flush(o)
        for k in ws:
            if timers:
                s.timer(k, 1)
            s.put(k)
        for k in mine:
            if timers and res[k - 1] != "-":
                s.timer(k, 2)
            if k in dels and res[k - 1] != "-":
                s.delete(k)            # tombstone in the WAL above a flushed / compacted value


def post_restore(s, variant):
    """writes after a restore: overwrite / delete restored keys, write new ones, fire the early timers, flush"""
    ks = list(range(1, s.nkeys + 1))
    if variant % 4 == 0:
        for o in range(1, s.n + 1):
            s.advance(o, TIMES[0])
        s.put(ks[0])
        s.delete(ks[-1])
    elif variant % 4 == 1:
        for k in ks:
            s.put_flush(k)              # a flush on top of the restored tables (compaction when L0 reaches 2)
    elif variant % 4 == 2:
        s.delete(ks[0])
        s.put_flush(ks[1 % len(ks)])
        s.put(ks[0])
        for o in range(1, s.n + 1):
            s.advance(o, TIMES[1])
    else:
        s.put_flush(ks[-1])
        s.put_flush(ks[-1])
        s.delete(ks[-1])


def spread(count, nkeys, shift=0):
    if count > 8:
        gs = [g for g in BIG if g < count]
        pick = [gs[(i * 2 + shift) % len(gs)] for i in range(nkeys)]
        return sorted(pick)
    return sorted(((i * count) // nkeys + shift) % count for i in range(nkeys))


def grid(tier, seed):
    rnd = random.Random(seed)
    scns = []
    counts = [1, 2, 3, 4, 5, 8] + ([256, 40000] if tier != "quick" else [])
    maxops = 3 if tier == "quick" else 4
    pats = ["CFW", "FWC", "WCF", "CCF", "FFW", "CWC"]
    v = 0
    for count in counts:
        small = tier == "quick" or count == 40000    # 40000 key groups: an operator builds one timer queue per group (seconds per deploy)
        for m in range(1, (3 if small else maxops) + 1):
            for n in range(1, (3 if small else maxops) + 1):
                perms = list(itertools.permutations(range(1, m + 1)))
                if small and len(perms) > 3:   # quick: identity, reversal and one more (seeded); thorough: all
                    perms = [perms[0], perms[-1], perms[1 + rnd.randrange(len(perms) - 2)]]
                for perm in perms:
                    v += 1
                    reg1, reg2 = ("major", "minor") if v % 2 else ("minor", "major")
                    s = Scn(count, spread(count, 3, v % 2), m, reg1)
                    build_gen1(s, pats[v % len(pats)], dels=(1 + v % 3,) if v % 5 == 0 else ())
                    s.ckpt(perm)
                    s.deploy(n, reg2)
                    post_restore(s, v)
                    if v % 2 == 0:      # the job completes a checkpoint and goes on: retention round, more writes
                        s.ckpt(list(range(1, n + 1)))
                        s.resume()
                        s.put(1 + v % 3)
                    if v % 3 != 0:      # a second checkpoint (acks reversed) and rescale
                        s.ckpt(list(range(n, 0, -1)))
                        m2 = 1 + (v // 3) % maxops
                        s.deploy(m2, reg1)
                        post_restore(s, v + 1)
                    scns.append(s.finish())
    return scns


def big_counts(seed):
    """quick tier's share of the key-group counts whose prefixes have bytes >= 0x80"""
    scns = []
    for i, (count, m, n, perm) in enumerate([(256, 2, 1, (2, 1)), (256, 1, 2, (1,)), (256, 3, 2, (3, 1, 2)), (40000, 2, 3, (2, 1)),
                                             (40000, 3, 1, (2, 3, 1)), (40000, 1, 3, (1,)), (256, 2, 2, (2, 1)), (40000, 2, 2, (1, 2))]):
        s = Scn(count, spread(count, 3, (i + seed) % 2), m, "major" if i % 2 else "minor")
        build_gen1(s, ["CFW", "FCC", "WFC", "CCC"][i % 4])
        s.ckpt(perm)
        s.deploy(n, "minor" if i % 2 else "major")
        post_restore(s, i)
        s.ckpt(list(range(n, 0, -1)))
        s.deploy(m, "major")
        post_restore(s, i + 1)
        scns.append(s.finish())
    return scns


def witnesses():
    """hand-chosen scenarios: the witnesses of the defects found while building this check and of likely regressions"""
    out = {}
    # a DB restored from 2 handles must be able to checkpoint again (was: panic "multiple WALs")
    s = Scn(2, [0, 1, 1], 2, "major"); s.put(1); s.put(2); s.ckpt([1, 2]); s.deploy(1, "major"); s.put(3)
    out["two-handles-checkpoint-again"] = s.finish()
    # compacted tables of two old operators, acks in reverse key order (was: levels concatenated in ack order, binary search misses)
    s = Scn(2, [0, 1, 1], 2, "major"); build_gen1(s, "CCC", timers=False); s.ckpt([2, 1]); s.deploy(1, "major")
    out["compacted-acks-reversed"] = s.finish()
    s = Scn(3, [0, 1, 2], 3, "minor"); build_gen1(s, "CCC"); s.ckpt([2, 1, 3]); s.deploy(2, "minor")
    out["compacted-minor-acks-rotated"] = s.finish()
    # 1 -> 2 -> 1: both children compact the shared table; their base tables overlap (no order of a level repairs that)
    s = Scn(2, [0, 1, 1], 1, "major"); s.put_flush(1); s.ckpt([1]); s.deploy(2, "major"); s.put_flush(1); s.put_flush(2)
    s.ckpt([2, 1]); s.deploy(1, "major")
    out["overlapping-children-1-2-1"] = s.finish()
    # sequence numbers: operator 1 wrote a lot, operator 2 acked first; a post-restore write to operator 1's key must win after a flush
    s = Scn(2, [0, 0, 1], 2, "major")
    for _ in range(3):
        s.put(1); s.put(2)
    s.flush(1); s.put_flush(3); s.ckpt([2, 1]); s.deploy(1, "major"); s.put(1); s.delete(2); s.put_flush(3); s.put_flush(3)
    out["seq-continues-above-every-source"] = s.finish()
    # WAL-only cells of one old operator split over two new ones, then merged again
    s = Scn(4, [0, 2, 3], 1, "minor"); build_gen1(s, "WWW"); s.ckpt([1]); s.deploy(2, "minor"); s.put(1); s.put_flush(2)
    s.ckpt([2, 1]); s.deploy(1, "major"); s.put_flush(1); s.put_flush(3)
    out["wal-split-then-merged"] = s.finish()
    # tombstone in the WAL over a compacted value, owner changes twice
    s = Scn(3, [0, 1, 2], 1, "major"); build_gen1(s, "CCC", dels=(2,)); s.ckpt([1]); s.deploy(3, "major"); s.put_flush(1)
    s.ckpt([3, 2, 1]); s.deploy(2, "minor"); s.put(2)
    out["wal-tombstone-over-compacted"] = s.finish()
    # scale-out: both new operators were restored from the same old checkpoint; each drops it in its first retention round
    # (was: the second delete of the old WAL file failed and every later checkpoint of that operator failed)
    s = Scn(2, [0, 1, 1], 1, "major"); build_gen1(s, "FWW"); s.ckpt([1]); s.deploy(2, "major"); s.put(1); s.put(2); s.ckpt([2, 1]); s.resume()
    s.put_flush(3); s.ckpt([1, 2]); s.resume(); s.delete(1); s.ckpt([1, 2]); s.deploy(3, "minor")
    out["retention-after-scale-out"] = s.finish()
    s = Scn(5, [0, 2, 4], 2, "minor"); build_gen1(s, "CWF"); s.ckpt([2, 1]); s.resume(); s.put(2); s.ckpt([1, 2]); s.deploy(3, "major"); s.put(1)
    s.ckpt([3, 2, 1]); s.resume(); s.put(3); s.ckpt([1, 2, 3]); s.deploy(2, "major"); s.ckpt([1, 2]); s.resume()
    out["retention-2-3-2"] = s.finish()
    # more operators than key groups (empty ranges on both sides)
    s = Scn(1, [0, 0, 0], 2, "major"); build_gen1(s, "CFW"); s.ckpt([2, 1]); s.deploy(3, "major"); s.put(1)
    s.ckpt([3, 1, 2]); s.deploy(1, "minor")
    out["more-operators-than-groups"] = s.finish()
    return out


def random_scns(nscn, seed, maxops, counts):
    rnd = random.Random(seed)
    out = []
    for _ in range(nscn):
        count = rnd.choice(counts)
        m = rnd.randint(1, maxops)
        grp = sorted(rnd.choice(BIG[:3] if count == 256 else BIG) % count if count > 8 else rnd.randrange(count) for _ in range(3))
        s = Scn(count, grp, m, rnd.choice(["major", "minor"]))
        for gen in range(rnd.choice([1, 2, 2])):
            for _ in range(rnd.randint(2, 9)):
                k = rnd.randint(1, 3)
                x = rnd.random()
                if x < 0.45:
                    o = s.put(k)
                    if rnd.random() < 0.5:
                        s.flush(o)
                elif x < 0.6:
                    s.delete(k)
                elif x < 0.85:
                    s.timer(k, rnd.randint(1, 2))
                else:
                    s.advance(rnd.randint(1, s.n), rnd.choice(TIMES))
                if rnd.random() < 0.12:
                    s.ckpt(list(range(1, s.n + 1)))
                    s.resume()
            perm = list(range(1, s.n + 1))
            rnd.shuffle(perm)
            s.ckpt(perm)
            s.deploy(rnd.randint(1, maxops), rnd.choice(["major", "minor"]))
        for _ in range(rnd.randint(0, 3)):
            k = rnd.randint(1, 3)
            if rnd.random() < 0.6:
                o = s.put(k)
                if rnd.random() < 0.4:
                    s.flush(o)
            else:
                s.delete(k)
        out.append(s.finish())
    return out


# -------------------------------------------------------------------------- replay ----
def run_replay(c, behs, label, seed=None, chunk=20, timeout=1500, **cfg):
    payload = dict(property=c.prop, seed=c.seed if seed is None else seed, config=dict(MemSize=4096, Chunk=chunk, **cfg), behaviours=behs)
    res = vlib.run_harness("rescale", payload, timeout=timeout)
    c.add_harness(res, payload, "%s (%d behaviours)" % (label, len(behs)))
    return res, payload


def selftest(c, beh):
    """binding self-test: flip one expected observable of a behaviour; the replayer must report it"""
    bad = json.loads(json.dumps(beh))
    for st in reversed(bad):
        if st["a"] in ("Deploy", "W", "Flush") and any(st["exp"]["st"]):
            i = [j for j, v in enumerate(st["exp"]["st"]) if v][0]
            st["exp"]["st"][i] += 1000
            break
    else:
        raise vlib.MachineryError("self-test: no step with a state value")
    payload = dict(property=c.prop, seed=0, config=dict(MemSize=4096, Chunk=1), behaviours=[bad])
    res = vlib.run_harness("rescale", payload, timeout=300)
    if not res.get("violations"):
        c.errors.append("self-test: the replayer did not report a behaviour whose expected state was corrupted")
    c.extra["selftest"] = "corrupted expectation reported: %s" % bool(res.get("violations"))


def dev_witnesses(c, dev, nkeys, label, limit, **kw):
    """TLC exhaustive with a deviation on, printing the history of every bad state it reaches (CexDump): the model must
    find some, and none of them may reproduce on the real code (the defect is repaired / the mutation is not in the tree)."""
    cs = consts(NKeys=nkeys, **kw)
    cs[dev] = True
    r = vlib.run_tlc("Rescale", cfg=dict(constants=cs, invariants=["CexDump"], view="view"), timeout=300, workers=4, name="Rescale-" + dev)
    c.add_tlc(r, "%s witnesses (%s)" % (dev, label), must_hold=False)
    if r.error:
        c.errors.append("TLC run for %s failed: %s" % (dev, r.error))
        return
    behs = sorted(r.behaviours, key=lambda b: (len(b), json.dumps(b, sort_keys=True)))
    if not behs:
        c.errors.append("the model does not distinguish %s: TLC found no bad state with it on (%s)" % (dev, label))
        return
    rnd = random.Random(c.seed)
    pick = behs[:limit // 2] + rnd.sample(behs[limit // 2:], min(len(behs) - limit // 2, limit - limit // 2)) if len(behs) > limit else behs
    # the expectations in these histories are the abstract oracle (the deviation only changes what the model predicts the
    # implementation shows), so they are replayed like any other behaviour
    run_replay(c, pick, "witnesses of %s must not reproduce" % dev, chunk=10)
    c.extra.setdefault("dev_witnesses", {})[dev] = dict(found=len(behs), replayed=len(pick))


def run(c):
    q = c.tier == "quick"
    # ---- 1. the design: exhaustive
    exhaustive(c, "one rescale, counts 1..5,8, M,N<=3, all acks, 2 keys, 2 writes + 1 after restore",
               Counts={1, 2, 3, 4, 5, 8}, MaxOps=3, NGens=1, MaxW1=2, MaxW2=1, Regimes={"major"} if q else {"major", "minor"}, timeout=400)
    exhaustive(c, "two rescales, counts 2,3, M,N,M'<=2, 2 keys, 3+2(+1) writes, 2 flushes",
               Counts={2, 3}, MaxOps=2, NGens=2, MaxW1=3, MaxW2=2, MaxW3=0 if q else 1, Regimes={"major"} if q else {"major", "minor"}, timeout=900)
    exhaustive(c, "retention rounds: one rescale, counts 2,3, M,N<=3, two checkpoints per generation", Counts={2, 3}, MaxOps=3, NGens=1, MaxW1=2, MaxW2=1,
               MaxCk=2, MaxFl=1, Regimes={"major"}, timeout=600)
    exhaustive(c, "timers: one rescale, counts 2,3, 2 keys x (state + timer), watermark advance",
               Counts={2, 3}, MaxOps=2, NGens=1, Times="@{10}", MaxW1=3, MaxW2=1, MaxWm=1, MaxFl=1, Regimes={"major"}, timeout=900)
    if not q:
        exhaustive(c, "one rescale, counts 1..5,8, M,N<=4, 3 writes + 2 after restore", Counts={1, 2, 3, 4, 5, 8}, MaxOps=4, NGens=1,
                   MaxW1=3, MaxW2=2, Regimes={"major"}, timeout=2400)
        exhaustive(c, "two rescales, counts 2,3, M,N,M'<=3, 3+2 writes, major", Counts={2, 3}, MaxOps=3, NGens=2, MaxW1=3, MaxW2=2, MaxW3=0,
                   Regimes={"major"}, timeout=2400)
        exhaustive(c, "big counts 256 / 40000 (groups on both sides of 0x80), M,N<=3", Counts={256, 40000}, MaxOps=3, NGens=1, MaxW1=2, MaxW2=1,
                   Regimes={"major"}, timeout=1200)
        exhaustive(c, "timers: counts 2,3, 2 keys x (state + 2 timers), watermark advance", Counts={2, 3}, MaxOps=2, NGens=1, Times="@{10, 20}",
                   MaxW1=3, MaxW2=1, MaxWm=1, MaxFl=1, Regimes={"major"}, timeout=1200)
    c.exhaustive = True
    # ---- 2. the model distinguishes the repaired defects and the design mutations; their witnesses do not reproduce
    dev_witnesses(c, "Dev_MultiWalPanic", 2, "1 rescale", 12 if q else 40, Counts={2}, NGens=1, MaxW1=2, MaxW2=1, Regimes={"major"})
    dev_witnesses(c, "Dev_ConcatLevels", 2, "2 rescales", 16 if q else 60, Counts={2}, NGens=2, MaxW1=3, MaxW2=2, MaxW3=0, Regimes={"major"})
    dev_witnesses(c, "Dev_DeleteMissingFails", 2, "1 rescale, 2 checkpoints", 12 if q else 40, Counts={2}, NGens=1, MaxW1=1, MaxW2=1, MaxCk=2, MaxFl=1,
                  Regimes={"major"})
    dev_witnesses(c, "Dev_SeqFromFirst", 2, "1 rescale", 12 if q else 40, Counts={2}, NGens=1, MaxW1=3, MaxW2=2, Regimes={"major"})
    dev_witnesses(c, "Dev_ReplayAll", 2, "2 rescales", 12 if q else 40, Counts={2}, NGens=2, MaxW1=2, MaxW2=1, MaxW3=1, MaxFl=1, Regimes={"major"})
    # ---- 3. scripted scenarios elaborated by TLC (the spec's invariants are checked on them too), replayed
    wit = witnesses()
    scns = list(wit.values()) + grid(c.tier, c.seed) + big_counts(c.seed)
    scns += random_scns(120 if q else 800, c.seed * 7919 + 1, 3 if q else 6, [1, 2, 3, 4, 5, 8, 256] * 3 + [40000])
    behs, results = elaborate(c, scns, "scenarios", invariants=INVS)
    for r in results:
        if r.violated or r.error:
            c.errors.append("a scripted scenario violates %s in the model (%s)\n%s" % (r.violated, r.error, r.out[-2500:]))
    behs = [b for b in behs if b is not None]
    c.extra["scenarios"] = dict(witnesses=list(wit), total=len(scns), elaborated=len(behs))
    if behs:
        res, payload = run_replay(c, behs, "scenario scripts: witnesses, grid count x M x N x acks x residence, big counts, random", chunk=25, timeout=3000)
        selftest(c, behs[1])
        # the same scenarios with surviving workers: the old generation's Operator objects (ids, directories) are deployed
        # again, at another position of the operator list and whatever the new count is; only the missing ones are new
        rnd = random.Random(c.seed * 31 + 5)
        sub = behs if len(behs) <= (150 if q else 1500) else rnd.sample(behs, 150 if q else 1500)
        res2, _ = run_replay(c, sub, "the same scenarios, surviving Operator objects redeployed at another position / count", chunk=25, timeout=3000, Reuse=True)
        if not res2.get("violations") and not res2.get("counters", {}).get("operators_redeployed_at_another_position_or_count"):
            c.errors.append("the surviving-operator arm never redeployed an Operator object (vacuous)")
        c.sample(dict(kind="Rescale scenario elaborated by TLC and replayed on real operators (jobs.Assembly.Deploy)",
                      steps=[{k: v for k, v in s.items() if k not in ("lay", "pred")} for s in behs[3][:30]]))
    # ---- 4. random walks of the spec itself
    n = 60 if q else 300
    for i, kw in enumerate([dict(Counts={2, 3, 5}, MaxOps=3, NGens=2, NKeys=3, Times="@{10, 20}", MaxW1=5, MaxW2=3, MaxW3=2, MaxFl=3, MaxWm=2, MaxCk=2, MaxLen=44),
                            dict(Counts={256} if q else {8, 256, 40000}, MaxOps=3 if q else 6, NGens=2, NKeys=3, Times="@{10}", MaxW1=4, MaxW2=3, MaxW3=1,
                                 MaxFl=2, MaxWm=1, MaxLen=36)]):
        walks, r = vlib.gen_behaviours("Rescale", consts(Canon=False, **kw), n if i == 0 else n // 3, 60, c.seed * 100 + i, timeout=600)
        c.states += r.generated
        c.transitions += r.generated
        run_replay(c, walks, "TLC -simulate walks %d" % i, chunk=25, timeout=3000)
    c.assumptions += [
        "every DB entry is THE state entry of a subject key (one namespace, one entry) or a timer; values are write stamps",
        "flush = the padded write that fills the memtable (verif tunable dkv.memTableSize), awaited to quiescence; compaction "
        "regimes through the tunable dkv.maxSizeAmpPct (-1: everything into the base level; max: L0+L1 -> L1), one table per compaction",
        "new operators get new ids (new DKV directories) and old operators are halted, not garbage collected, while the behaviour runs; "
        "a second pass over the scenarios redeploys the old generation's Operator objects (surviving workers) at rotated positions",
        "events reach the operator the real KeySpace routes them to (routing itself is C05)",
    ]


def replay(c, path):
    payload = json.load(open(path))
    payload.pop("violation", None)
    res = vlib.run_harness("rescale", payload)
    c.add_harness(res, payload, "replay " + path)
