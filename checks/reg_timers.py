"""Registry fragment of the `timers` family (C10, C11)."""
ENGINES = [
    dict(name="Timers", path="spec/Timers.tla", serves_properties=["C10", "C11"],
         kind_free_text="TLA+ spec of TimerRegistry/TimerStore/PartitionedPriorityQueue/SortedCache over an abstract DKV "
                        "(Abs: pending, up[sr], Min(up); Impl: per-key-group bounded cache with byte accounting, allDataInCache, "
                        "heap of partitions, checkpoint/restore); TLC exhaustive + behaviours replayed on the real registry over "
                        "a real dkv.DB and through a real operator.Operator (harness/cmd/timers)"),
    dict(name="TimersOp", path="spec/TimersOp.tla", serves_properties=["C10", "C11"],
         kind_free_text="TLA+ spec of the operator's pipeline around its timers: handler-event batcher (1-3 items, batch timer) "
                        "between 'timer due' and 'TimerExpired given to the handler', checkpoint barriers of several runners with "
                        "traffic in between, DKV checkpoint cut, crash/restore into a fresh Operator, re-deployment of the same "
                        "Operator with and without a checkpoint, the watermark told to the handler; TLC exhaustive + simulated "
                        "behaviours and witness schedules of two deviations replayed on a real operator.Operator with a manually "
                        "fired batch timer (harness/cmd/timers mode opbatch), judged at the handler by a ledger whose restored "
                        "timelines are read from the restored keyed state"),
    dict(name="Watermark", path="spec/Watermark.tla", serves_properties=["C11"],
         kind_free_text="TLA+ spec of the source runner's watermark stamping (placeholder queue, Watermarker.maxTimestamp, "
                        "stamp at send; optionally asynchronous keying, back-pressure of a slow operator, eager sender); TLC exhaustive "
                        "+ behaviours replayed on wmark.Watermarker + schedules (reads, ticks, keying completions, operator "
                        "deliveries) replayed on a real SourceRunner through gated adapters + streams recorded from free-running "
                        "SourceRunners, all streams validated by WatermarkTrace.tla"),
]
CHECKS = {
    "C10": dict(
        engine="Timers",
        technique="TLA+/TLC model checking of Timers.tla; TLC-generated histories (registrations, re-registrations, watermark "
                  "advances of 1-3 runners, timers registered from inside the firing iteration, DKV checkpoint + restore at any "
                  "position, cache capacity 0-3 entries) replayed on the real TimerRegistry/TimerStore over dkv.DB and through "
                  "operator.Operator; witness schedules of the repaired deviations replayed as regression schedules; TimersOp.tla "
                  "(event batches of 1-3 items, checkpoint cut between the barriers of 2-3 runners, crash/restore, redeploy) model "
                  "checked and its behaviours + the witnesses of 'batch flushed at the first barrier' replayed on a real Operator",
        text="TLC exhaustively checks that every AdvanceWatermark returns exactly the pending timers at or before Min(up), once, in "
             "non-decreasing time, that the DB holds exactly the pending set (so restore preserves it) and that the cache is a "
             "prefix of the DB order, for small constants; hundreds of simulated histories per tier are executed on the real code "
             "and every returned timer / TimerExpired delivery is compared with the set the property demands. At operator level "
             "(batched handler events, barriers of several runners, restore / redeploy from the reported checkpoint) every TimerExpired "
             "must be pending in its timeline - after a restore: pending according to the restored keyed state - and nothing due may "
             "stay pending once the batch delay has elapsed.",
        note="Bounded constants (<=4 keys in <=3 key groups, times 0..5, <=3 runners); DKV with default memtable (no flush; "
             "flushed read paths belong to C07/C08); iterator always consumed to the end; operator level: a barriered runner sends "
             "nothing until the checkpoint completes (C02), same-object redeploy only with no checkpoint open and an empty batch (C15)."),
    "C11": dict(
        engine="Watermark",
        technique="TLA+/TLC model checking of Watermark.tla and Timers.tla; TLC-generated timestamp/tick sequences replayed on "
                  "wmark.Watermarker; every interleaving of <=4 watermark messages of 2-3 runners with events enumerated by TLC and "
                  "executed on a real operator.Operator; TimersOp.tla behaviours (restore, redeploy of the same Operator, batches) and the "
                  "witnesses of 'told watermark survives a redeploy' executed on a real Operator; schedules of Watermark.tla with "
                  "asynchronous keying and a slow operator (and the witnesses of 'maxTimestamp advances at keying') replayed on a real "
                  "SourceRunner through gated adapters; streams of real SourceRunners validated against WatermarkTrace.tla",
        text="Runner half: watermark values non-decreasing, below the largest forwarded event timestamp and within 1ns of it, for all "
             "timestamp sequences of length <=5 over 4 values with ticks anywhere (TLC exhaustive; replay on Watermarker; recorded "
             "SourceRunner streams). Operator half: ProcessEventBatchRequest.Watermark = Min(up) with unreported runners at the "
             "epoch on every handler call - including the first calls of a new deployment of the same Operator object - and no "
             "TimerExpired later than Min(up), for all interleavings within the bound.",
        note="allowedLateness is unexported and zero in the runner (lateness>0 only model checked); the runner's 200 ms ticker is a "
             "real time.Ticker: in schedule replay a Tick step waits for its next boundary (other steps take ~4 ms), in the free-running "
             "streams tick positions are uncontrolled; one operator per runner (its stream is the runner's forwarding order)."),
}
