"""Registry fragment of the sstwal family (C17)."""
ENGINES = [
    dict(name="SstWal", path="spec/SstWal.tla", serves_properties=["C17"],
         kind_free_text="TLA+ spec of dkv/sst TableWriter.Write/WriteRun (chunking at target size with 1.5x look-ahead), the every-16th-entry "
                        "sparse index, SearchIndex.Search (binary search over samples + bounded block scan), the bloom filter as a key set with a "
                        "forced false positive, ScanPrefix and re-opening from Document, at entry granularity over a key universe of symbol "
                        "sequences (order and prefix relation = bytes.Compare / bytes.HasPrefix after concretisation); TLC exhaustive on a tiny "
                        "universe + generated cases replayed on the real tables (harness/cmd/sstwal)"),
    dict(name="SstWalLog", path="spec/SstWalLog.tla", serves_properties=["C17"],
         kind_free_text="TLA+ spec of dkv/wal Writer (segment list: Put/Delete/Cut/Truncate/Rotate/Save) and Reader.All (skip arithmetic) at API-call "
                        "granularity with the named deviation Dev_CarriedLatestZero; TLC exhaustive over call strings + every call string up to a "
                        "bound and random longer ones replayed on the real wal.Writer / wal.Reader (harness/cmd/sstwal)"),
]
CHECKS = {
    "C17": dict(
        engine="SstWal",
        technique="TLA+/TLC model checking of SstWal.tla and SstWalLog.tla (transcribed algorithms vs. abstract meaning); TLC-generated runs and "
                  "call strings replayed on the real sst.TableWriter / sst.Table / wal.Writer / wal.Reader over the memory file system with "
                  "adversarial byte concretisation",
        text="TLC checks, for every key-ordered run over a small key universe (every subset, tombstone and size pattern, every target size, every "
             "forced bloom false positive), that the transcribed WriteRun chunking partitions the run into non-empty consecutive tables with ordered "
             "disjoint ranges and that the transcribed index/Search/scan returns for every key and every prefix exactly what the run holds; and for "
             "every WAL call string (put, delete, cut, truncate(s), rotate, save) that Reader.All(after) replays exactly the operations after the "
             "marker. Structured runs around the index boundaries (0,1,2,15..17,31..34,47..49 entries; all 0..52 in the thorough tier) x key, tombstone "
             "and value-size patterns (single oversized entry, sizes straddling target and 1.5x target) are generated exhaustively, random walks and "
             "WAL call strings by TLC simulation, and replayed on the real code: every key of the universe (present, absent before / between / after, "
             "one absent key made a real bloom false positive by brute-forcing key tails) is looked up in every table and used as a scan prefix, "
             "before and after re-opening the tables from their documents; every admissible start marker is read from every saved WAL.",
        note="Entry granularity: byte-level encodings (fields, footer, bloom bit layout, uint32 offsets) are exercised by the round trip but not "
             "modelled. Key universe <= 85 keys of <= 3 symbols, runs <= 52 entries (4 index samples), values <= 800 bytes; target size 0 excluded "
             "(WriteRun does not terminate). WAL: call strings <= 20 calls, <= 4 rotations, markers in [largest truncation point, last appended]; "
             "sequence numbers of replayed deletes are not compared (Reader.All does not report them). Predicted chunk boundaries are internal "
             "(mismatch = drift, not a verdict). Known finding Dev_WalCarriedSegmentsLoseSeqNum (DESIGN 7 #7) is classified by exact equality with "
             "the model's prediction."),
}
