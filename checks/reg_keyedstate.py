"""Registry fragment of the keyedstate family (C03)."""
ENGINES = [dict(name="KeyedState", path="spec/KeyedState.tla", serves_properties=["C03"],
                kind_free_text="TLA+ spec of keyed state as the handler sees it (m[key][ns][entry]) over the composite-key map that "
                               "workers/operator/keyed_state_store.go builds in DKV (key group | schema | uint32 length | subject key | ns length | "
                               "ns | entry key; timers share the map), one action per step of processEventBatch (fetch once per distinct key "
                               "before the handler, mutations applied after), timers, checkpoint/restore, background steps; the byte strings and "
                               "key-group bytes are constants produced by the replayer from the repository's partitioning package; TLC exhaustive "
                               "+ behaviours replayed on the real KeyedStateStore/TimerStore over dkv.DB through the dkv gates and on a real "
                               "operator.Operator (harness/cmd/keyedstate, harness/dkvsched)")]
CHECKS = {
    "C03": dict(engine="KeyedState",
                technique="TLA+/TLC model checking of KeyedState.tla (static encoding theorem per concretisation table + exhaustive histories); "
                          "TLC-simulated behaviours replayed on the real KeyedStateStore over a real dkv.DB with flush/compaction goroutines "
                          "stepped through verif gates (also between the two captures of a fetch's prefix scan), and on a real operator.Operator "
                          "whose handler is the harness; every supplied state compared with a shadow map",
                text="TLC proves EncodingOK for five aliasing-hostile tables (5 subject keys x 3 namespaces x 3 entry keys x 3 timer times each: "
                     "prefix-related keys, 0x00/0xff bytes, empty strings, 256/257-byte keys, keys sharing a key group, key-group bytes on both "
                     "sides of 0x80 computed by the repo's partitioning package): composite keys injective, per-key scan prefixes prefix-free, "
                     "decode inverts encode, timer keys outside every state prefix, a namespace's entries adjacent; and StoreEq / FetchEq / "
                     "OnlyOwnMutations over every history of batches (fetch once per distinct key before the handler, answers applied after), "
                     "put v1 / put v2 / put EMPTY / delete, timer writes and pops, checkpoint and restore within the bounds (3x2x2 cells, <=3-4 "
                     "mutations; reduced cell sets up to 6). A self-test removes the length prefix / namespace length / schema byte from the spec "
                     "and requires counterexamples. Hundreds of simulated behaviours (5 keys, <=30 mutations, batches of <=3 events incl. repeated "
                     "keys, timers aliasing state prefixes, checkpoints + restores) are executed on the real store with tiny memtables: the model's "
                     "background steps release the real flush / compaction goroutines gate by gate, also inside a fetch; each GetState result, a "
                     "read-back of every key after each restore and at the end (before and after draining the background work) must equal the "
                     "shadow map exactly, each namespace in one group. The same behaviours drive a real operator (batches cut by size or time-out, "
                     "barrier checkpoints, redeploy from the reported checkpoint); the KeyStates of every ProcessEventBatchRequest, incl. timer "
                     "expiries, are checked.",
                note="Bounded constants; one operator and one source runner per assembly; namespaces are valid UTF-8 and shorter than 256 bytes "
                     "(the code stores the namespace length in one byte: a 256-byte namespace would alias - outside the property's quantifier); "
                     "DKV internals are C07's and appear only as schedule; which timer fires when is C10's."),
}
