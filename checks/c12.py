"""C12 A job checkpoint is all-or-nothing and checkpoint ids only grow.
spec/Store.tla (snapshots.Store at API-call / storage-operation granularity),
replayed call by call on the real snapshots.Store by harness/cmd/store."""
import json
import vlib
import storelib as S
import restartlib

RULE = ("TLC checks OnlyWhenAllAcked / PublishedWhole / PublishedOnce / AtMostOnePending / IdsStrictlyIncrease of Store.tla over every call "
        "string (create, savepoint, operator/runner acks with any id and any sender, async publication steps, restart) "
        "within the bounds; a transition cover of that graph and simulated longer behaviours are replayed call by call "
        "on the real snapshots.Store over a gated StorageLocation; published files are decoded and compared with what the "
        "property demands after every call; concurrent entry: the schedules of a store that releases its lock between an "
        "acknowledgement's bookkeeping and finishSnapshot (Pre_AckUnlocked) are forced onto the real store from several "
        "goroutines with the splitter's Checkpoint() held -- the store must serialise them or publish every id at most once; "
        "late acknowledgements of the previous assembly (Restart.tla): the outstanding acknowledgements of a checkpoint that was pending "
        "when a member was lost are delivered to the real jobs.Job at every point of the following start() and after it - they must not "
        "complete that checkpoint (NoOldAssemblyPublication)")


def run(c):
    quick = c.tier == "quick"
    # 0. the job's side of "late acknowledgements never complete it": a checkpoint of the previous assembly, real jobs.Job (spec/Restart.tla)
    restartlib.single_cut_arm(c, c.tier, "C12", families=("late",))
    c.assumptions.append("ids handed out before a restart but never published are not durable anywhere; 'ids strictly increase across "
                         "restarts' is checked against every id handed out in the same store incarnation and every id ever published to the storage")
    # 1. the repaired design satisfies the properties for every call string within the bounds
    S.exhaustive(c, "full alphabet, whole state graph", MaxLen=1000, IdSpan=2)
    S.exhaustive(c, "full alphabet, depth-bounded", MaxLen=9 if quick else 11, IdSpan=3)
    S.exhaustive(c, "2 operators, 2 runners", MaxLen=10 if quick else 12, Ops={"o1", "o2"}, Srs={"s1", "s2"})
    if not quick:
        S.exhaustive(c, "whole state graph, 3 ids", MaxLen=1000, IdSpan=3, timeout=2400)
        S.exhaustive(c, "3 operators, 1 runner, split-state counts 0..2", MaxLen=11, Ops={"o1", "o2", "o3"}, TokCounts="@{0,1,2}", MaxTok=4)
        S.exhaustive(c, "1 operator, 3 runners", MaxLen=11, Srs={"s1", "s2", "s3"}, MaxTok=4)
    # 2. the invariants are not vacuous: the pre-repair behaviours are counterexamples
    S.must_break(c, "Pre_DupSrAppended", {"PublishedWhole", "NoBad"}, MaxLen=9)
    S.must_break(c, "Pre_ListLexical", {"NoBad"}, MaxLen=12, StartId=2, Acts=S.GOOD)
    S.must_break(c, "Pre_AckUnlocked", {"NoBad", "PublishedOnce", "NewestSurvives"}, MaxLen=9)
    # 3. transition cover of the bounded graph of the tiny assembly, replayed on the real store
    behs, cs = S.cover(c, "1 operator, 1 runner", MaxLen=8 if quick else 9)
    S.replay(c, behs, cs, "cover replay")
    behs, cs = S.cover(c, "resumed store, split-state counts 0 and 2", MaxLen=6 if quick else 8, StartId=5, TokCounts="@{0,2}", MaxTok=4,
                       Acts=[a for a in S.ALL if a != "Savepoint"])
    S.replay(c, behs, cs, "cover replay")
    if not quick:
        behs, cs = S.cover(c, "2 operators, 1 runner", MaxLen=8, Ops={"o1", "o2"})
        S.replay(c, behs, cs, "cover replay")
    # 4. longer simulated call strings for bigger assemblies
    n = 500 if quick else 4000
    shapes = [dict(Ops={"o1", "o2"}, Srs={"s1", "s2"}), dict(Ops={"o1", "o2", "o3"}, Srs={"s1"}), dict(Ops={"o1"}, Srs={"s1", "s2", "s3"}),
              dict(Ops={"o1", "o2"}, Srs={"s1", "s2"}, TokCounts="@{0,1,2}", MaxTok=6, StartId=61)]
    if not quick:
        shapes += [dict(Ops={"o1", "o2", "o3"}, Srs={"s1", "s2", "s3"}, MaxTok=6), dict(Ops={"o1", "o2"}, Srs={"s1"}, StartId=4094, MaxRestarts=2)]
    for i, sh in enumerate(shapes):
        # mostly well-formed acks (deep: several checkpoints, restarts) and the full alphabet (bad acks everywhere)
        for j, acts in enumerate((S.GOOD, S.ALL)):
            behs, cs = S.simulate(c, n, c.seed * 1000 + i * 10 + j, MaxLen=18 if acts is S.GOOD else 12, IdSpan=4, MaxInFlight=3,
                                  Acts=acts, **dict(dict(MaxTok=4), **sh))
            S.replay(c, behs, cs, "simulated call strings")
            if i == 0 and j == 1 and behs:
                c.sample(dict(kind="Store behaviour (full alphabet)", steps=[{k: s[k] for k in s if k in ("a", "id", "op", "sr", "sp", "ret", "states", "pub")} for s in behs[0]]))
    # savepoints folded into / starting checkpoints (the artifact copy shells out: few behaviours)
    behs, cs = S.simulate(c, 60 if quick else 400, c.seed * 1000 + 99, MaxLen=16, IdSpan=4, MaxInFlight=2, Acts=S.PUBL, Ops={"o1", "o2"},
                          keep=lambda b: any(s["a"] == "Create" and s["sp"] for s in b))
    S.replay(c, behs, cs, "simulated call strings with savepoints")


    # 5. concurrent entry of calls: every call (repeated / late / foreign acknowledgement, create, publication) that a store
    #    releasing its lock inside an acknowledgement would let in while the completing acknowledgement is still in
    #    finishSnapshot, issued from another goroutine with the splitter's Checkpoint() held
    window = [a for a in S.ALL if a not in ("Savepoint", "Restart")]
    behs, cs = S.ack_windows(c, "calls entering during finishSnapshot, 1 operator, 1 runner", MaxLen=7, MaxRestarts=0, Acts=window)
    S.replay(c, behs, cs, "concurrent calls during finishSnapshot", AdvAck=True)
    if not quick:
        behs, cs = S.ack_windows(c, "calls entering during finishSnapshot, 2 operators, 1 runner", MaxLen=8, MaxRestarts=0, Acts=window, Ops={"o1", "o2"})
        S.replay(c, behs, cs, "concurrent calls during finishSnapshot", AdvAck=True)
        behs, cs = S.ack_windows(c, "calls entering during finishSnapshot, resumed store, restarts", MaxLen=8, StartId=5, Acts=[a for a in S.ALL if a != "Savepoint"])
        S.replay(c, behs, cs, "concurrent calls during finishSnapshot", AdvAck=True)


def replay(c, path):
    if restartlib.is_restart_file(json.load(open(path))):
        restartlib.replay(c, path)
        return
    S.replay_file(c, path)
