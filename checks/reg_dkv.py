ENGINES = [dict(name="Dkv", path="spec/Dkv.tla", serves_properties=["C07", "C08", "C09"],
                kind_free_text="TLA+ spec of dkv.DB (memtables, levels, WAL segments, flush/compaction tasks, checkpoints, retention, reopen); "
                               "TLC exhaustive + behaviours replayed on the real DB through verif gates (harness/cmd/dkv, harness/fsx)")]
CHECKS = {
    "C07": dict(engine="Dkv", technique="TLA+/TLC model checking of Dkv.tla; TLC-generated schedules replayed on the real dkv.DB through gates, reads compared with the spec's oracle",
                text="TLC proves GetOK/ScanOK over every interleaving of background flush/compaction steps with foreground writes and with the two captures of a read, for 3 keys and <=5 writes; "
                     "hundreds of simulated behaviours with the same structure are forced onto the real DB (gates at flush start/swap, compaction pick/swap, between a read's captures) under several "
                     "memtable sizes / triggers / byte-level concretisations and every read result is compared with the oracle.",
                note="Bounded: 3 keys, 2 values, <=12 writes per behaviour in replay; single foreground goroutine; compaction policy itself is C18's; byte encodings exercised, not modelled."),
    "C08": dict(engine="Dkv", technique="TLA+/TLC model checking of Dkv.tla (Restore evaluated in every state = crash at any storage operation); behaviours replayed on the real dkv.DB, every completed handle re-opened on a copy after every step",
                text="TLC proves RestoreOK/FilesSafe in every reachable state (so for a crash after any storage operation) over all schedules of flush, compaction, WAL save, document save and retention, "
                     "including checkpoint->reopen->write->checkpoint chains; simulated behaviours are forced onto the real DB and after each step each completed, retained handle is opened on a copy of the durable state, "
                     "read back by Get and ScanPrefix, and written to.",
                note="Bounded: <=3 checkpoints and <=2 reopenings per behaviour; crash = abandon (no torn writes inside one Save); restored copies use a large memtable."),
    "C09": dict(engine="Dkv", technique="TLA+/TLC model checking of Dkv.tla (FilesSafe, LiveTablesExist, WalReclaimed with GC and re-open actions); behaviours replayed on the real dkv.DB over a logging file system with forced garbage collection",
                text="TLC proves that no reachable state has a retained checkpoint document or the live level list naming a missing or overwritten file, over all schedules of flush, compaction, saves, retention, GC runs and "
                     "re-openings (crash and same-process); simulated behaviours are forced onto the real DB over a harness file system that logs every create/overwrite/delete; each destructive event is checked against the "
                     "references of the saved document, each forced runtime.GC() is followed by reading back the live database and every retained handle.",
                note="DB-level sharing only (re-open / redeploy in one process); operator-level NeedsTable fault patterns need a rescaled cluster and are not covered by this check; GC is forced at chosen points, never assumed."),
}
