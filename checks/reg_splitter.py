"""Registry fragment of the `splitter` family (assignment half of C16): spec/Splitter.tla,
harness/cmd/splitter, checks/c16_assign.py, spec/KinesisReader.tla, harness/cmd/kreader, checks/c16_reader.py
(+ checks/c16.py calling all halves),
findings/known_splitter.jsonl.  The cut half of C16 belongs to the `pipeline` family
(spec/Pipeline.tla, harness/cmd/pipeline, checks/c16_cut.py); the CHECKS entry below
describes BOTH halves because a property has one entry - the integrator keeps one."""
ENGINES = [
    dict(name="Splitter", path="spec/Splitter.tla", serves_properties=["C16"],
         kind_free_text="TLA+ spec of the source splitters and of how the job drives them: a Kinesis stream with shard lineage (split: one parent -> "
                        "two children, merge: two parents -> one child), the SplitTracker state (known / assigned shards, LastAssignedSplitID), "
                        "runners with per-shard cursors, one action per API call (Start(checkpoint) into any runner count, discovery round = "
                        "ListShards + AddSplits + AvailableSplits + AssignSplits hook + TrackAssigned, NotifySplitsFinished, job checkpoint with "
                        "cursors captured at each runner's barrier and the splitter state at completion); fixed-split variants for the embedded "
                        "(round robin) and httpapi (single split) splitters; TLC exhaustive + simulated behaviours and exported counterexample "
                        "schedules replayed on the real splitters (harness/cmd/splitter)"),
    dict(name="KinesisReader", path="spec/KinesisReader.tla", serves_properties=["C16"],
         kind_free_text="TLA+ spec of the Kinesis source reader together with the splitter and the job / runner loop between them: stream with "
                        "shard lineage and records, per-runner FIFO of AssignSplits messages, SourceReader (assignedShards, shardIndex, cursor "
                        "and iterator per shard; one action per ReadEvents call = one GetRecords page of 1..MaxPage records of one shard, "
                        "iterator expiry, end of a closed shard -> NotifySplitsFinished), job checkpoint = reader cursors at each runner's "
                        "barrier + splitter state at completion, kill/restart into any runner count; ghost variables for the records emitted "
                        "in the current timeline (rewound to the cut by a restore); invariants ResumeExact, ChildAfterParent, OneReader, "
                        "PerShardOrder; TLC exhaustive + simulated behaviours + exported counterexample schedules replayed on real "
                        "kinesis.SourceReaders and the real SourceSplitter against kinesisfake (harness/cmd/kreader)"),
]
CHECKS = {
    "C16": dict(
        engine="Pipeline",
        technique="TLA+/TLC model checking of Pipeline.tla (cut half), Splitter.tla (assignment half) and KinesisReader.tla (reader half); "
                  "TLC-generated behaviours replayed on the "
                  "real SourceRunner (barrier cut of source positions via spec/Pipeline.tla replayed on the real SourceRunner) and on the real "
                  "kinesis SourceSplitter/SplitTracker against the repo's kinesisfake, the real embedded and httpapi splitters and readers, "
                  "real kinesis.SourceReaders reading identifiable records from kinesisfake across checkpoint / kill / restore, and "
                  "the real snapshots.Store; one cut per restart: spec/Restart.tla (start() stepped, publication in two steps) replayed on the real jobs.Job with fake nodes, the snapshot write and every step of start() gated (checks/restartlib.py)",
        text="Cut half: barrier cut of source positions via spec/Pipeline.tla replayed on the real SourceRunner - TLC explores BarrierCut (cursor "
             "snapshot + ack + barrier placeholder in one loop iteration) in every schedule, simulated schedules are forced onto a real "
             "SourceRunner, the reported SplitStates are compared with the records ahead of the barrier in every operator stream and a fresh "
             "runner started from those positions must deliver exactly the remaining records. "
             "Assignment half: TLC exhaustively explores Splitter.tla - every split/merge history over <= 5-6 shards, every interleaving of "
             "discovery rounds, finished shards, job checkpoints (cursors at each runner's barrier, splitter state at completion) and restarts "
             "from the latest completed checkpoint into 1-3 runners - and proves for the repaired mechanism that no finished shard is handed out "
             "again, no child before all its parents are finished (also after a restore) and no ready shard stays unread (DesignOK), and for "
             "the tree as it is that every violation is the listed deviation Dev_StateAtCompletion (Attributed). Hundreds of TLC-simulated "
             "behaviours are replayed on the real kinesis.SourceSplitter against kinesisfake: the stream is resharded through the Kinesis API "
             "as TLC chose, every ListShards of the discovery goroutine is gated so that one model round is one real round, the real "
             "snapshots.Store calls the splitter's Checkpoint() when the last acknowledgement arrives and the published SourceCheckpoint is "
             "fed to a fresh splitter's Start(); every AssignSplits message is judged with harness-kept ground truth (duplicate entries, "
             "splits handed to two runners, re-reads of finished shards, children before parents, cursor = checkpointed position, shards "
             "never assigned after three further rounds). The embedded and httpapi splitters are replayed with their real readers as "
             "runners (records read after a restore must continue at the checkpointed position, for every runner count). Counterexample "
             "schedules of the repaired defects (Pre_LastRegress, Pre_ForgetWithheld), exported from exhaustive runs, are replayed on the "
             "repaired code. "
             "Reader half (Kinesis): TLC exhaustively explores KinesisReader.tla - records put, split/merge, discovery rounds, delivery of "
             "assignment messages to the runner loops, ReadEvents pages of 1..2 records, iterator expiry, barriers, completion and "
             "kill/restart into 1-2 runners - and proves that the mechanism resumes every shard exactly at the cut (ResumeExact: no record "
             "repeated, skipped or left; ChildAfterParent; OneReader). Simulated behaviours are replayed on real kinesis.SourceReaders (one "
             "per runner) + the real SourceSplitter + kinesisfake + the real snapshots.Store: every record carries its identity as payload "
             "and every record returned by ReadEvents is judged against harness-kept ground truth (repeat / gap relative to the cut, child "
             "before its parents' records, two readers, records never read after three more rounds); counterexample schedules of the "
             "repaired defect Pre_CursorAtReaderOnly and of the defective variants Bug_StaleSplitterCursor / Bug_AtSeq, exported from "
             "exhaustive runs, are replayed on the code.",
        note="Assignment half bounds: exhaustive <= 5 shards x 1-3 runners (6 shards x 1-2 runners in the thorough tier) with cursors abstracted "
             "to captured / not captured, <= 4 shards with cursors 0..1; replays up to 9 shards, cursors 0..2, <= 6 restarts. Kafka's splitter "
             "needs a broker and is not covered. The job's part (AssignSplits hook delivery, NotifySplitsFinished forwarding, ack order) is "
             "played by the harness as jobs/job.go does it; in the assignment half kinesis runners are harness-owned (cursors are opaque strings "
             "serialised by the real kinesis.SourceReader.Checkpoint); reading records from Kinesis after a restore is decided by the reader "
             "half (exhaustive <= 3 shards x 1-2 runners, <= 2 records per shard, pages of 1-2, <= 3 starts / 2 checkpoints; replays up to 6 "
             "shards, 4 records per shard, pages of 1-3, 5 restarts; NotifySplitsFinished is forwarded before ReadEvents returns - the "
             "job's hand-off to its task queue is not interleaved; kinesisfake's sequence numbers are positions); the splitsDidFinish "
             "wake-up is folded into the next discovery round; 'never assigned' is concluded after three further discovery rounds; shard "
             "trimming (retention) and ListShards pagination are not modelled. Known finding Dev_StateAtCompletion (DESIGN 7 #27) is listed "
             "in findings/known_splitter.jsonl."),
}
