"""C07 DKV reads return the latest write at every moment — spec/Dkv.tla (GetOK, ScanOK)."""
import dkvlib
import vlib

RULE = ("TLC checks GetOK/ScanOK in every state of Dkv.tla (memtable queue, levels, background flush/compaction "
        "at critical-section granularity, reads split at their two captures); simulated behaviours are replayed on the "
        "real dkv.DB with the background goroutines driven through verif gates; every Get/ScanPrefix result and a final "
        "read-back are compared with the oracle map computed by the spec")


def run(c):
    q = c.tier == "quick"
    dkvlib.run_scripts(c, False)
    dkvlib.exhaustive(c, dkvlib.consts(MaxOps=4, MaxReads=1), dkvlib.INV_READ, "Dkv reads exhaustive MaxOps=4")
    if not q:
        dkvlib.exhaustive(c, dkvlib.consts(MaxOps=5, MaxReads=1), dkvlib.INV_READ, "Dkv reads exhaustive MaxOps=5")
        dkvlib.exhaustive(c, dkvlib.consts(MaxOps=4, MaxReads=2, MemCap=24, L0Trigger=1), dkvlib.INV_READ, "Dkv reads exhaustive cap=1 trigger=1")
    n = 150 if q else 1200
    cfgs = [(dkvlib.consts(MaxOps=9, MaxReads=5, MaxLen=48), 0), (dkvlib.consts(MaxOps=9, MaxReads=5, MaxLen=48), 1),
            (dkvlib.consts(MaxOps=10, MaxReads=5, MaxLen=48, MemCap=24), 2), (dkvlib.consts(MaxOps=10, MaxReads=5, MaxLen=48, MemCap=70, L0Trigger=3), 0),
            (dkvlib.consts(MaxOps=10, MaxReads=5, MaxLen=48, MemCap=200, WalCap=40, L0Trigger=2), 0)]
    if not q:
        cfgs += [(dkvlib.consts(MaxOps=12, MaxReads=6, MaxLen=64, MemCap=24, L0Trigger=1), 1),
                 (dkvlib.consts(MaxOps=12, MaxReads=6, MaxLen=64, MemCap=45, L0Trigger=4), 2)]
    for i, (cs, conc) in enumerate(cfgs):
        dkvlib.replay(c, cs, n, 70, c.seed * 100 + i, "Dkv read replay MemCap=%d L0=%d" % (cs["MemCap"], cs["L0Trigger"]), conc=conc,
                      check_restore=False, CheckFs=False, ReadFaults=True)
    dkvlib.trace_arm(c, 40 if q else 500, 150 if q else 300, c.seed)
    dkvlib.bulk_arm(c, 3000 if q else 12000)
    c.assumptions += ["one foreground goroutine issues Put/Delete/Get/ScanPrefix (the operator's event loop), background tasks interleave at the 6 gate points",
                      "keys/values from three fixed concretisation tables (equal-length, prefix-related, binary/empty)"]


def replay(c, path):
    dkvlib.replay_file(c, path)
