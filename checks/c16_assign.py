"""Assignment half of C16: every split is assigned to exactly one source runner and
after recovery is resumed from its checkpointed position; Kinesis child shards
are not handed out before their parents are finished, also after the splitter
is restored from a checkpoint.

spec/Splitter.tla (stream with shard lineage, SplitTracker state, runners,
job checkpoint = cursors at each runner's barrier + splitter state at
completion, restart into any runner count) and harness/cmd/splitter (real
kinesis SourceSplitter/SplitTracker against the repo's kinesisfake, real
embedded and httpapi splitters with their real readers, real snapshots.Store
deciding when Checkpoint() is taken)."""
import json
import os
import random
import re
from concurrent.futures import ThreadPoolExecutor

import vlib

RULE_ASSIGN = ("TLC explores every split/merge history, discovery round, finish, job checkpoint (cursors at each runner's barrier, "
               "splitter state at completion) and restart into 1-3 runners of Splitter.tla for small bounds: the repaired mechanism "
               "never hands out a finished shard again, never hands out a child before its parents are finished and leaves no ready "
               "shard unread (DesignOK), and with the code's deviation on every violation is the listed one (Attributed); "
               "TLC-simulated behaviours are replayed on the real kinesis SourceSplitter against kinesisfake (ListShards gated, "
               "reshard calls as TLC chose, checkpoint bytes from the real Store fed to a fresh splitter's Start) and on the real "
               "embedded / httpapi splitters and readers; every AssignSplits message is judged (duplicates, re-reads, children before "
               "parents, cursors, lost shards)")

KNOWN_LOCAL = os.path.join(vlib.ROOT, "findings", "known_splitter.jsonl")
INVS = ["Tracked", "AsgKnown", "TypeOK", "CutOK"]
OFF = dict(Dev_StateAtCompletion=False, Pre_LastRegress=False, Pre_ForgetWithheld=False)
CODE = dict(OFF, Dev_StateAtCompletion=True)  # the tree as it is


def load_local_known(c):
    have = {k.get("id") for k in c.known}
    if os.path.exists(KNOWN_LOCAL):
        for line in open(KNOWN_LOCAL):
            line = line.strip()
            if line and not line.startswith("#") and not line.startswith("fixed:"):
                k = json.loads(line)
                if k.get("property") == c.prop and k.get("id") not in have:
                    c.known.append(k)


def consts(kind="kinesis", ninit=2, shards=5, runners=(1, 2), maxcur=0, maxlen=40, log=False, starts=3, **dev):
    b = dict(Kind=kind, NInit=ninit, MaxShards=shards, Runners="@{" + ", ".join(map(str, runners)) + "}", MaxCur=maxcur,
             MaxLen=maxlen, LogOn=log, MaxStarts=starts, ActOn=False, MaxDepth=1000)
    b.update(OFF)
    b.update(dev)
    return b


def brief(cc):
    return "%s N=%d shards<=%d runners=%s cur<=%d %s" % (
        cc["Kind"], cc["NInit"], cc["MaxShards"], cc["Runners"][1:], cc["MaxCur"],
        " ".join(k for k in ("Dev_StateAtCompletion", "Pre_LastRegress", "Pre_ForgetWithheld") if cc[k]) or "all switches off")


def harness_cfg(cc, **extra):
    cfg = {k: v for k, v in cc.items() if not (isinstance(v, str) and v.startswith("@"))}
    cfg.update(extra)
    return cfg


# -------------------------------------------------------------- TLC runs ----
def tlc_start(jobs, workers, timeout, parallel):
    """jobs: (constants, invariants, expectation, label) or ((...), own timeout). Starts a few TLC instances side by
    side (they run while the replays are executed); tlc_collect adds the results."""
    def one(j):
        extra, constraint = (), None
        if len(j) == 2:
            j = j[0]
            extra, constraint = ("-continue",), "DepthOK"
        cc, invs, expect, label = j
        # one worker for the exports: which path TLC reports to a bad state is then reproducible
        return j, vlib.run_tlc("Splitter", cfg=dict(constants=cc, invariants=invs, constraint=constraint),
                               workers=1 if constraint else workers, timeout=timeout, name="Splitter-x", extra_args=extra)
    ex = ThreadPoolExecutor(max_workers=parallel)
    return ex, [ex.submit(one, j) for j in jobs]


def tlc_collect(c, started, keep, seed):
    ex, futs = started
    for f in futs:
        (cc, invs, expect, label), r = f.result()
        if expect and expect.startswith("adversarial:"):
            adversarial(c, expect.split(":")[1], cc, r, keep, seed)
        elif expect:
            # non-vacuity: with the switch on TLC must find the counterexample
            c.add_tlc(r, label, must_hold=False)
            if r.violated != expect:
                c.errors.append("TLC run '%s' was expected to violate %s (non-vacuity) but: violated=%s error=%s" %
                                (label, expect, r.violated, r.error))
        else:
            c.add_tlc(r, label)
    ex.shutdown()


# --------------------------------------------------------------- replays ----
def replay_gen(c, cc, num, seed, label=None):
    behs, r = vlib.gen_behaviours("Splitter", cc, num, cc["MaxLen"] + 5, seed)
    if not behs:
        raise vlib.MachineryError("no behaviours generated for %s" % brief(cc))
    payload = dict(property="C16", family="splitter", seed=seed, config=harness_cfg(cc), behaviours=behs)
    res = vlib.run_harness("splitter", payload)
    c.add_harness(res, payload, label or "Splitter replay %s (%d behaviours)" % (brief(cc), len(behs)))
    return behs, res


def late_finish(beh):
    """a Finish by a runner that is already past its barrier of the pending checkpoint (what Dev_StateAtCompletion is about)"""
    pend, past = False, set()
    for s in beh:
        a = s["a"]
        if a == "StartCkpt":
            pend, past = True, set()
        elif a in ("Complete", "Start"):
            pend = False
        elif a == "Barrier":
            past.add(s["r"])
        elif a == "Finish" and pend and s["r"] in past:
            return True
    return False


def cex_traces(out):
    """counterexamples of an exhaustive run with ActOn and -continue: [(actions, bad records of the last state)]"""
    traces = []
    for chunk in out.split("Error: Invariant")[1:]:
        states = re.split(r"\nState \d+: ", chunk)[1:]
        steps = []
        for st in states:
            m = re.search(r"/\\ act = \[([^\]]*)\]", st)
            if not m:
                break
            f = dict(re.findall(r'(\w+) \|-> ("?\w*"?)', m.group(1)))
            a = f["a"].strip('"')
            if a:
                steps.append(dict(a=a, s=int(f["s"]), t=int(f["t"]), r=int(f["r"])))
        else:
            m = re.search(r"/\\ bad = (\{.*?\})\n/\\", states[-1], re.S) if states else None
            if m:
                bad = [dict(re.findall(r'(\w+) \|-> "?(\w+)"?', rec)) for rec in re.findall(r"\[([^\]]*)\]", m.group(1))]
                traces.append((steps, bad))
    return traces


def adversarial_job(switch, shards, runners, depth):
    """exhaustive run to a bounded depth with the Pre_* switch on, the last action recorded in `act`, -continue:
    TLC prints every counterexample of the bounded graph"""
    cc = consts(ninit=2, shards=shards, runners=runners, **{switch: True})
    cc["ActOn"] = True
    cc["MaxDepth"] = depth
    return (cc, ["DesignOK"], "adversarial:" + switch, "Splitter counterexamples of %s to depth %d" % (brief(cc), depth)), "export"


def adversarial(c, switch, cc, r, keep, seed):
    """schedules only the unrepaired code admits (a Pre_* switch on): the real code must keep the property on them"""
    c.add_tlc(r, "Splitter counterexample export to depth %d %s" % (cc["MaxDepth"], brief(cc)), must_hold=False)
    if r.error or "Model checking completed" not in r.out:
        raise vlib.MachineryError("counterexample export did not complete: %s\n%s" % (r.error, r.out[-1500:]))
    behs = []
    for steps, bad in cex_traces(r.out):
        if late_finish(steps) or not any(b.get("dev") == switch for b in bad):
            continue
        if any(steps[:len(o)] == o for o in behs):
            continue
        behs.append(steps)
    behs.sort(key=lambda b: json.dumps(b))
    random.Random(seed).shuffle(behs)
    behs = sorted(behs[:keep], key=len)
    if not behs:
        raise vlib.MachineryError("no %s counterexample schedules exported:\n%s" % (switch, r.out[-1500:]))
    payload = dict(property="C16", family="splitter", seed=seed, config=harness_cfg(cc, Adversarial=True), behaviours=behs)
    res = vlib.run_harness("splitter", payload)
    c.add_harness(res, payload, "Splitter adversarial: %d witness schedules of %s on the repaired code" % (len(behs), switch))


def witness(c, seed):
    """the listed finding must still be exhibited by the model (else the entry is stale)"""
    cc = consts(ninit=2, shards=4, runners=(1,), maxcur=1, maxlen=14, log=True, starts=2, **CODE)
    behs, r = vlib.gen_counterexamples("Splitter", cc, limit=40, num=1200, depth=14, seed=seed, timeout=60)
    behs = [b for b in behs if any(x["dev"] == "Dev_StateAtCompletion" for x in b[-1].get("bad", []))][:10]
    if not behs:
        c.errors.append("the model no longer exhibits Dev_StateAtCompletion")
        return
    payload = dict(property="C16", family="splitter", seed=seed, config=harness_cfg(cc), behaviours=behs)
    res = vlib.run_harness("splitter", payload)
    c.add_harness(res, payload, "Splitter witnesses of Dev_StateAtCompletion (%d shortest counterexamples)" % len(behs))
    hits = res.get("counters", {}).get("known:Dev_StateAtCompletion", 0)
    c.extra["Dev_StateAtCompletion_witnesses_reproduced"] = hits
    if behs:
        c.sample(dict(kind="Splitter.tla counterexample (Dev_StateAtCompletion), replayed on the real kinesis splitter", steps=behs[0]))


def assign_half(c):
    load_local_known(c)
    s = c.seed
    quick = c.tier == "quick"
    if quick:
        d1, c1 = consts(ninit=1, shards=5, runners=(1, 2, 3)), consts(ninit=2, shards=5, runners=(1, 2), **CODE)
        jobs = [(d1, ["DesignOK"] + INVS, None, "Splitter design " + brief(d1)),
                (c1, ["Attributed"] + INVS, None, "Splitter code " + brief(c1))]
        tl, wk, par = 400, 6, 2
    else:
        jobs = []
        for n in (1, 2, 3):
            for dev, inv, nm in ((OFF, "DesignOK", "design"), (CODE, "Attributed", "code")):
                cc = consts(ninit=n, shards=5, runners=(1, 2, 3), **dev)
                jobs.append((cc, [inv] + INVS, None, "Splitter %s %s" % (nm, brief(cc))))
        for cc in (consts(ninit=2, shards=6, runners=(1, 2)), consts(ninit=2, shards=6, runners=(1, 2), **CODE),
                   consts(ninit=2, shards=4, runners=(1, 2), maxcur=1), consts(ninit=2, shards=4, runners=(1, 2, 3), maxcur=1, **CODE),
                   consts(ninit=1, shards=3, runners=(1, 2, 3), maxcur=2, **CODE)):
            jobs.append((cc, ["Attributed" if cc["Dev_StateAtCompletion"] else "DesignOK"] + INVS, None,
                         "Splitter %s %s" % ("code" if cc["Dev_StateAtCompletion"] else "design", brief(cc))))
        tl, wk, par = 900, 4, 3
    for sw in ("Dev_StateAtCompletion", "Pre_LastRegress", "Pre_ForgetWithheld"):
        cc = consts(ninit=2, shards=6 if sw == "Pre_ForgetWithheld" else 4, runners=(1,), **{sw: True})
        jobs.append((cc, ["DesignOK"], "DesignOK", "Splitter non-vacuity " + brief(cc)))
    jobs.append(adversarial_job("Pre_LastRegress", 4, (1, 2), 11))
    jobs.append(adversarial_job("Pre_LastRegress", 7, (1,), 10))
    jobs.append(adversarial_job("Pre_ForgetWithheld", 6, (1,), 12))
    if not quick:
        jobs.append(adversarial_job("Pre_ForgetWithheld", 6, (1, 2), 12))
        jobs.append(adversarial_job("Pre_LastRegress", 5, (1, 2, 3), 12))
        jobs.append(adversarial_job("Pre_ForgetWithheld", 7, (1, 2), 13))
    started = tlc_start(jobs, wk, tl, par)
    c.exhaustive = True

    # behaviours of the model of the tree as it is, replayed on the real splitters
    if quick:
        gens = [(consts(ninit=2, shards=7, runners=(1, 2, 3), maxcur=2, maxlen=40, log=True, starts=3, **CODE), 160),
                (consts(ninit=1, shards=6, runners=(1, 2), maxcur=2, maxlen=36, log=True, starts=3, **CODE), 120),
                (consts(ninit=3, shards=8, runners=(1, 2, 3), maxcur=1, maxlen=50, log=True, starts=4, **CODE), 120),
                (consts("embedded", ninit=3, shards=3, runners=(1, 2, 3), maxcur=4, maxlen=26, log=True, starts=3, **CODE), 100),
                (consts("httpapi", ninit=1, shards=1, runners=(1, 2, 3), maxcur=4, maxlen=18, log=True, starts=3, **CODE), 60)]
        adv = 40
    else:
        gens = [(consts(ninit=n, shards=sh, runners=rs, maxcur=2, maxlen=ml, log=True, starts=st, **CODE), 500)
                for n, sh, rs, ml, st in ((1, 5, (1, 2, 3), 40, 3), (1, 7, (2, 3), 50, 4), (2, 6, (1, 2), 44, 3), (2, 8, (1, 2, 3), 60, 4),
                                          (2, 9, (3,), 70, 5), (3, 7, (1, 2, 3), 50, 3), (3, 9, (1, 2, 3), 70, 5), (2, 7, (1,), 50, 6))]
        gens += [(consts("embedded", ninit=n, shards=n, runners=(1, 2, 3), maxcur=4, maxlen=30, log=True, starts=4, **CODE), 300) for n in (1, 2, 3, 4)]
        gens += [(consts("httpapi", ninit=1, shards=1, runners=(1, 2, 3), maxcur=5, maxlen=24, log=True, starts=4, **CODE), 200)]
        adv = 400
    first = None
    for i, (cc, num) in enumerate(gens):
        behs, res = replay_gen(c, cc, num, s * 1000 + i)
        if first is None:
            first = behs[0]
    if first:
        c.sample(dict(kind="Splitter.tla behaviour (first steps)", steps=first[:14]))
    witness(c, s * 1000 + 73)
    tlc_collect(c, started, adv, s * 1000 + 71)
    c.assumptions.append("C16 assignment half: Kafka's splitter needs a broker and is not covered; the job's part (hook delivery, "
                         "NotifySplitsFinished forwarding, ack order) is played by the harness as jobs/job.go does it, with the real "
                         "snapshots.Store deciding when SourceSplitter.Checkpoint() is called; kinesis runners are harness-owned "
                         "(cursors are opaque strings serialised by the real kinesis.SourceReader.Checkpoint); a shard counts as lost "
                         "when three further discovery rounds do not assign it")


def replay_assign(c, path):
    load_local_known(c)
    payload = json.load(open(path))
    payload.pop("violation", None)
    res = vlib.run_harness("splitter", payload)
    c.add_harness(res, payload, "replay " + path)
