"""C14 Savepoints are self-contained and restore the checkpointed job state; requesting one does not
disturb the running job and folds into a checkpoint that is already in progress.

spec/Savepoint.tla models the store's checkpoint / savepoint coordination (CreateCheckpoint,
CreateSavepoint folding into the pending checkpoint, acknowledgements in any order, asynchronous
publication), the operators' DKV checkpoint documents (several entries, each with its own WAL and table
list; memtable / L0 / deeper levels; RetainOnly deleting WALs and unreferenced tables), the savepoint
artifact built per operator from the document AS IT IS WHEN THE COPY RUNS, Wipe of all working storage
and the start from the savepoint URI.

* TLC checks SavepointClosed (files(savepoint n) contains what each operator's checkpoint n - not "the
  latest" - references), RestoredEqualsSnap, FoldsIntoPending, AtMostOnePending, Undisturbed and
  PublishedIsCut exhaustively for 1-2 operators, state in memtable / L0 / deeper, a savepoint requested
  before / during / after a periodic checkpoint, 0-2 further checkpoints and retention rounds before
  the copy, restore into N in {1,2}; and confirms that the same model with recovery.ListFiles as found
  (Dev_ListLatest, DESIGN 7 #23) violates SavepointClosed.
* Simulated behaviours are replayed end-to-end on the real Job / Store / SourceRunners / Operators /
  dkv on a real directory (harness/cmd/savepoint): gates hold the acknowledgements, the snapshot
  write, the retention calls and the artifact's document reads exactly where the model says; then
  rm -rf of the working storage, a second cluster from the savepoint URI (same or other worker count),
  state read back through the reference handler (and a checkpoint when N = W). Three data layouts
  (memtable/WAL only; tiny memtables: L0; tiny memtables + compactor tuning: deeper levels).
* Counterexamples of the Dev_ListLatest model (documents holding n and n+1 when the artifact for n is
  built) are replayed as regression witnesses of #23.
* Overlapping publications: the store publishes every completed checkpoint on its own goroutine, so the
  model's PubWrite takes the tasks in ANY order; a savepoint whose snapshot write is overtaken by the next
  checkpoint's publication is superseded on arrival and must still get its artifact (SpFailedOnlyIfDropped /
  SpProducedUnlessOvertaken: "no savepoint" is acceptable only when retention of a newer published checkpoint
  has dropped entry n from an operator's document, or a newer publication has removed job snapshot n, before
  the copy got there). A batch of behaviours is generated with SpHold (the savepoint's write is held at the
  store gate until the next checkpoint is published) so that every run replays the overlap on the real store.
* Savepoint chains (Gens = 2): savepoint -> wipe -> start from it (gated like the first job) -> more records,
  checkpoints, a SECOND savepoint -> wipe -> start from that one: the state and source positions must be those
  of the second savepoint's own cut. The real store's checkpoint ids of a job started from a savepoint are
  mapped onto the model's (their values are not C14's subject).
"""
import copy
import concurrent.futures
import json
import os
import shutil
import tempfile

import vlib

RULE = ("TLC explores every interleaving of periodic checkpoints, the savepoint request, acknowledgements, "
        "publication in any completion order (a savepoint's publication overtaken by the next checkpoint's), retention, "
        "flush/compaction, the per-operator artifact copy, wipe and restore - and of chains of two savepoints (the job "
        "started from a savepoint takes a savepoint of its own) - of Savepoint.tla for small constants; simulated behaviours (and the counterexamples of the model with "
        "ListFiles as found) are replayed end-to-end on the real in-process cluster on a real directory "
        "through gates and judged by the savepoint directory's contents, the state the handlers are given "
        "after starting from the savepoint URI with the working storage deleted, the source positions, "
        "CreateSavepoint's results and the running job's published checkpoints")

INV = ["TypeOK", "SavepointClosed", "RestoredEqualsSnap", "AtMostOnePending", "PublishedIsCut", "SpProducedUnlessOvertaken"]
PROPS = ["FoldsIntoPending", "Undisturbed", "SpFailedOnlyIfDropped"]
BASE = dict(NOps=2, MaxEv=2, MaxCkpt=2, MaxFlush=1, MaxCompact=1, RestoreNs="@{1,2}", Dev_ListLatest=False,
            RetainKeepsNewer=False, SpAfter=0, SpHold=False, Gens=1, MaxLen=100000)

# data layouts of the replay (harness config): where the operators' state lives when the savepoint is taken
LAYOUTS = {
    "wal":  dict(Burst=1),                                                        # default 64 MB memtable: memtable + WAL only
    "l0":   dict(Burst=8, MemTable=300),                                          # tiny memtables: L0 tables (+ WAL tail)
    "deep": dict(Burst=14, MemTable=180, SmallestLevel=500, MaxSizeAmpPct=15),    # + compactions into deeper levels
}


def exhaustive(c, consts, label, timeout=600):
    r = vlib.run_tlc("Savepoint", cfg=dict(constants=consts, invariants=INV, properties=PROPS, view="view"), timeout=timeout)
    c.add_tlc(r, "Savepoint exhaustive %s %s" % (label, json.dumps(consts)))
    return r


def dev_model(c, consts):
    """the model with ListFiles as found must violate SavepointClosed (the model can see #23 at all)"""
    r = vlib.run_tlc("Savepoint", cfg=dict(constants=dict(consts, Dev_ListLatest=True), invariants=["SavepointClosed"], view="view"), timeout=300)
    c.add_tlc(r, "Savepoint with Dev_ListLatest (must violate SavepointClosed)", must_hold=False)
    if r.violated != "SavepointClosed":
        c.errors.append("Savepoint.tla with Dev_ListLatest=TRUE did not violate SavepointClosed (violated=%s error=%s)" % (r.violated, r.error))


def replayable(b):
    # a retention notification that reaches an operator after it has taken a newer DKV checkpoint is DESIGN 7 #28
    # (C09/C13; RetainOnly drops the newer checkpoint on the tree without the store family's repair): not replayed
    return not any(s["a"] == "Retain" and s.get("late") for s in b)


def harness_cfg(consts, layout, **extra):
    cfg = {k: v for k, v in consts.items() if k not in ("RestoreNs", "MaxLen", "SpHold", "Gens")}
    cfg.update(LAYOUTS[layout])
    cfg.update(Layout=layout, Chunk=12, ChildTimeoutS=300)
    cfg.update(extra)
    return cfg


def run_replay(c, behs, consts, layout, label, **extra):
    payload = dict(property="C14", seed=c.seed, config=harness_cfg(consts, layout, **extra), behaviours=behs)
    res = vlib.run_harness("savepoint", payload, timeout=2400)
    c.add_harness(res, payload, "Savepoint replay %s [%s] (%d behaviours)" % (label, layout, len(behs)))
    return res, payload


def run_replays(c, jobs):
    """jobs: (behaviours, consts, layout, label, extra). The replayer runs one cluster at a time, so the jobs run side by
    side; results are added in job order (deterministic evidence)."""
    vlib.build("savepoint")
    payloads = [dict(property="C14", seed=c.seed, config=harness_cfg(consts, lay, **extra), behaviours=behs)
                for behs, consts, lay, label, extra in jobs]
    with concurrent.futures.ThreadPoolExecutor(max_workers=3) as ex:
        futs = [ex.submit(vlib.run_harness, "savepoint", p, 2400) for p in payloads]
        out = []
        for f, p, j in zip(futs, payloads, jobs):
            try:
                res = f.result()
            except vlib.MachineryError as e:
                c.errors.append(str(e)[-3000:])
                continue
            c.add_harness(res, p, "Savepoint replay %s [%s] (%d behaviours)" % (j[3], j[2], len(j[0])))
            out.append((res, p))
    return out


def generated(c, consts, num, seed, layouts, label, depth=60, afters=(0, 1, 2)):
    """simulated behaviours; the savepoint request is spread over the job's life (SpAfter = 0, 1, 2 checkpoint ids handed
    out before it) because a random walk otherwise requests it within the first few steps"""
    behs = []
    afters = [a for a in afters if a < consts["MaxCkpt"]]
    gens = [dict(consts, MaxFlush=0, MaxCompact=0, MaxLen=depth, SpAfter=a) for a in afters]  # the layout comes from the harness configuration
    with concurrent.futures.ThreadPoolExecutor(max_workers=len(gens)) as ex:   # -simulate is single-threaded
        futs = [ex.submit(vlib.gen_behaviours, "Savepoint", g, max(num // len(afters), 4), depth + 5, seed * 10 + g["SpAfter"]) for g in gens]
        for f in futs:
            bs, r = f.result()
            behs += [b for b in bs if replayable(b) and b not in behs]
    gen = dict(consts, MaxFlush=0, MaxCompact=0, MaxLen=depth)
    if not behs:
        raise vlib.MachineryError("no replayable behaviours generated for " + label)
    # spread the behaviours over the layouts (every behaviour is run under exactly one)
    jobs = []
    for i, lay in enumerate(layouts):
        part = behs[i::len(layouts)]
        if part:
            jobs.append((part, gen, lay, label, {}))
    out = run_replays(c, jobs)
    c.sample(dict(kind="Savepoint behaviour (%s)" % label, config=gen, steps=behs[0][:30]))
    return behs, out


def witnesses(c, consts, seed, limit, layouts):
    """schedules in which the artifact code, with ListFiles as found, lists another checkpoint than the savepoint's"""
    dev = dict(consts, MaxFlush=0, MaxCompact=0, Dev_ListLatest=True, MaxLen=60)
    behs, r = vlib.gen_counterexamples("Savepoint", dev, limit=limit, num=1500, depth=65, seed=seed, timeout=120)
    behs = [b for b in behs if replayable(b)]
    if not behs:
        c.errors.append("no Dev_ListLatest counterexamples generated")
        return
    for lay in layouts:
        run_replay(c, behs, dev, lay, "Dev_ListLatest counterexamples (#23 regression witnesses)")
    c.sample(dict(kind="#23 witness: the document holds a newer checkpoint when the artifact is built", steps=behs[0]))


def selftest(c, behs, consts):
    """binding self-test: a flipped expectation must be reported by the replayer"""
    full = [b for b in behs if b[-1]["a"] == "Restore" and b[-1]["cut"] < consts["MaxEv"]]
    if not full:
        c.errors.append("self-test: no complete behaviour available")
        return
    b1 = copy.deepcopy(full[0])
    b1[-1]["cut"] += 1                       # the restored job must NOT resume one event later
    sp = [b for b in behs if any(s["a"] == "Sp" and not s["created"] for s in b)]
    tests = [("restore cut + 1", b1, "resumes the source at")]
    if sp:
        b2 = copy.deepcopy(sp[0])
        for s in b2:
            if s["a"] == "Sp":
                s["id"] += 1                 # a fold must return the pending id, not another one
        tests.append(("folded savepoint id + 1", b2, "must return that id"))
    for name, b, needle in tests:
        gen = dict(consts, MaxFlush=0, MaxCompact=0)
        payload = dict(property="C14", seed=c.seed, config=harness_cfg(gen, "wal"), behaviours=[b])
        res = vlib.run_harness("savepoint", payload, timeout=600)
        if not any(needle in v.get("what", "") for v in res.get("violations", [])):
            c.errors.append("self-test '%s': the replayer did not report the flipped expectation (%s)" %
                            (name, [v.get("what", "")[:120] for v in res.get("violations", [])] or res.get("errors")))
        else:
            c.extra.setdefault("selftests_passed", []).append(name)


def selftest_chain(c, behs, consts):
    """binding self-test of the chain: the job started from the SECOND savepoint must not resume one event later"""
    full = [b for b in behs if sum(1 for s in b if s["a"] == "Restore") == 2 and b[-1]["a"] == "Restore"]
    if not full:
        c.errors.append("self-test: no complete chain behaviour available")
        return
    b = copy.deepcopy(full[0])
    b[-1]["cut"] += 1 if b[-1]["cut"] < consts["MaxEv"] else -1
    gen = dict(consts, MaxFlush=0, MaxCompact=0)
    payload = dict(property="C14", seed=c.seed, config=harness_cfg(gen, "wal"), behaviours=[b])
    res = vlib.run_harness("savepoint", payload, timeout=600)
    if not any("resumes the source at" in v.get("what", "") for v in res.get("violations", [])):
        c.errors.append("self-test 'second restore cut + 1': the replayer did not report the flipped expectation (%s)" %
                        ([v.get("what", "")[:120] for v in res.get("violations", [])] or res.get("errors")))
    else:
        c.extra.setdefault("selftests_passed", []).append("second restore cut + 1")


def stage(c, f, *a, **k):
    try:
        return f(*a, **k)
    except vlib.MachineryError as e:
        c.errors.append(str(e)[-3000:])


def run(c):
    quick = c.tier == "quick"
    root = tempfile.mkdtemp(prefix="verif-sp-", dir="/dev/shm" if os.path.isdir("/dev/shm") else None)
    os.environ["VERIF_SAVEPOINT_TMP"] = root   # the replayer's directories live (and die) here
    try:
        one = dict(BASE, NOps=1, MaxCkpt=3, MaxFlush=2)
        far = dict(BASE, MaxEv=1, MaxCkpt=3, MaxCompact=0)
        # savepoint chains: the repaired RetainOnly (the tree's) - the job started from a savepoint begins with a retention round
        chain1 = dict(BASE, NOps=1, MaxCkpt=3, Gens=2, RetainKeepsNewer=True)
        chain2 = dict(BASE, MaxCkpt=3, MaxFlush=0, MaxCompact=0, Gens=2, RetainKeepsNewer=True)
        if quick:
            exhaustive(c, dict(BASE), "2 operators, 2 events, 2 checkpoints, flush+compaction")
            exhaustive(c, one, "1 operator, 3 checkpoints, 2 flushes + compaction")
            exhaustive(c, far, "2 operators, 3 checkpoints (two further ones before the copy)")
            exhaustive(c, chain1, "chain of 2 savepoints, 1 operator, 3 checkpoints, flush+compaction")
            exhaustive(c, dict(chain2, MaxCkpt=2), "chain of 2 savepoints, 2 operators, 2 checkpoints")
        else:
            exhaustive(c, dict(BASE), "2 ops, 2 ckpts")
            exhaustive(c, dict(BASE, RetainKeepsNewer=True), "2 ops, 2 ckpts, RetainOnly keeps newer")
            exhaustive(c, one, "1 op, 3 ckpts")
            exhaustive(c, dict(one, MaxEv=3, RetainKeepsNewer=True), "1 op, 3 events, 3 ckpts, RetainOnly keeps newer", timeout=900)
            exhaustive(c, far, "2 ops, 3 ckpts")
            exhaustive(c, dict(far, RetainKeepsNewer=True, MaxEv=2, MaxFlush=1), "2 ops, 2 events, 3 ckpts, RetainOnly keeps newer", timeout=900)
            exhaustive(c, chain1, "chain of 2 savepoints, 1 op, 3 ckpts")
            exhaustive(c, chain2, "chain of 2 savepoints, 2 ops, 3 ckpts")
            exhaustive(c, dict(chain1, MaxEv=3, MaxCkpt=4, MaxFlush=1, MaxCompact=0, RestoreNs="@{1}"), "chain of 2 savepoints, 1 op, 3 events, 4 ckpts", timeout=900)
        dev_model(c, dict(BASE))
        c.exhaustive = True

        g2 = dict(BASE, MaxEv=3, MaxCkpt=3)
        g1 = dict(BASE, NOps=1, MaxEv=3, MaxCkpt=3)
        n2, n1 = (48, 24) if quick else (420, 220)
        r2 = stage(c, generated, c, g2, n2, c.seed * 100 + 1, ["wal", "l0", "deep"], "2 operators")
        stage(c, generated, c, g1, n1, c.seed * 100 + 2, ["wal", "deep", "l0"], "1 operator")
        if not quick:
            stage(c, generated, c, dict(g2, MaxCkpt=4), 200, c.seed * 100 + 3, ["deep", "l0", "wal"], "2 operators, 4 checkpoints", 80)
        # the savepoint's publication overtaken by the next checkpoint's (held at the store gate)
        h2, h1 = (14, 8) if quick else (120, 60)
        stage(c, generated, c, dict(g2, SpHold=True), h2, c.seed * 100 + 6, ["wal", "l0", "deep"], "2 operators, savepoint publication overtaken", 60, (0, 1))
        stage(c, generated, c, dict(g1, SpHold=True), h1, c.seed * 100 + 7, ["l0", "wal"], "1 operator, savepoint publication overtaken", 60, (0, 1))
        if not quick:
            stage(c, generated, c, dict(g2, SpHold=True, MaxCkpt=4, RetainKeepsNewer=True), 90, c.seed * 100 + 8, ["deep", "wal", "l0"],
                  "2 operators, 4 checkpoints, savepoint publication overtaken", 80)
        # savepoint chains
        k2, k1 = (36, 16) if quick else (160, 90)
        gc2 = dict(g2, MaxEv=4, MaxCkpt=4, Gens=2, RetainKeepsNewer=True)
        gc1 = dict(g1, MaxEv=4, MaxCkpt=4, Gens=2, RetainKeepsNewer=True)
        rc = stage(c, generated, c, gc2, k2, c.seed * 100 + 9, ["wal", "l0", "deep"], "2 operators, chain of 2 savepoints", 120, (0, 1))
        stage(c, generated, c, gc1, k1, c.seed * 100 + 10, ["deep", "wal"], "1 operator, chain of 2 savepoints", 120, (0, 1))
        if not quick:
            stage(c, generated, c, dict(gc2, MaxEv=5, MaxCkpt=6, SpHold=True), 60, c.seed * 100 + 11, ["wal", "deep", "l0"],
                  "2 operators, chain of 2 savepoints, both publications overtaken", 160, (0, 1))
        stage(c, witnesses, c, g2, c.seed * 100 + 4, 8 if quick else 24, ["wal"] if quick else ["wal", "deep"])
        stage(c, witnesses, c, g1, c.seed * 100 + 5, 4 if quick else 12, ["l0"])
        if r2:
            stage(c, selftest, c, r2[0], g2)
        if rc:
            stage(c, selftest_chain, c, rc[0], gc2)
        # coverage the tier claims: every layout was actually reached on the real databases
        tot = {}
        for h in c.extra.get("harness_runs", []):
            for k, v in h.get("counters", {}).items():
                tot[k] = tot.get(k, 0) + v
        c.extra["replay_counters"] = tot
        for k in ("layout_state_in_wal", "layout_state_in_L0", "layout_state_in_deeper_levels", "sp_folded", "sp_created",
                  "sp_folded_into_later_checkpoint", "doc_latest_is_not_savepoint_id", "restore_2_to_1", "restore_2_to_2", "restore_1_to_2", "restore_1_to_1",
                  "sp_publication_overtaken", "sp_produced_after_overtaken_publication", "chain_restored_job_goes_on", "chain_second_savepoint_restored"):
            if not tot.get(k) and not c.errors:
                c.errors.append("replay never reached '%s' (vacuous coverage)" % k)
    finally:
        shutil.rmtree(root, ignore_errors=True)
    c.assumptions += [
        "every operator takes its DKV checkpoint when the runners' acknowledgements are released (barrier alignment is C02); "
        "records are delivered only while no checkpoint is in progress at the store",
        "a retention notification never reaches an operator that has already taken a newer DKV checkpoint (DESIGN 7 #28: C09/C13) "
        "in replayed behaviours; publications finish in any order (a superseded one is not read back: its file goes again)",
        "savepoint chains keep the worker count (checkpoints of a rescaled job: C06); the checkpoint ids a job started from a "
        "savepoint hands out are taken from the real store, their values are not judged (C12)",
        "timers: the cluster kit's reference handler sets none; they live in the same DKV files whose completeness is checked",
        "restore into another worker count is read back through the reference handler only; checkpoints of a rescaled job are C06 "
        "(needs the rescale family's repairs for checkpoints opened from several handles)",
        "Store.errChan is never set (NewStore ignores params.ErrChan): a failed artifact is silent; where the model says the copy "
        "cannot succeed (checkpoint n already dropped by retention / job snapshot n already removed) 'no savepoint' is accepted",
    ]


def replay(c, path):
    payload = json.load(open(path))
    root = tempfile.mkdtemp(prefix="verif-sp-", dir="/dev/shm" if os.path.isdir("/dev/shm") else None)
    os.environ["VERIF_SAVEPOINT_TMP"] = root
    try:
        res = vlib.run_harness("savepoint", payload)
        c.add_harness(res, payload, "replay " + path)
    finally:
        shutil.rmtree(root, ignore_errors=True)
