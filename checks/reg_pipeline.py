"""Registry fragment of the pipeline family (C04; the cut half of C16 is in
checks/c16_cut.py and is registered by the integrator together with the splitter half)."""
ENGINES = [
    dict(name="Pipeline", path="spec/Pipeline.tla", serves_properties=["C04", "C16"],
         kind_free_text="TLA+ spec of one source runner (workers/sourcerunner: event loop with reads / ticks / BarrierCut, outputStream "
                        "placeholders, inlined ReorderFetcher at Fetcher.tla granularity, router, per-operator EventBatcher + sender "
                        "goroutine with TimeoutFlush vs SizeFlush, operator back-pressure) with ghost state order / cuts / stream[op]; "
                        "TLC exhaustive + behaviours replayed on a real sourcerunner.SourceRunner (harness/cmd/pipeline: harness-owned "
                        "reader, KeyEventBatch handler, timers, operators, job; batching.* and sourcerunner.sent hooks); "
                        "spec/PipelineTrace.tla validates free-running recorded runs"),
]
CHECKS = {
    "C04": dict(
        engine="Pipeline",
        technique="TLA+/TLC model checking of Pipeline.tla; TLC-generated schedules forced onto a real SourceRunner through harness-owned "
                  "interfaces and verif-tag hooks; recorded free-running traces validated by PipelineTrace.tla",
        text="TLC exhaustively checks, over every interleaving of reads (any split, any batch size), key-by fetch completions, batch "
             "time-outs of the key-by and of every operator batcher, held HandleEventBatch calls (back-pressure), watermark ticks and "
             "a barrier, that each record reaches exactly the owner of its key group once, that records of one split and key keep "
             "split order, that no barrier / watermark precedes a record read before it, and that nothing stays behind at quiescence "
             "(2 splits x 3 records, 2 keys, 2 operators, batch sizes 1-3). Hundreds of TLC-simulated schedules per configuration "
             "(up to 3 splits x 4 records, 3 operators, 1-2 barriers, end of input, no-time-out configuration) are executed step by "
             "step on a real SourceRunner; after every step the HandleEventBatch argument streams are judged against the property; "
             "two calls in flight to one operator are delivered in the adversarial order. Seeded free-running runs (random batch "
             "sizes 1-4, SystemTimer delays 0-3 ms, random read/handler/operator latencies, 1-3 ms watermark ticker, checkpoints at "
             "random moments) are recorded and validated by PipelineTrace.tla with a duplicated-batch binding self-test.",
        note="Bounded constants; router / sender steps are urgent in the model (they have no gate in the code; schedules in which they "
             "lag are equivalent up to batch composition and are sampled by the free-running traces); the watermark ticker period is "
             "set through Tune(sourcerunner.watermarkTickMs) (1 h in replays, 1-3 ms in free runs); one KeyedEvent per record; "
             "known finding Dev_NoFlushAtEndOfInput: SourceComplete is unreachable in the runner (ReadSourceChannel.C is never "
             "closed), so with no batch time-out the tail of a bounded source is never delivered; Pipeline.tla carries the intended "
             "design (Dev_NoFlushAtEOI=FALSE: Flush, final watermark, SourceComplete, operators.flush()) which TLC verifies, and the "
             "code as it is (TRUE) which reproduces the finding; the check classifies exactly that anomaly as known."),
}
