"""Registry fragment of the `ordered` family (property C19)."""
ENGINES = [
    dict(name="Ordered", path="spec/OrderedRef.tla", serves_properties=["C19"],
         kind_free_text="TLA+ specs of the in-memory ordered structures, one module per structure on the shared byte-string "
                        "vocabulary OrderedRef.tla: OrderedZip.tla (zip tree: insert/unzip/replace/Get/AscendPrefix transcribed, ranks chosen "
                        "by TLC, checked against the key->value function), OrderedHeapOps.tla + OrderedHeap.tla (binary heap array with "
                        "up/down/Fix and external priority change, checked against the sorted bag), OrderedPPQ.tla (heap of partitions), "
                        "OrderedCache.tla (SortedCache byte accounting and eviction), OrderedSet.tla, OrderedMap.tla, OrderedMerge.tla "
                        "(de-duplicating and plain k-way merge), OrderedSearch.tla (half-open binary search on every sorted unique slice "
                        "of length 0..9). TLC exhaustive + TLC-generated operation sequences with model-computed results replayed on the "
                        "real structures (harness/cmd/ordered)"),
]
CHECKS = {
    "C19": dict(
        engine="Ordered",
        technique="TLA+/TLC model checking of the Ordered*.tla modules (implementation-shaped heap, partition heap, zip tree and binary "
                  "search checked against the sorted-slice reference); every TLC-generated history - exhaustive up to a small length, "
                  "-simulate beyond - replayed on the real structures with adversarial byte-string keys; zip-tree ranks injected through "
                  "the verif-tag hook ziptree.rank",
        text="TLC proves for all small histories that the transcribed heap (Push/Pop/Fix after an external priority change), heap of "
             "partitions, zip tree (every rank order including ties) and half-open binary search return what the sorted-slice reference "
             "returns; TLC then generates every operation sequence up to length 3-6 over prefix-related keys (\"\", \"\\x00\", \"a\", "
             "\"a\\x00\", ...) plus hundreds of simulated sequences of length 25-60, each step carrying the reference's result, and the "
             "replayer executes them on ziptree, Heap, PartitionedPriorityQueue, SortedCache (IsFull/eviction accounting after every "
             "operation), Set, SortedMap, mergesort.Merge, iteru.MergeSorted and sliceu.SearchUnique (every sorted unique slice of length "
             "0..9 x every target), comparing every returned value.",
        note="Bounded: <= 9 distinct keys over a 4-symbol alphabet (concretised through 4 order-preserving byte tables), <= 15 heap "
             "elements, <= 8 partitions, histories <= 60 operations; equal-priority ties: any minimum is accepted (the Impl model "
             "predicts the code's choice, a different choice ends that behaviour as drift); internal layout (heap array, tree shape) is "
             "compared but never a verdict; github.com/google/btree and the Go runtime are trusted; single-goroutine use only (the "
             "structures are not concurrent)."),
}
