"""Registry fragment of the compaction family (C18)."""
ENGINES = [
    dict(name="Compaction", path="spec/Compaction.tla", serves_properties=["C18"],
         kind_free_text="TLA+ spec of the dkv/sst level layout with exact table sizes and the transcribed pick policy of sst.Compactor "
                        "(L0 trigger, size amplification, major pick loop, minor L0->L1, minor level-by-level with the minorLevel cursor), "
                        "WriteRun chunking, change-set swap, flushes landing between pick and swap; TLC exhaustive + every history within "
                        "small bounds and simulated histories executed on the real sst.Compactor/LevelList/TableWriter (harness/cmd/compaction); "
                        "spec/CompactionTrace.tla validates the real layouts recorded after every step"),
]
CHECKS = {
    "C18": dict(
        engine="Compaction",
        technique="TLA+/TLC model checking of Compaction.tla; TLC-enumerated and TLC-simulated flush/compaction histories executed on the real "
                  "sst.Compactor + LevelList.NewWithChangeSet + TableWriter (memory FS); real layouts projected after every step and judged in Go "
                  "and again by TLC (CompactionTrace.tla); concurrent-flush schedule forced on the real dkv.DB through a gating FileSystem",
        text="TLC exhaustively checks ReadsMatchTruth/TruthRetained/LayoutValid/NewerAboveOlder/CompactionPreservesContents over every history of "
             "flushes and pick/build/swap steps (flushes landing between pick and swap) for several compactor settings, with and without "
             "tombstone dropping at the base level; every history within small bounds plus seeded longer ones are run on the real compactor and "
             "after each step the projected real layout (Document() + scan of every table) must show the last write of every key for "
             "search-order point reads, merged scans and the real LevelList.ScanPrefix, with sorted non-overlapping levels >= 1 and no newer "
             "version beneath an older one - also for the list handed to Compactor.Compact after the call (readers keep using it; OnlyFlushAndSwapChangeLayout "
             "in the model) and for the list a swap replaced; the recorded layouts are validated a second time by TLC; a policy mismatch is drift, never an alarm.",
        note="Bounded: <=5 keys, <=6 levels, <=9 flushes per history, 10 settings (tiny table sizes so that middle and multi-table levels are "
             "reached); 1-byte keys, one 9000-byte value class; point reads are emulated on the projection in the intended L0 order "
             "(LevelList.Get itself belongs to C07); table file encoding belongs to C17; the dkv.DB arm uses puts only and 6 hard-coded levels."),
}
