"""C08 A DKV checkpoint restores to exactly the state at the checkpoint call — spec/Dkv.tla (RestoreOK)."""
import dkvlib
import vlib

RULE = ("TLC evaluates Restored(id) = snapAt[id] for every returned+retained handle in EVERY state of Dkv.tla (= abandoning "
        "the process at any storage operation), over all interleavings of flush/compaction/WAL-save/document-save/retention "
        "with writes, and chains checkpoint->reopen->write->checkpoint; simulated behaviours are replayed on the real dkv.DB "
        "and after every step every completed handle is opened on a copy of the durable state and read back")


def run(c):
    q = c.tier == "quick"
    dkvlib.run_scripts(c, True)
    dkvlib.exhaustive(c, dkvlib.consts(Vals={1}, MaxOps=4, MaxReads=0, MaxCkpt=1, MaxReopen=1, MaxRetain=0), dkvlib.INV_CKPT,
                      "Dkv checkpoints exhaustive ops=4 ckpt=1 reopen=1")
    if not q:
        dkvlib.exhaustive(c, dkvlib.consts(Vals={1}, MaxOps=3, MaxReads=0, MaxCkpt=2, MaxReopen=1, MaxRetain=1), dkvlib.INV_CKPT,
                          "Dkv checkpoints exhaustive ops=3 ckpt=2 reopen=1 retain=1", timeout=2400)
        dkvlib.exhaustive(c, dkvlib.consts(Vals={1}, MaxOps=4, MaxReads=0, MaxCkpt=2, MaxReopen=0, MaxRetain=0), dkvlib.INV_CKPT,
                          "Dkv checkpoints exhaustive ops=4 ckpt=2")
    n = 120 if q else 900
    base = dict(Vals={1, 2}, MaxReads=1, MaxCkpt=2, MaxReopen=1, MaxRetain=1)
    cfgs = [(dkvlib.consts(MaxOps=8, MaxLen=44, **base), 0), (dkvlib.consts(MaxOps=8, MaxLen=44, MemCap=24, **base), 1),
            (dkvlib.consts(MaxOps=9, MaxLen=48, MemCap=70, L0Trigger=3, **base), 2),
            (dkvlib.consts(MaxOps=9, MaxLen=48, MemCap=200, WalCap=40, **base), 0)]
    if not q:
        big = dict(Vals={1, 2}, MaxReads=1, MaxCkpt=3, MaxReopen=2, MaxRetain=2)
        cfgs += [(dkvlib.consts(MaxOps=12, MaxLen=70, **big), 0), (dkvlib.consts(MaxOps=12, MaxLen=70, MemCap=24, L0Trigger=1, **big), 1)]
    for i, (cs, conc) in enumerate(cfgs):
        dkvlib.replay(c, cs, n, 80, c.seed * 100 + 50 + i, "Dkv checkpoint replay MemCap=%d L0=%d" % (cs["MemCap"], cs["L0Trigger"]),
                      conc=conc, check_restore=True)
    dkvlib.trace_arm(c, 40 if q else 500, 150 if q else 300, c.seed + 1000)
    c.assumptions += ["a crash is modelled as abandoning the process: durable state = files saved so far (harness file system, fenced views)",
                      "re-opening uses the newest completed checkpoint of the saved document (what the job does)",
                      "restored copies are opened with a large memtable (dkv's flush queue is process-wide)"]


def replay(c, path):
    dkvlib.replay_file(c, path)
