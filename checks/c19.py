"""C19 In-memory ordered structures behave as ordered maps and priority queues.

spec/Ordered*.tla: one module per structure (OrderedRef = shared byte-string
order/prefix vocabulary, OrderedHeapOps = the binary heap transcribed).  The
sorted-slice / function reference is the abstract state; OrderedHeap,
OrderedPPQ and OrderedZip additionally carry an implementation-shaped
transcription (heap array with up/down/Fix, heap of partitions, zip-tree
insert/unzip/replace/Get/AscendPrefix with TLC-chosen ranks) that TLC checks
against the reference exhaustively and that predicts how ties are broken;
OrderedSearch carries the half-open binary search.

TLC is generator and oracle: every behaviour (operation sequence + the results
the reference computes) is produced by TLC - exhaustively (every history up to
a small length: `hist` is part of the state) and by -simulate for longer
histories over more keys - and replayed on the real structures by
harness/cmd/ordered with abstract keys concretised to adversarial byte
strings."""
import json
import threading
from concurrent.futures import ThreadPoolExecutor

import vlib

RULE = ("TLC checks the implementation-shaped heap / partition-heap / zip-tree / binary-search models against the "
        "sorted-slice reference for all small histories; every TLC-generated history (exhaustive up to a small length, "
        "simulated beyond) is replayed on the real structure and each returned value compared with the value the "
        "reference computed")

# order- and prefix-preserving fixed-width codes for the symbols 0..3
ALPHABETS = [
    [[0x00], [0x61], [0x62], [0xff]],              # "", "\x00", "\x00\x00", "a", "a\x00", "ab", "b", "\xff", "\xff\xff"
    [[0x00], [0x01], [0x7f], [0x80]],              # sign boundary
    [[0x00, 0x00], [0x00, 0xff], [0x61, 0x00], [0xff, 0xff]],   # two-byte codes sharing first bytes
    [[0x7f], [0x80], [0xfe], [0xff]],
    [[0x00], [0x01], [0x02], [0xff]],              # consecutive codes below 0xff: "\x00\xff" is followed by "\x01" (universe UCarry)
]
CARRY = 4                                          # index of that table

MAX_VIOLATIONS_PER_RUN = 20
PARALLEL = 6
_harness_lock = threading.Lock()   # vlib names scratch dirs by pid + millisecond


class Job:
    """one TLC run (+ replay of what it generated)"""

    def __init__(self, struct, module, label, constants, mode, invariants=(), view=None, config=None,
                 num=0, depth=0, alphabet=0, timeout=1500, extra=""):
        self.extra = extra
        self.struct, self.module, self.label, self.constants, self.mode = struct, module, label, constants, mode
        self.invariants, self.view, self.config = list(invariants), view, dict(config or {})
        self.num, self.depth, self.alphabet, self.timeout = num, depth, alphabet, timeout
        self.tlc = self.res = self.payload = self.sample = None
        self.head, self.nbeh = [], 0

    def run(self, seed, idx):
        name = "%s-%d" % (self.module, idx)      # unique: jobs of one module run concurrently
        if self.mode == "check":        # exhaustive model checking, history hidden by the VIEW
            self.tlc = vlib.run_tlc(self.module, cfg=dict(constants=self.constants, invariants=self.invariants, view=self.view, extra=self.extra),
                                    timeout=self.timeout, name=name, workers=4, heap="3g")
            self.tlc.out = self.tlc.out[-4000:]
            return self
        if self.mode == "enumerate":    # every history: hist is part of the state, Dump prints each exactly once
            self.tlc = vlib.run_tlc(self.module, cfg=dict(constants=self.constants, invariants=self.invariants + ["Dump"], extra=self.extra),
                                    workers=1, timeout=self.timeout, name=name, heap="3g")
            if not self.tlc.ok:
                self.tlc.behaviours = []
                self.tlc.out = self.tlc.out[-4000:]
                return self
            behs = self.tlc.behaviours
        else:                           # -simulate (as vlib.gen_behaviours, with the unique scratch name)
            self.tlc = vlib.run_tlc(self.module, cfg=dict(constants=self.constants, invariants=["Dump"], extra=self.extra), simulate=self.num,
                                    depth=self.depth, seed=seed * 1000 + idx, timeout=self.timeout, name=name + "-gen", heap="3g")
            if self.tlc.error or self.tlc.violated:
                raise vlib.MachineryError("behaviour generation failed for %s: %s %s\n%s" %
                                          (self.label, self.tlc.error, self.tlc.violated, self.tlc.out[-3000:]))
            seen, behs = set(), []
            for b in self.tlc.behaviours:
                k = json.dumps(b, sort_keys=True)
                if k not in seen:
                    seen.add(k)
                    behs.append(b)
        self.tlc.behaviours = []
        self.tlc.out = self.tlc.out[-4000:]
        if not behs:
            raise vlib.MachineryError("%s: no behaviours generated" % self.label)
        alpha = ALPHABETS[self.alphabet % len(ALPHABETS)]
        cfg = {k: (sorted(v) if isinstance(v, (set, frozenset)) else v) for k, v in self.constants.items()}
        cfg.update(self.config, Struct=self.struct, Alphabet=alpha)
        payload = dict(property="C19", seed=seed, config=cfg, behaviours=behs)
        with _harness_lock:
            self.res = vlib.run_harness("ordered", payload)
        # keep only what is needed afterwards: the behaviours of the reported violations, a sample, a few for the self-test
        self.nbeh = len(behs)
        keep = []
        self.res["violations"] = self.res.get("violations", [])[:MAX_VIOLATIONS_PER_RUN]
        for v in self.res["violations"]:
            keep.append(behs[v.get("behaviour", 0)])
            v["behaviour"] = len(keep) - 1
        self.payload = dict(payload, behaviours=keep)
        self.sample = behs[len(behs) // 2][:6]
        self.head = behs[:50] + behs[-50:]
        return self


def sym_w(alphabet):
    return len(ALPHABETS[alphabet % len(ALPHABETS)][0])


def js(c):
    return json.dumps({k: (sorted(v) if isinstance(v, (set, frozenset)) else v) for k, v in c.items()}, sort_keys=True)


K3 = {1, 2, 5}                   # "", "\x00", "a\x00"
K4 = {1, 2, 4, 5}                # "", "\x00", "a", "a\x00"
K7 = {1, 2, 3, 4, 5, 6, 8}       # + "\x00\x00", "ab", "\xff"
K9 = {1, 2, 3, 4, 5, 6, 7, 8, 9}
P7 = {1, 2, 3, 4, 5, 6, 7}


# --------------------------------------------------------------- job lists --
def jobs_search(q, seed):
    c = dict(N=9, MaxYs=4, HighMinusOne=False)
    return [Job("search", "OrderedSearch", "SearchUnique: every sorted unique slice of length 0..9 x every target; Without/Partition",
                c, "enumerate", invariants=["ImplOK", "PartitionOK"])]


def jobs_cache(q, seed):
    out = []
    for i, (mb, al, L, ks) in enumerate([(3, seed, 4, K4), (2, seed + 2, 4, K4)] if q else
                                        [(0, seed, 4, K4), (1, seed + 1, 4, K4), (2, seed + 2, 5, K3), (3, seed + 3, 5, K4), (5, seed, 4, K4)]):
        w = sym_w(al)
        c = dict(KeyIdx=ks, MaxBytes=mb * w, SymW=w, PopEvery=0, MaxLen=1000)
        out.append(Job("cache", "OrderedCache", "SortedCache reference sanity %s" % js(c), c, "check",
                       invariants=["TypeOK", "EvictOK", "ContentOK"], view="view"))
        c = dict(c, MaxLen=L)
        out.append(Job("cache", "OrderedCache", "SortedCache every history of length %d %s" % (L, js(c)), c, "enumerate", alphabet=al))
    for i, (mb, al, pe) in enumerate([(3, seed + 1, 0), (6, seed + 2, 3)] if q else
                                     [(2, seed, 0), (3, seed + 1, 4), (4, seed + 2, 0), (6, seed + 3, 3), (9, seed, 2)]):
        w = sym_w(al)
        c = dict(KeyIdx=K7, MaxBytes=mb * w, SymW=w, PopEvery=pe, MaxLen=30)
        out.append(Job("cache", "OrderedCache", "SortedCache simulated histories %s" % js(c), c, "simulate",
                       num=40 if q else 250, depth=40, alphabet=al))
    return out


def jobs_heap(q, seed):
    out = []
    inv = ["HeapOK", "NoDup", "RootIsMin", "DrainSorted"]
    for chk in [dict(NE=5, NP=3, PopEvery=0, AllowChange=True, MaxLen=1000)] + ([] if q else [dict(NE=6, NP=2, PopEvery=0, AllowChange=True, MaxLen=1000)]):
        out.append(Job("heap", "OrderedHeap", "Heap Impl => Abs, every history %s" % js(chk), chk, "check", invariants=inv, view="view"))
    for ch, L in ([(True, 5), (False, 6)] if q else [(True, 6), (False, 9)]):
        c = dict(NE=5, NP=2, PopEvery=0, AllowChange=ch, MaxLen=L)
        out.append(Job("heap", "OrderedHeap", "Heap every history of length %d %s" % (L, js(c)), c, "enumerate"))
    for i, (ne, np_, pe, n) in enumerate([(7, 3, 0, 60), (9, 2, 3, 60)] if q else
                                         [(7, 3, 0, 300), (9, 2, 3, 300), (12, 4, 4, 150), (15, 3, 2, 150), (15, 2, 0, 200)]):
        c = dict(NE=ne, NP=np_, PopEvery=pe, AllowChange=True, MaxLen=40)
        out.append(Job("heap", "OrderedHeap", "Heap simulated histories %s" % js(c), c, "simulate", num=n, depth=50))
    return out


def jobs_ppq(q, seed):
    out = []
    inv = ["HeapOK", "AllThere", "RootIsMin", "PredictedDemanded"]
    for chk in [dict(NPart=3, NT=3, NG=1, PopEvery=0, InitMax=2, MaxLen=1000)] + ([] if q else [dict(NPart=4, NT=2, NG=1, PopEvery=0, InitMax=2, MaxLen=1000),
                                                                                           dict(NPart=2, NT=2, NG=2, PopEvery=0, InitMax=2, MaxLen=1000)]):
        out.append(Job("ppq", "OrderedPPQ", "PPQ Impl => Abs, every history %s" % js(chk), chk, "check", invariants=inv, view="view"))
    for c in ([dict(NPart=3, NT=2, NG=1, PopEvery=0, InitMax=0, MaxLen=5), dict(NPart=2, NT=2, NG=1, PopEvery=0, InitMax=2, MaxLen=4),
               dict(NPart=0, NT=1, NG=1, PopEvery=0, InitMax=0, MaxLen=3)] if q else
              [dict(NPart=3, NT=2, NG=1, PopEvery=0, InitMax=0, MaxLen=5), dict(NPart=4, NT=2, NG=1, PopEvery=0, InitMax=0, MaxLen=5),
               dict(NPart=2, NT=2, NG=2, PopEvery=0, InitMax=2, MaxLen=4), dict(NPart=3, NT=2, NG=1, PopEvery=0, InitMax=2, MaxLen=4),
               dict(NPart=1, NT=2, NG=2, PopEvery=0, InitMax=2, MaxLen=6), dict(NPart=0, NT=1, NG=1, PopEvery=0, InitMax=0, MaxLen=3)]):
        out.append(Job("ppq", "OrderedPPQ", "PPQ every history %s" % js(c), c, "enumerate"))
    for c, n in ([(dict(NPart=4, NT=3, NG=2, PopEvery=3, InitMax=2, MaxLen=40), 40), (dict(NPart=7, NT=2, NG=1, PopEvery=2, InitMax=1, MaxLen=40), 40)] if q else
                 [(dict(NPart=4, NT=3, NG=2, PopEvery=3, InitMax=2, MaxLen=40), 150), (dict(NPart=7, NT=2, NG=1, PopEvery=2, InitMax=1, MaxLen=40), 200),
                  (dict(NPart=5, NT=4, NG=2, PopEvery=4, InitMax=2, MaxLen=50), 80), (dict(NPart=3, NT=2, NG=3, PopEvery=0, InitMax=2, MaxLen=50), 150),
                  (dict(NPart=8, NT=3, NG=1, PopEvery=2, InitMax=2, MaxLen=50), 150)]):
        out.append(Job("ppq", "OrderedPPQ", "PPQ simulated histories %s" % js(c), c, "simulate", num=n, depth=70))
    return out


def jobs_set(q, seed):
    out = []
    chk = dict(KeyIdx={1, 2, 4}, MaxArgs=2, MaxLen=1000)
    out.append(Job("set", "OrderedSet", "Set reference sanity %s" % js(chk), chk, "check", invariants=["RegsOK", "DerivedOK"], view="view"))
    for i, c in enumerate([dict(KeyIdx={1, 2, 4}, MaxArgs=2, MaxLen=2)] if q else
                          [dict(KeyIdx={1, 2, 4}, MaxArgs=2, MaxLen=2), dict(KeyIdx={1, 4, 5}, MaxArgs=1, MaxLen=3), dict(KeyIdx={2, 4}, MaxArgs=2, MaxLen=2), dict(KeyIdx={2, 4}, MaxArgs=1, MaxLen=3)]):
        out.append(Job("set", "OrderedSet", "Set every history %s" % js(c), c, "enumerate", alphabet=seed + i))
    for i, (c, n) in enumerate([(dict(KeyIdx=K4, MaxArgs=2, MaxLen=12), 8)] if q else
                               [(dict(KeyIdx=K4, MaxArgs=2, MaxLen=12), 30), (dict(KeyIdx=K7, MaxArgs=2, MaxLen=20), 8), (dict(KeyIdx=K7, MaxArgs=1, MaxLen=25), 40)]):
        out.append(Job("set", "OrderedSet", "Set simulated histories %s" % js(c), c, "simulate", num=n, depth=30, alphabet=seed + 1 + i))
    return out


def jobs_map(q, seed):
    out = []
    chk = dict(KeyIdx=K4, NV=2, MaxLen=1000)
    out.append(Job("map", "OrderedMap", "SortedMap reference sanity %s" % js(chk), chk, "check", invariants=["ContentOK"], view="view"))
    for i, c in enumerate([dict(KeyIdx=K3, NV=1, MaxLen=4), dict(KeyIdx=K4, NV=2, MaxLen=3)] if q else
                          [dict(KeyIdx=K3, NV=2, MaxLen=4), dict(KeyIdx=K4, NV=1, MaxLen=4), dict(KeyIdx=K3, NV=1, MaxLen=5)]):
        out.append(Job("map", "OrderedMap", "SortedMap every history %s" % js(c), c, "enumerate", alphabet=seed + i))
    for i, (c, n) in enumerate([(dict(KeyIdx=K7, NV=2, MaxLen=30), 40)] if q else [(dict(KeyIdx=K7, NV=2, MaxLen=30), 200), (dict(KeyIdx=K9, NV=3, MaxLen=50), 100)]):
        out.append(Job("map", "OrderedMap", "SortedMap simulated histories %s" % js(c), c, "simulate", num=n, depth=60, alphabet=seed + 1 + i))
    return out


def jobs_merge(q, seed):
    out = []
    inv = ["InputsSorted", "MergeRefOK", "SortedRefOK"]
    for i, c in enumerate([dict(KeyIdx=K3, NIs={0, 1, 2, 3}, MaxItems=4, Strict=False)] if q else
                          [dict(KeyIdx=K3, NIs={0, 1, 2, 3}, MaxItems=5, Strict=False), dict(KeyIdx=K4, NIs={2, 4}, MaxItems=4, Strict=True)]):
        out.append(Job("merge", "OrderedMerge", "Merge/MergeSorted every input %s" % js(c), c, "enumerate", invariants=inv, alphabet=seed + i))
    for i, c in enumerate([dict(KeyIdx=K7, NIs={4}, MaxItems=12, Strict=False), dict(KeyIdx=K7, NIs={3}, MaxItems=10, Strict=True)] if q else
                          [dict(KeyIdx=K7, NIs={4}, MaxItems=12, Strict=False), dict(KeyIdx=K7, NIs={3}, MaxItems=10, Strict=True),
                           dict(KeyIdx=K9, NIs={6}, MaxItems=20, Strict=False), dict(KeyIdx=K9, NIs={5}, MaxItems=20, Strict=True)]):
        out.append(Job("merge", "OrderedMerge", "Merge/MergeSorted simulated inputs %s" % js(c), c, "simulate", num=400 if q else 4000, depth=30, alphabet=seed + 1 + i))
    return out


def jobs_zip(q, seed):
    out = []
    inv = ["InOrderOK", "RankOK", "GetOK", "AscendOK"]
    for chk in [dict(KeyIdx={1, 2, 4, 5, 6}, PrefIdx=P7, NV=1, MaxRank=2, MaxLen=1000)] + ([] if q else [dict(KeyIdx={1, 2, 4, 5, 6, 8}, PrefIdx=K9, NV=1, MaxRank=2, MaxLen=1000),
                                                                                                   dict(KeyIdx=K4, PrefIdx=P7, NV=2, MaxRank=4, MaxLen=1000)]):
        out.append(Job("zip", "OrderedZip", "ZipTree Impl => Abs, every history, ranks chosen by TLC %s" % js(chk), chk, "check", invariants=inv, view="view"))
    for i, c in enumerate([dict(KeyIdx=K4, PrefIdx=P7, NV=2, MaxRank=2, MaxLen=3), dict(KeyIdx={2, 4, 5, 6}, PrefIdx=P7, NV=1, MaxRank=2, MaxLen=4)] if q else
                          [dict(KeyIdx=K4, PrefIdx=P7, NV=2, MaxRank=2, MaxLen=4), dict(KeyIdx={1, 2, 4, 5, 6}, PrefIdx=P7, NV=1, MaxRank=2, MaxLen=5),
                           dict(KeyIdx={2, 4, 5, 6}, PrefIdx=P7, NV=1, MaxRank=3, MaxLen=4)]):
        out.append(Job("zip", "OrderedZip", "ZipTree every history, every rank order %s" % js(c), c, "enumerate", alphabet=seed + i, config=dict(UseRanks=True)))
    for i, (c, ranks, n) in enumerate([(dict(KeyIdx=K7, PrefIdx=K9, NV=2, MaxRank=2, MaxLen=25), True, 30), (dict(KeyIdx=K7, PrefIdx=K9, NV=2, MaxRank=0, MaxLen=25), False, 30)] if q else
                                      [(dict(KeyIdx=K7, PrefIdx=K9, NV=2, MaxRank=2, MaxLen=30), True, 150), (dict(KeyIdx=K9, PrefIdx=K9, NV=2, MaxRank=5, MaxLen=40), True, 60),
                                       (dict(KeyIdx=K9, PrefIdx=K9, NV=2, MaxRank=0, MaxLen=40), False, 150)]):
        out.append(Job("zip", "OrderedZip", "ZipTree simulated histories (%s ranks) %s" % ("TLC-chosen" if ranks else "the code's random", js(c)), c, "simulate",
                       num=n, depth=60, alphabet=seed + 2 + i, config=dict(UseRanks=ranks)))
    # universe UCarry with the byte table whose codes are consecutive below 0xff: prefixes that end in 0xff, the key that is
    # the incremented shorter prefix held or not
    carry = "CONSTANT U <- UCarry"
    c = dict(KeyIdx={2, 3, 4, 5, 6, 7}, PrefIdx=K9, NV=1, MaxRank=1, MaxLen=1000)
    out.append(Job("zip", "OrderedZip", "ZipTree Impl => Abs, universe UCarry %s" % js(c), c, "check", invariants=inv, view="view", extra=carry))
    c = dict(KeyIdx={3, 4, 6, 7}, PrefIdx=K9, NV=1, MaxRank=1, MaxLen=3 if q else 4)
    out.append(Job("zip", "OrderedZip", "ZipTree every history, universe UCarry, consecutive byte codes below 0xff %s" % js(c), c, "enumerate",
                   alphabet=CARRY, config=dict(UseRanks=True), extra=carry))
    c = dict(KeyIdx=K9, PrefIdx=K9, NV=2, MaxRank=2, MaxLen=25)
    out.append(Job("zip", "OrderedZip", "ZipTree simulated histories, universe UCarry %s" % js(c), c, "simulate", num=20 if q else 100, depth=60,
                   alphabet=CARRY, config=dict(UseRanks=True), extra=carry))
    return out


FAMILIES = [jobs_search, jobs_cache, jobs_heap, jobs_ppq, jobs_set, jobs_map, jobs_merge, jobs_zip]


# ----------------------------------------------------- binding self-test ----
def corrupt(struct, beh):
    """flip one expected observable of a behaviour; None if this behaviour has nothing to flip"""
    b = json.loads(json.dumps(beh))
    st = b[-1]
    if struct == "search":
        if st["a"] != "Search":
            return None
        st["found"] = not st["found"]
        st["idx"] = 0
    elif struct == "cache":
        st["full"] = not st["full"]
    elif struct == "heap":
        st["size"] += 1
    elif struct == "ppq":
        st["empty"] = not st["empty"]
    elif struct == "set":
        if not st["A"]:
            return None
        st["A"] = st["A"][:-1]
    elif struct == "map":
        if not st["content"]:
            return None
        st["content"][0]["v"] += 1
    elif struct == "merge":
        if len(st["out"]) < 2:
            return None
        st["out"] = st["out"][1:]
    elif struct == "zip":
        if not st["content"]:
            return None
        st["content"][-1]["v"] += 1
    return b


def selftest(c, jobs):
    """the replayer must notice a wrong expectation, for every structure"""
    seen = set()
    for j in jobs:
        if j.struct in seen or not j.head or j.payload is None:
            continue
        bad = next((x for x in (corrupt(j.struct, b) for b in j.head) if x is not None), None)
        if bad is None:
            continue
        seen.add(j.struct)
        res = vlib.run_harness("ordered", dict(j.payload, behaviours=[bad]))
        if len(res.get("violations", [])) != 1:
            c.errors.append("binding self-test: the replayer accepted a corrupted %s expectation" % j.struct)
    missing = {j.struct for j in jobs} - seen
    if missing:
        c.errors.append("binding self-test: no behaviour to corrupt for %s" % sorted(missing))
    c.extra["binding_selftest"] = sorted(seen)


# -------------------------------------------------------------------- run ----
def run(c):
    vlib.build("ordered")
    jobs = []
    for f in FAMILIES:
        jobs.extend(f(c.tier == "quick", c.seed))
    order = sorted(range(len(jobs)), key=lambda i: (jobs[i].mode != "simulate", jobs[i].mode != "enumerate"))   # slow ones first
    with ThreadPoolExecutor(max_workers=PARALLEL) as ex:
        futs = {i: ex.submit(jobs[i].run, c.seed, i) for i in order}
        for i in range(len(jobs)):
            futs[i].result()
    for j in jobs:
        collect(c, j)
    selftest(c, jobs)
    c.exhaustive = True
    c.assumptions.append("bounded: <= 9 keys over the 4-symbol alphabet, <= 15 heap elements, <= 8 partitions, histories <= 60 operations; "
                         "github.com/google/btree (under SortedCache) and the Go runtime are trusted")


def collect(c, j):
    c.add_tlc(j.tlc, j.label)
    if j.res is None:
        return
    res = dict(j.res)
    drift = res.get("drift", 0)
    res["drift"] = 0          # the payload was cut down to the violating behaviours: do the drift-ratio check on the true count
    c.add_harness(res, j.payload, j.label)
    h = c.extra["harness_runs"][-1]
    h.update(behaviours=j.nbeh, drift=drift)
    if j.nbeh and drift * 5 > j.nbeh * 4:
        c.errors.append("harness %s: %d of %d behaviours differ from the implementation-shaped model in ties or internal layout "
                        "(no property is violated; the Impl model is out of date): %s" % (j.label, drift, j.nbeh, res.get("drift_notes", [])[:3]))
    if j.sample:
        c.sample(dict(kind=j.label, steps=j.sample))


def replay(c, path):
    payload = json.load(open(path))
    res = vlib.run_harness("ordered", payload)
    c.add_harness(res, payload, "replay " + path)
