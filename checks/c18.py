"""C18 Compaction never changes what the database contains.
spec/Compaction.tla (level layout, exact table sizes, the pick policy of
sst.Compactor, FlushAdd between pick and swap) + spec/CompactionTrace.tla
(layout invariants evaluated by TLC on layouts recorded from the real code);
harness/cmd/compaction drives the real sst.Compactor / LevelList /
TableWriter."""
import copy
import json
import re
import vlib

RULE = ("TLC explores every history of flushes and compaction steps (pick / build / swap, flushes landing between "
        "pick and swap) of Compaction.tla for small constants and several compactor settings "
        "(ReadsMatchTruth, TruthRetained, LayoutValid, NewerAboveOlder, CompactionPreservesContents); TLC-simulated "
        "histories are executed on the real sst.Compactor + LevelList.NewWithChangeSet + TableWriter, the real layout "
        "is projected after every step - also between Compact's return and the swap, in the list readers still use - "
        "(Document() + scan of every table) and judged against the last write per key; "
        "the projected layouts are validated again by TLC (CompactionTrace.tla)")

INVS = ["ReadsMatchTruth", "TruthRetained", "LayoutValid", "NewerAboveOlder", "TypeOK"]
PROPS = ["CompactionPreservesContents", "OnlyFlushAndSwapChangeLayout"]

BASE = dict(NKeys=3, NLevels=3, Settings={1, 2}, SmallLen=2, BigKey=0, BigLen=0, MaxFlush=3, MaxFlushKeys=3, AllowTombs=True,
            MaxCompact=4, DropTombs=False, Dev_MajorPicksPastPartialLevel=False, Dev_WriteRunEmptyTable=False,
            RandomFlush=False, Record=True, MaxLen=1000)
# settings whose entries are >= half the target table size make WriteRun emit an empty trailing table
EMPTY_TABLE_SETTINGS = {6}


def exhaustive(c, consts, label=None, timeout=1500):
    r = vlib.run_tlc("Compaction", cfg=dict(constants=consts, invariants=INVS, properties=PROPS, view="view"),
                     timeout=timeout)
    c.add_tlc(r, label or "Compaction exhaustive %s" % show(consts))
    return r


def show(consts):
    d = {k: (sorted(v) if isinstance(v, (set, frozenset)) else v) for k, v in consts.items() if k != "MaxLen"}
    return json.dumps(d, sort_keys=True)


TRACE_INVS = ["ReadsMatchTruth", "LayoutValid", "NewerAboveOlder"]


def rejected_line(at, tr):
    """line of the recorded event that produced the offending state"""
    if tr.violated and tr.violated != "postcondition":
        ls = re.findall(r"^/\\ l = (\d+)", tr.out, re.M)
        if ls:
            return int(ls[-1]) - 1   # the state with l = n was produced by line n-1
    return at


def validate(c, consts, events, payload, label):
    ok, at, tr = vlib.validate_trace("CompactionTrace", dict(consts, Record=False), events, invariants=TRACE_INVS)
    c.add_tlc(tr, "CompactionTrace validation of %d recorded real layouts (%s)" % (len(events), label), must_hold=False)
    runs = vlib.split_runs(events)
    if ok:
        c.traces += len(runs)
        c.sample(dict(kind="recorded real layouts (start of first run)", events=runs[0][1][:4]))
        return
    at = max(1, min(rejected_line(at, tr), len(events)))
    bad = [r_ for r_ in runs if r_[0] <= at][-1]
    idx = at - bad[0]
    c.add_violation("real layouts rejected by CompactionTrace.tla (%s) at event %d of a recorded run: %s" %
                    (tr.violated or "step not explained", idx + 1, json.dumps(events[at - 1])[:600]),
                    dict(property="C18", seed=payload["seed"], config=payload["config"], mode="trace",
                         consts=json.loads(show(consts)), recorded_run=bad[1][:idx + 1], rejected_index=idx))


def enumerate_and_replay(c, consts, label, workers=8, trace_runs=0, config=None):
    """every history of Compaction.tla within the bounds (the history is part of the state: no VIEW),
    each printed once by the Dump invariant, all of them executed on the real code"""
    consts = dict(consts, RandomFlush=False, Record=True, MaxLen=1000)
    r = vlib.run_tlc("Compaction", cfg=dict(constants=consts, invariants=["Dump"]), workers=workers, timeout=1500,
                     name="Compaction-enum")
    if r.error or r.violated:
        raise vlib.MachineryError("history enumeration failed for %s: %s %s\n%s" % (label, r.error, r.violated, r.out[-2000:]))
    c.add_tlc(r, "Compaction history enumeration %s" % show(consts))
    behs = sorted(r.behaviours, key=lambda b: json.dumps(b, sort_keys=True))
    if not behs:
        raise vlib.MachineryError("no histories enumerated for %s" % label)
    return run_behaviours(c, consts, behs, label, trace_runs, config)


def simulate_and_replay(c, consts, nbeh, seed, label, trace_runs=0, config=None):
    consts = dict(consts, Record=True, RandomFlush=True)
    behs, r = vlib.gen_behaviours("Compaction", consts, nbeh, consts["MaxLen"] + 5, seed)
    if not behs:
        raise vlib.MachineryError("no behaviours generated for %s" % label)
    return run_behaviours(c, consts, behs, label, trace_runs, config)


def run_behaviours(c, consts, behs, label, trace_runs=0, config=None):
    cfg = dict(config or {}, TraceRuns=trace_runs, KnownEmptyTable="Dev_WriteRunEmptyTable", constants=json.loads(show(consts)))
    payload = dict(property="C18", seed=c.seed, config=cfg, behaviours=behs)
    res = vlib.run_harness("compaction", payload)
    events = res.pop("samples", None) or []
    c.add_harness(res, payload, label)
    c.sample(dict(kind="Compaction behaviour (model steps, layouts omitted)", config=show(consts), steps=[
        {k: v for k, v in s.items() if k not in ("lv", "truth")} for s in behs[len(behs) // 2][:12]]))
    if events:
        validate(c, consts, events, payload, label)
    return res, behs, events


def selftest_replay(c, consts, behs):
    """binding self-test: a behaviour whose demanded truth is falsified must be reported by the replayer"""
    for b in behs:
        idx = [i for i, s in enumerate(b) if any(t["s"] > 0 and not t["d"] for t in s.get("truth", []))]
        if not idx:
            continue
        b2 = copy.deepcopy(b)
        k = [j for j, t in enumerate(b2[idx[0]]["truth"]) if t["s"] > 0 and not t["d"]][0]
        for s in b2[idx[0]:]:
            if "truth" in s and s["truth"][k]["s"] == b[idx[0]]["truth"][k]["s"]:
                s["truth"][k]["d"] = True
        payload = dict(property="C18", seed=c.seed, config=dict(TraceRuns=0, constants=json.loads(show(consts))), behaviours=[b2])
        res = vlib.run_harness("compaction", payload)
        if not res.get("violations"):
            c.errors.append("binding self-test: a behaviour with a falsified truth was not reported by the replayer")
        c.extra["selftest_replay"] = "falsified truth reported" if res.get("violations") else "NOT reported"
        return
    c.errors.append("binding self-test: no behaviour with a live key")


def selftest_trace(c, consts, events):
    """binding self-test: a recorded layout that loses the newest live entry of a key must be rejected by TLC"""
    for i, ev in enumerate(events):
        if ev.get("op") != "Swap":
            continue
        best = {}
        for l, lvl in enumerate(ev["lv"]):
            for ti, t in enumerate(lvl):
                for ei, e in enumerate(t["e"]):
                    if e["k"] not in best or best[e["k"]][0] < e["s"]:
                        best[e["k"]] = (e["s"], e["d"], l, ti, ei)
        live = [v for v in best.values() if not v[1]]
        if not live:
            continue
        _, _, l, ti, ei = live[0]
        ev2 = copy.deepcopy(events[:i + 1])
        del ev2[i]["lv"][l][ti]["e"][ei]
        ok, at, tr = vlib.validate_trace("CompactionTrace", consts, ev2, invariants=TRACE_INVS, name="CompactionTrace-selftest")
        if ok:
            c.errors.append("binding self-test: a recorded layout that lost an entry was accepted by CompactionTrace.tla")
        c.extra["selftest_trace"] = "corrupted layout rejected at line %s" % at if not ok else "NOT rejected"
        return
    c.errors.append("binding self-test: no Swap event with a live entry recorded")


def design_sensitivity(c, consts):
    """vacuity guard: with the pre-fix pick loop (Dev_MajorPicksPastPartialLevel) TLC must find the C18 violation"""
    consts = dict(consts, Record=False, Dev_MajorPicksPastPartialLevel=True)
    r = vlib.run_tlc("Compaction", cfg=dict(constants=consts, invariants=INVS, properties=PROPS, view="view"), timeout=1500)
    c.add_tlc(r, "Compaction with Dev_MajorPicksPastPartialLevel (must fail) %s" % show(consts), must_hold=False)
    if r.violated is None:
        c.errors.append("vacuity: TLC finds no violation in the model of the unrepaired pick loop (%s)" % (r.error,))


def db_arm(c, runs, steps, seed=None):
    """the critical schedule of the model (FlushAdd between CompactBuild and CompactSwap) forced onto the real
    dkv.DB through a harness-owned FileSystem that parks the compactor's Save calls"""
    payload = dict(property="C18", seed=seed if seed is not None else c.seed, config=dict(mode="db", Runs=runs, Steps=steps), behaviours=[])
    res = vlib.run_harness("compaction", payload)
    samples = res.pop("samples", None) or []
    c.add_harness(res, payload, "real dkv.DB: flushes swapped in while the compaction is parked before its swap (%d runs)" % runs)
    if samples:
        c.sample(samples[0])
    need(c, res, "db_flush_swapped_while_compaction_parked", "db_compaction_saves_released")
    return res


def need(c, res, *counters):
    for k in counters:
        if not res.get("counters", {}).get(k):
            c.errors.append("vacuity: no real execution reached '%s'" % k)


ALL = {1, 2, 3, 4, 5, 7, 8, 9, 10}


def run(c):
    quick = c.tier == "quick"
    X = dict(BASE, Record=False)
    # 1. the design: exhaustive model checking
    exhaustive(c, dict(X, Settings={1, 2, 3, 4, 7, 9, 10}, AllowTombs=False, MaxFlush=3, MaxCompact=4))
    exhaustive(c, dict(X, Settings={3, 4} if quick else {1, 2, 3, 4}, NKeys=2, NLevels=4, MaxFlush=4, MaxCompact=5))
    exhaustive(c, dict(X, Settings={2, 4}, NKeys=2, MaxFlush=3, MaxCompact=4, DropTombs=True))
    if not quick:
        exhaustive(c, dict(X, Settings={1, 2}, MaxFlush=3, MaxCompact=4))
        exhaustive(c, dict(X, Settings={1, 2}, MaxFlush=3, MaxCompact=4, DropTombs=True))
        exhaustive(c, dict(X, Settings={1, 2, 7, 9, 10}, AllowTombs=False, NLevels=4, MaxFlush=4, MaxFlushKeys=2, MaxCompact=6))
        exhaustive(c, dict(X, Settings={5, 8}, NKeys=2, BigKey=2, BigLen=9000, MaxFlush=4, MaxCompact=5))
    design_sensitivity(c, dict(X, Settings={1}, AllowTombs=False, MaxFlush=3, MaxCompact=3))
    # 2. every history within small bounds, executed on the real code
    r1, _, _ = enumerate_and_replay(c, dict(BASE, Settings={1, 2}, AllowTombs=False, MaxFlush=3, MaxCompact=3),
                                    "all histories: 3 keys, puts only, settings 1,2")
    need(c, r1, "picks_taking_part_of_a_level_ge1", "states_middle_and_base_populated", "states_multi_table_level",
         "flushes_between_pick_and_swap", "fixpoint_swaps", "builds_observed", "replaced_lists_looked_at_again")
    enumerate_and_replay(c, dict(BASE, Settings={2, 4}, NKeys=2, MaxFlush=3, MaxCompact=4),
                         "all histories: 2 keys, tombstones, settings 2,4")
    enumerate_and_replay(c, dict(BASE, Settings={4}, NKeys=2, NLevels=4, MaxFlush=4, MaxFlushKeys=1, MaxCompact=6),
                         "all histories: 4 levels, single-key flushes, minor cascade")
    # entries >= target/2: WriteRun's trailing table (DESIGN 7 #24; repaired behaviour modelled)
    enumerate_and_replay(c, dict(BASE, Settings={6}, NKeys=2, MaxFlush=2 if quick else 3, MaxCompact=3),
                         "all histories: tiny target table size (setting 6)")
    if not quick:
        enumerate_and_replay(c, dict(BASE, Settings={1, 2, 3, 9, 10}, AllowTombs=False, MaxFlush=3, MaxCompact=4),
                             "all histories: 3 keys, puts only, settings 1,2,3,9,10")
        enumerate_and_replay(c, dict(BASE, Settings={1, 2, 4}, MaxFlush=3, MaxFlushKeys=2, MaxCompact=4),
                             "all histories: 3 keys, tombstones, <=2 keys per flush")
        enumerate_and_replay(c, dict(BASE, Settings={3, 7}, NKeys=2, NLevels=4, MaxFlush=4, MaxCompact=5),
                             "all histories: 4 levels, 2 keys, tombstones, settings 3,7")
    # 3. the concurrent-flush schedule on the real DB (db.go applies the change set to the current list)
    db_arm(c, 40 if quick else 400, 30)
    # 4. longer random histories (seeded), layouts recorded and validated by TLC
    big = dict(BASE, NKeys=4, NLevels=4, Settings=ALL, MaxFlush=6, MaxFlushKeys=4, MaxCompact=12, MaxLen=60)
    res, behs, events = simulate_and_replay(c, big, 500 if quick else 4000, c.seed * 1000 + 1,
                                            "simulated histories: 4 keys, 4 levels, all settings", trace_runs=120 if quick else 800)
    need(c, res, "states_middle_and_base_populated", "states_multi_table_level")
    selftest_replay(c, big, behs)
    selftest_trace(c, big, events)
    # 5. one read of a compaction step's input tables fails (storage fault): the step either reports the error (dkv.DB
    #    then applies nothing) or its change set preserves the contents
    resf, _, _ = simulate_and_replay(c, big, 300 if quick else 3000, c.seed * 1000 + 2,
                                     "simulated histories, one failing read in 60% of the compaction steps",
                                     config=dict(ReadFaultPct=60, ReadFaultMaxN=14))
    need(c, resf, "compactions_with_a_read_fault", "read_fault_reported_as_error")
    if not quick:
        for i, extra in enumerate([dict(NKeys=5, NLevels=5, MaxFlush=8, MaxCompact=16, MaxLen=80),
                                   dict(NKeys=4, NLevels=3, BigKey=3, BigLen=9000, MaxFlush=7, MaxCompact=12, MaxLen=70),
                                   dict(NKeys=3, NLevels=6, Settings={3, 4, 7, 10}, MaxFlush=9, MaxCompact=20, MaxLen=90)]):
            simulate_and_replay(c, dict(big, **extra), 2500, c.seed * 1000 + 10 + i,
                                "simulated histories %s" % json.dumps(extra, default=sorted), trace_runs=300)


def replay(c, path):
    payload = json.load(open(path))
    if payload.get("mode") == "trace":
        # recorded real layouts: validate them again with TLC
        consts = dict(BASE, **{k: (set(v) if isinstance(v, list) else v) for k, v in payload["consts"].items()})
        events = payload["recorded_run"]
        ok, at, tr = vlib.validate_trace("CompactionTrace", dict(consts, Record=False), events, invariants=TRACE_INVS)
        c.add_tlc(tr, "CompactionTrace validation (replay)", must_hold=False)
        if not ok:
            c.add_violation("recorded real layouts rejected by CompactionTrace.tla (%s)" % (tr.violated or "step not explained"), payload)
        else:
            c.traces += 1
        return
    if payload.get("config", {}).get("mode") == "db" and "violation" in payload:
        payload["config"]["OnlyRun"] = payload["violation"].get("behaviour", -1)   # re-execute just the offending seeded run
    res = vlib.run_harness("compaction", payload)
    res.pop("samples", None)
    c.add_harness(res, payload, "replay " + path)
