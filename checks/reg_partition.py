"""Registry fragment of the `partition` family (C05; AssignRanges clause shared with C06)."""
ENGINES = [
    dict(name="Partition", path="spec/Partition.tla", serves_properties=["C05", "C06"],
         kind_free_text="TLA+ spec of partitioning.keyGroupRanges (one state per loop iteration), the NewKeySpace lookup table, Owner, "
                        "KG as a constant reference-hash table reduced modulo the group count, and AssignRanges for every ack order; "
                        "TLC exhaustive over the (count, n) grid 64x70 + boundary pairs (65535, {1,2,3,255,256,257,65535,65536}); the "
                        "printed ranges / assignments are compared with the real partitioning package by harness/cmd/partition"),
    dict(name="PartitionTrace", path="spec/PartitionTrace.tla", serves_properties=["C05"],
         kind_free_text="trace validation of (key, group, operator) events recorded at the real router (sourcerunner.operatorCluster via a real "
                        "SourceRunner), the key encoders (prefixes read back from real operators' DKV checkpoints and from stand-alone "
                        "KeyedStateStore/TimerStore) and OperatorPartition.OwnsKey (WAL replay filter of restored operators), against a "
                        "MurmurHash3 table produced by an independent reference implementation"),
]
CHECKS = {
    "C05": dict(
        engine="Partition",
        technique="TLA+/TLC model checking of Partition.tla (ranges, lookup, closed form, AssignRanges under all permutations) + "
                  "trace validation (PartitionTrace.tla) of events recorded from the real source runner, operators and stores; "
                  "full count sweep 1..65535 by the harness with predicates transcribed from the spec and cross-checked on TLC's output",
        text="TLC establishes Contiguous/Cover/Disjoint/Balanced and start_i = i*q + min(i, r) on every iteration of the transcribed "
             "keyGroupRanges loop for all count<=64, n<=70 and the 65535 boundary pairs (incl. n > count) and prints the ranges; the real "
             "NewKeySpace must reproduce them and satisfy the same predicates for every count 1..65535 with a set of operator counts, "
             "its lookup table is probed through RangeIndex for every key group. A real SourceRunner routes adversarial keys to real "
             "Operators; which handler received each key, the two-byte prefixes in each operator's DKV checkpoint and the OwnsKey "
             "decisions of restored operators are validated by TLC against Owner(KG(key)), KG coming from a from-the-paper MurmurHash3-32 "
             "reference (pinned by 15 vectors) that is also compared with murmur.Hash on ~22k (quick) / 3M (thorough) boundary-length keys. "
             "AssignRanges is checked on every ack-order permutation enumerated by TLC (defect #20, repaired).",
        note="MurmurHash3 itself is not modelled in TLA+ (constant table from the reference; TLC only reduces modulo count and compares). "
             "TLC evaluates the range predicates on the stated grid only; all other counts are checked by the harness (transcribed "
             "predicates, cross-checked against TLC's ranges and against perturbed ranges). Which ranges receive the extra key group and "
             "the in-order adjacency of ranges are treated as model detail (drift), not demanded. OwnsKey is observed through real "
             "restores from one source checkpoint (a DB restored from >= 2 checkpoints cannot checkpoint again: separate finding)."),
}
