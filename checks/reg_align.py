"""Registry fragment of the align family (C02)."""
ENGINES = [
    dict(name="Align", path="spec/Align.tla", serves_properties=["C02"],
         kind_free_text="TLA+ spec of checkpoint-barrier alignment in workers/operator (sender goroutines: AlignCheck/Park/Unpark/Enqueue; "
                        "event loop: LoopEvent/LoopWatermark/LoopBarrier/CompleteCheckpoint/LoopBatchTimeout; batch timer) with ghost "
                        "state seen/fired/timers and cut[n]; TLC exhaustive + behaviours replayed on a real operator.Operator through "
                        "scheduler gates (harness/cmd/align, harness/opkit); spec/AlignTrace.tla validates free-running recorded traces"),
]
CHECKS = {
    "C02": dict(
        engine="Align",
        technique="TLA+/TLC model checking of Align.tla; TLC-generated interleavings of concurrent HandleEvent callers forced onto a real "
                  "operator.Operator through verif-tag hooks (operator.align.park/pass) and harness-owned job/handler/timer; reported "
                  "checkpoints read back by deploying a fresh operator from them; recorded free-running traces validated by AlignTrace.tla",
        text="TLC exhaustively checks CutExact, CutTimersOK, BatchOK, AckedByAll and the action properties NoEarlyApply / NoEarlyEnqueue over "
             "every interleaving of sender, event-loop and batch-time-out steps for 2-3 runners, scripts of up to 4 items with 1-2 barriers "
             "(incl. one skipped barrier id) and batch sizes 1-2. Hundreds of TLC-simulated schedules per configuration (2-3 runners, up to 3 "
             "consecutive checkpoints, batch sizes 1-3, batch time-outs incl. stale tokens) are executed step by step on a real operator: after "
             "every loop step the handler calls are compared with the model and judged against what the property allows (no event, timer or "
             "watermark of a runner that already delivered barrier N is acted on before OperatorCheckpointComplete(N)); at the end every "
             "OperatorCheckpoint reported to the job is restored into a fresh operator and its content (events, fired timers, pending timers) "
             "must equal the union of the events delivered before the barriers N. Seeded free-running runs with jitter are recorded and "
             "validated by AlignTrace.tla (with a corrupt-one-field binding self-test).",
        note="Bounded constants; one operator per assembly, all keys in one key group, default DKV memtable size (no flush/compaction during a "
             "run); the reference handler's state encoding defines what 'effect of an event' means; redeploy of a running operator (DESIGN 7 "
             "#22) is C15's; storage is a local tmpfs directory because memory:// cannot be re-opened by a second operator."),
}
