"""Registry fragment of the align family (C02)."""
ENGINES = [
    dict(name="Align", path="spec/Align.tla", serves_properties=["C02"],
         kind_free_text="TLA+ spec of checkpoint-barrier alignment in workers/operator (sender goroutines: AlignCheck/Park/Unpark/Enqueue; "
                        "event loop: LoopEvent/LoopWatermark/LoopBarrier/CompleteCheckpoint/LoopBatchTimeout; batch timer) with ghost "
                        "state seen/fired/timers and cut[n]; TLC exhaustive + behaviours replayed on a real operator.Operator through "
                        "scheduler gates (harness/cmd/align, harness/opkit); spec/AlignTrace.tla validates free-running recorded traces; "
                        "fault environment switched by constants (CancelCaller: a caller's request context is cancelled while parked / queued / "
                        "in its barrier; ArmHandlerFail: the next handler invocation fails; batch time-out; stopped) with the deviations "
                        "Dev_CtxAwareWait, Dev_SwallowFlushError, Dev_IgnoreBarrierFlushError, Dev_ReportWithoutCancel as witness generators"),
]
CHECKS = {
    "C02": dict(
        engine="Align",
        technique="TLA+/TLC model checking of Align.tla; TLC-generated interleavings of concurrent HandleEvent callers forced onto a real "
                  "operator.Operator through verif-tag hooks (operator.align.park/pass) and harness-owned job/handler/timer; reported "
                  "checkpoints read back by deploying a fresh operator from them; recorded free-running traces validated by AlignTrace.tla; "
                  "fault arm: Align.tla's fault environment (request cancellation, failing handler calls, batch time-outs, operator stop) model "
                  "checked, TLC-simulated fault behaviours and the TLC-generated witness schedules of four named deviations replayed on the "
                  "real operator with one cancellable context per caller, a handler that fails on demand / when its context is done and a job "
                  "that refuses a report whose context is done",
        text="TLC exhaustively checks CutExact, CutTimersOK, BatchOK, AckedByAll and the action properties NoEarlyApply / NoEarlyEnqueue over "
             "every interleaving of sender, event-loop and batch-time-out steps for 2-3 runners, scripts of up to 4 items with 1-2 barriers "
             "(incl. one skipped barrier id) and batch sizes 1-2. Hundreds of TLC-simulated schedules per configuration (2-3 runners, up to 3 "
             "consecutive checkpoints, batch sizes 1-3, batch time-outs incl. stale tokens) are executed step by step on a real operator: after "
             "every loop step the handler calls are compared with the model and judged against what the property allows (no event, timer or "
             "watermark of a runner that already delivered barrier N is acted on before OperatorCheckpointComplete(N)); at the end every "
             "OperatorCheckpoint reported to the job is restored into a fresh operator and its content (events, fired timers, pending timers) "
             "must equal the union of the events delivered before the barriers N. Seeded free-running runs with jitter are recorded and "
             "validated by AlignTrace.tla (with a corrupt-one-field binding self-test). Fault arm (checks/c02_faults.py): with CancelCaller "
             "(the context of a runner's request is cancelled at any moment: parked for alignment, queued, between calls, while its barrier is "
             "processed) and ArmHandlerFail (the next handler invocation - size flush, watermark flush, pre-checkpoint flush, time-out flush - "
             "fails once) TLC checks that every REPORTED checkpoint is still exactly the demanded cut, that nothing post-barrier is applied "
             "before a failure was handed out, and that an operator which handed out a failure never reports again; simulated fault behaviours "
             "are replayed in lockstep (error returns, operator stop, failed reports compared step by step), and in every run TLC generates, from "
             "the spec with one deviation switched on, the schedules that only a context-aware alignment wait / a swallowed time-out-flush error "
             "/ an ignored pre-checkpoint-flush error / a report detached from the caller's context follow to a forbidden state: the real "
             "operator must leave each at the deviating step. After any divergence the alive runners deliver their remaining barriers and every "
             "checkpoint still reported is judged by its content. Free-running fault runs are validated by AlignTrace.tla.",
        note="Bounded constants; one operator per assembly, all keys in one key group, default DKV memtable size (no flush/compaction during a "
             "run); the reference handler's state encoding defines what 'effect of an event' means; redeploy of a running operator (DESIGN 7 "
             "#22) is C15's; storage is a local tmpfs directory because memory:// cannot be re-opened by a second operator. Fault arm: "
             "'delivered' means the HandleEvent call returned nil; a runner stops at the first call that returns an error and a cancelled request "
             "context stays cancelled for the runner's remaining calls (what the source runner and the RPC handler do; retries of the HTTP client "
             "are not modelled); the job client always honours the context of a report, the handler honours it or ignores it (both explored); "
             "a failed handler call has no partial effects; once the operator handed out a failure (failed handler call, failed report) it is "
             "not required to keep later events out of its state - it never reports a checkpoint again, and if it does the content is judged; "
             "HandleDeploy / halt paths under faults are C15's."),
}
