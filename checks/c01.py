"""C01 Exactly-once keyed state across worker failure and recovery.

spec/Recovery.tla models the cluster at message granularity (reads, barrier
delivery per (runner, operator) channel, alignment parking, operator batching,
both kinds of checkpoint ack in any order, asynchronous publication, Kill of
any node set at any state, Restart from the newest published checkpoint).

* TLC checks NoDouble / SeenIsClean / NoLoss / FinalState / ConsistentCut
  exhaustively for 2 workers, 2 splits x 2 records, <= 2 checkpoints,
  <= 2 kills (intended design, Dev_AssignUnsorted = FALSE).
* Behaviours simulated from the same spec are replayed on the real Job /
  SourceRunner / Operator / dkv through the in-process cluster kit
  (harness/cluster, harness/cmd/recovery): every model action is a release of
  a message-level gate; verdicts come from the state the real handler is
  given, every published checkpoint read back from the DKV files and the
  final state.
* Seeded free-running runs (random ack orders, kill sets, kill moments,
  batching, watermarks passing) are recorded as Deliver / Published / Kill /
  Restart / Final traces and validated by spec/RecoveryTrace.tla.
"""
import json
import sys
import vlib
import c01_deep
import c01_surv
import restartlib

RULE = ("TLC explores every interleaving of reads, barrier deliveries, alignment, acks (any order), publication, "
        "Kill(any node set, any state) and Restart of Recovery.tla for small constants; simulated behaviours are "
        "replayed on the real in-process cluster through message-level gates and judged by the state the handler is "
        "given, the published checkpoints read back from DKV and the final state; free-running seeded runs are "
        "validated as traces by RecoveryTrace.tla; restart inside a living job (Restart.tla): start() of the real jobs.Job is "
        "stepped while a gated publication completes in between - operators and sources must resume from one cut")

INV = ["NoDouble", "SeenIsClean", "NoLoss", "FinalState", "ConsistentCut", "NoLostOps", "TypeOK"]
KNOWN = "Dev_AssignUnsorted"
# DESIGN 7 #20 (partitioning.AssignRanges assumes its input sorted; it is in ack order) was reproduced by this
# check and repaired by the partition family (fix: AssignRanges no longer assumes the from ranges are sorted).
# On a tree WITHOUT that fix set DEV_ASSIGN = True and list Dev_AssignUnsorted in findings/known.jsonl: behaviours
# are then generated from the faithful model and exactly that anomaly is classified KNOWN-FINDING.
DEV_ASSIGN = False
# per-stage time budget of the harness (a healthy tree needs ~10 % of it; see harness/cmd/recovery main)
BUDGET = dict(quick=60, thorough=600)

BASE = dict(W=2, NSplits=2, NRecs=2, KeyDigits=1221, OwnerDigits=12, B=1, MaxCkpt=2, MaxKills=2, KillJob=True,
            MaxLen=100000, StopAtDone=False, KillDilution=8, Dev_AssignUnsorted=False,
            Rescale="@{}", G=0, GroupDigits=0, Overlap=False, PubDilution=1, Survive=False, Dev_LatePublication=False)   # no rescale, no overlapping publication: c01_deep.py


def exhaustive(c, consts, label, timeout=1500):
    r = vlib.run_tlc("Recovery", cfg=dict(constants=consts, invariants=INV, view="view"), timeout=timeout)
    c.add_tlc(r, "Recovery exhaustive %s %s" % (label, json.dumps(consts)))
    return r


def replay_generated(c, consts, nbeh, depth, seed, key_groups, label):
    gen = dict(consts, StopAtDone=True, MaxLen=depth, Dev_AssignUnsorted=DEV_ASSIGN)
    behs, r = vlib.gen_behaviours("Recovery", gen, nbeh, depth + 5, seed)
    payload = dict(property="C01", seed=c.seed, config=dict(gen, KeyGroups=key_groups, Mode="replay", BudgetSec=BUDGET[c.tier]), behaviours=behs)
    res = vlib.run_harness("recovery", payload, timeout=2400)
    c.add_harness(res, payload, "Recovery replay %s (%d behaviours)" % (label, len(behs)))
    if behs:
        c.sample(dict(kind="Recovery behaviour (%s)" % label, config=gen, steps=[{k: v for k, v in s.items() if k in ("a", "r", "o", "s", "i", "n", "k", "res", "nodes")} for s in behs[0][:25]]))
    return res


def traces(c, consts, key_groups, runs, seed, label, selftest=False):
    """free-running seeded runs -> Deliver/Published/Kill/Restart/Final trace -> RecoveryTrace.tla"""
    tc = dict(consts, StopAtDone=False)
    payload = dict(property="C01", seed=seed, mode="trace",
                   config=dict(tc, KeyGroups=key_groups, Mode="trace", Runs=runs, Kills=2, Ckpts=4, BudgetSec=BUDGET[c.tier]))
    res = vlib.run_harness("recovery", payload, timeout=2400)
    events = res.pop("samples", None) or []
    for e in res.get("errors") or []:
        c.errors.append("recovery trace %s: %s" % (label, e))
    if not events:
        c.errors.append("recovery trace %s: no events recorded" % label)
        return
    runs_ = vlib.split_runs(events)
    # pass 2 of DESIGN 2.5 first: the faithful model of the tree (listed deviations on) decides VIOLATION
    ok, at, tr = vlib.validate_trace("RecoveryTrace", dict(tc, Dev_AssignUnsorted=DEV_ASSIGN), events)
    c.add_tlc(tr, "RecoveryTrace validation %s (%d events, %d runs)" % (label, len(events), len(runs_)), must_hold=False)
    if not ok:
        bad = [r_ for r_ in runs_ if r_[0] <= at][-1]
        ev = events[at - 1] if at <= len(events) else "end"
        c.add_violation("recorded execution rejected by RecoveryTrace.tla at event %d of the run: %s" % (at - bad[0] + 1, json.dumps(ev)),
                        dict(payload, recorded_run=bad[1], rejected_index=at - bad[0]))
        return
    c.traces += len(runs_)
    c.sample(dict(kind="recorded cluster run (%s), first events" % label, events=runs_[0][1][:12]))
    if selftest:
        # binding self-test: one corrupted observable (a handler given a count that already contains the
        # record) must make the same validation reject the trace
        k = next((i for i, e in enumerate(events) if e.get("op") == "Deliver"), None)
        bad_events = [dict(e) for e in events[:2000]]
        if k is None or k >= len(bad_events):
            c.errors.append("recovery trace %s: self-test found no Deliver event" % label)
        else:
            bad_events[k]["cnt"] = 1
            ok2, at2, _ = vlib.validate_trace("RecoveryTrace", dict(tc, Dev_AssignUnsorted=DEV_ASSIGN), bad_events)
            if ok2 or at2 != k + 1:
                c.errors.append("recovery trace %s: self-test: corrupted Deliver at line %d not rejected there (accepted=%s at=%s)" % (label, k + 1, ok2, at2))
    if not DEV_ASSIGN:
        return
    # pass 1: the intended design; a rejection here is exactly the listed deviation
    ok1, at1, tr1 = vlib.validate_trace("RecoveryTrace", dict(tc, Dev_AssignUnsorted=False), events)
    if not ok1:
        bad = [r_ for r_ in runs_ if r_[0] <= at1][-1]
        c.add_violation("recorded execution only explained with Dev_AssignUnsorted: %s" % json.dumps(events[at1 - 1]),
                        dict(payload, recorded_run=bad[1], rejected_index=at1 - bad[0]), known=KNOWN)


TRACE = dict(BASE, W=2, NSplits=3, NRecs=6, KeyDigits=0, OwnerDigits=1212)


def stage(c, f, *a):
    """a stage that dies (harness crash / time-out) must not hide the violations other stages found"""
    try:
        f(*a)
    except vlib.MachineryError as e:
        c.errors.append(str(e)[-3000:])


def simulate(c, consts, num, depth, seed, label):
    """bigger constants: random behaviours of the spec itself, invariants checked on every state"""
    r = vlib.run_tlc("Recovery", cfg=dict(constants=dict(consts, StopAtDone=True, MaxLen=depth), invariants=INV),
                     simulate=num, depth=depth + 5, seed=seed, timeout=1200, name="Recovery-sim")
    c.add_tlc(r, "Recovery -simulate %s %s" % (label, json.dumps(consts)))


def run(c):
    quick = c.tier == "quick"
    b2 = dict(BASE, B=2, KeyDigits=1212)
    rec3 = dict(BASE, NRecs=3, KeyDigits=121212)
    w3 = dict(BASE, W=3, NSplits=3, NRecs=2, KeyDigits=123231, OwnerDigits=123, B=2, MaxCkpt=3, MaxKills=3)
    # re-assembly inside a living job while a snapshot write is in flight: operators and sources resume from ONE cut
    stage(c, restartlib.single_cut_arm, c, c.tier, "C01")
    if quick:
        exhaustive(c, dict(BASE), "2 workers, 2x2 records, 2 ckpts, 2 kills")
        exhaustive(c, dict(b2, MaxKills=1), "operator batching B=2, 1 kill")
        exhaustive(c, dict(rec3, MaxCkpt=1, MaxKills=1), "2x3 records, 1 ckpt, 1 kill")
    else:
        exhaustive(c, dict(BASE), "B=1")
        exhaustive(c, b2, "B=2")
        exhaustive(c, dict(BASE, KeyDigits=1231, OwnerDigits=121), "3 keys")
        exhaustive(c, dict(BASE, KeyDigits=1234, OwnerDigits=1212, B=2, MaxKills=1), "4 keys B=2")
        exhaustive(c, rec3, "2x3 records")
        exhaustive(c, dict(BASE, W=3, NSplits=3, NRecs=1, KeyDigits=123, OwnerDigits=123, MaxCkpt=1, MaxKills=1), "3 workers 3x1")
        simulate(c, dict(w3, NRecs=3, KeyDigits=123231312), 3000, 220, c.seed, "3 workers 3x3, 3 ckpts, 3 kills")
    c.exhaustive = True
    cfgs = [
        (dict(BASE, KillDilution=8), 4, 95),
        (dict(b2, KillDilution=3), 2, 95),
        (dict(BASE, KeyDigits=1231, OwnerDigits=121, KillDilution=20), 3, 95),
        (dict(w3, KillDilution=8), 7, 150),
    ]
    if not quick:
        cfgs.append((dict(rec3, B=2, MaxCkpt=3, KillDilution=12), 4, 150))
    n = (100, 100, 100, 40) if quick else (500, 500, 500, 300, 400)
    for i, (consts, kg, depth) in enumerate(cfgs):
        stage(c, replay_generated, c, consts, n[i], depth, c.seed * 100 + i, kg, "cfg%d" % i)
    stage(c, traces, c, TRACE, 4, 60 if quick else 400, c.seed * 7 + 1, "2 workers, 3x6 records", True)
    stage(c, traces, c, dict(TRACE, W=3, NSplits=4, NRecs=8, OwnerDigits=123123), 6, 20 if quick else 300, c.seed * 7 + 2, "3 workers, 4x8 records")
    c01_deep.run_deep(c, sys.modules[__name__])   # dkv flush/compaction underneath, rescale at recovery, overlapping publications
    c01_surv.run_surv(c, sys.modules[__name__])   # only the killed workers are replaced, the survivors are redeployed in place
    c.assumptions += [
        "one assembly per job in the Recovery.tla arms: a restart is a new Job + fresh workers over the same storage; of a re-assembly inside "
        "a living job only the one-cut condition is checked here (restart arm), the rest is C15",
        "kill-only fault model: calls never fail while both ends are alive; messages in flight from a dead node may still arrive",
        "one publication = snapshot write + deletion of the old file + retention round to the operators, not interleaved with other "
        "steps (DESIGN 7 #19/#28 belong to C13/C09); the write itself may stay in flight across kills and the next checkpoint",
    ]


def replay(c, path):
    payload = json.load(open(path))
    if restartlib.is_restart_file(payload):
        restartlib.replay(c, path)
        return
    if payload.get("deep"):
        c01_deep.replay_trace(c, sys.modules[__name__], payload)
        return
    if payload.get("mode") == "trace":
        cfg = payload["config"]
        consts = {k: v for k, v in cfg.items() if k not in ("KeyGroups", "Mode", "Runs", "Kills", "Ckpts", "BudgetSec")}
        traces(c, consts, cfg["KeyGroups"], cfg["Runs"], payload["seed"], "replay")
        return
    res = vlib.run_harness("recovery", payload)
    c.add_harness(res, payload, "replay " + path)
