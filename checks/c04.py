"""C04 Failure-free delivery: every record exactly once at the owner of its key
group, per-split key order kept, barriers / watermarks never overtake records
read before them.  spec/Pipeline.tla + harness/cmd/pipeline + spec/PipelineTrace.tla."""
import pipelib as P

RULE = ("TLC explores every schedule of Pipeline.tla (source-runner event loop, key-by ReorderFetcher goroutines, router, per-operator "
        "batcher + sender, time-outs, operator back-pressure) for small constants; TLC-simulated schedules are forced onto a real "
        "sourcerunner.SourceRunner through harness-owned reader / handler / timers / operators / job and the batching hooks, the "
        "HandleEventBatch streams are judged after every step; seeded free-running runs (real timers, ~1 ms watermark ticks) are "
        "recorded and validated by PipelineTrace.tla")


def run(c):
    s = c.seed
    if c.tier == "quick":
        P.exhaustive(c, [P.consts(P.S2x2, MaxTicks=1),
                         P.consts(P.S2x3, MaxSize=3, MaxRead=3),
                         P.consts(P.S2x3, MaxSize=1)], timeout=240)
        P.self_test_model(c)
        P.eoi_design(c)
        n = 200
        gens = [P.consts(P.S2x3, MaxKFires=2, MaxOFires=3, MaxLen=120),
                P.consts(P.S2x3, MaxSize=1, MaxKFires=2, MaxOFires=3, MaxLen=140),
                P.consts(P.S2x3, MaxSize=3, MaxRead=3, MaxKFires=2, MaxOFires=3, WithEOI=True, MaxLen=120),
                P.consts(P.S3x4, MaxKFires=3, MaxOFires=4, MaxBarriers=2, MaxRead=3, MaxLen=200),
                P.consts(P.S3x4b, MaxSize=3, MaxKFires=3, MaxOFires=4, MaxRead=3, MaxLen=200),
                P.consts(P.S2x3, UseTimer=False, MaxLen=100),
                P.consts(P.S2x3, UseTimer=False, WithEOI=True, MaxSize=3, MaxRead=3, MaxLen=100)]
        runs = 40
    else:
        P.exhaustive(c, [P.consts(P.S2x3, MaxSize=ms, MaxRead=min(ms + 1, 3), MaxTicks=1) for ms in (1, 2, 3)] +
                     [P.consts(P.S2x2, MaxTicks=1, MaxBarriers=2, WithEOI=True)], timeout=1500)
        P.self_test_model(c)
        P.eoi_design(c)
        for sh, ms in ((P.S3x4, 2), (P.S3x4b, 3)):
            P.simulate(c, P.consts(sh, MaxSize=ms, MaxKFires=3, MaxOFires=4, MaxBarriers=2, MaxTicks=2, MaxRead=3, MaxLen=400), 4000, 400, 90)
        n = 400
        gens = [P.consts(sh, MaxSize=ms, MaxRead=3, MaxKFires=3, MaxOFires=4, MaxBarriers=nb, WithEOI=eoi, MaxLen=ml)
                for sh, ml, ms, nb, eoi in ((P.S2x3, 140, 1, 1, False), (P.S2x3, 140, 2, 2, True), (P.S2x3, 140, 3, 1, True),
                                            (P.S3x4, 220, 1, 2, True), (P.S3x4, 220, 2, 1, False), (P.S3x4, 220, 3, 2, False),
                                            (P.S3x4b, 220, 2, 2, True), (P.S3x4b, 220, 3, 1, False))]
        gens.append(P.consts(P.S2x3, UseTimer=False, MaxLen=100))
        gens.append(P.consts(P.S3x4, UseTimer=False, WithEOI=True, MaxSize=3, MaxLen=160))
        runs = 300
    for i, cc in enumerate(gens):
        P.replay(c, cc, n, s * 1000 + i, restart=False)
    P.adversarial(c, P.consts(P.S2x3, MaxKFires=3, MaxOFires=2, MaxLen=100), 400 if c.tier == "quick" else 2000, 60 if c.tier == "quick" else 300, s * 1000 + 77)
    P.self_test_replay(c, gens[0], s * 1000 + 99)
    sh, events = P.traces(c, runs, s)
    P.self_test_trace(c, sh, events)
    if c.tier != "quick":
        P.traces(c, runs, s + 7777)


def replay(c, path):
    P.replay_file(c, path)
