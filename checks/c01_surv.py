"""C01, survivors arm: after a Kill only the killed workers are replaced.

The other C01 arms restart with FRESH workers after every Kill. The real system replaces only the killed workers:
the surviving ones keep their Operator / SourceRunner objects (ids, DKV directories, goroutines) and are deployed
again IN PLACE by jobs.Job when it re-assembles - the job itself survives unless it was killed too (heartbeat
expiry -> pause -> first N registered operators in id order -> start()), otherwise a new Job is created and the
survivors register with it. Ids are ordered by age, so when an older worker dies every survivor moves to another
position: another key-group range, another operator's checkpoint restored into a process that still holds (and
may still be writing) the files of its previous range.

Recovery.tla's survivors flavour of Restart (Survive = TRUE): by design a redeployed node keeps nothing but its
identity, so the Restart is the same reset from the newest checkpoint - but a surviving job keeps its checkpoint id
counter and its snapshot writes in flight, and calls of the old assembly still in flight to a surviving operator may
be delivered late (LateDeliver) and must have no effect. TLC checks the invariants exhaustively; generated behaviours
are replayed on the real cluster through cluster.RestartSurvivors (harness/cluster/survivors.go) with the tuned DKV
of the deep arms (flushes + compactions: files exist to be clobbered), replacement ids sorting after (even
behaviours) or before (odd behaviours) the survivors'. Oracle as everywhere in C01: the state every handler
invocation is given, every published checkpoint read back, the final state. Publications are diluted in generation
(PubDilution) so that snapshot writes stay in flight across kills: a surviving job must give up the complete but
unwritten checkpoints of the previous assembly when it re-assembles from an older one.
"""
import json
import vlib
import c01_deep

# The tree as it is: a surviving job publishes the previous assembly's complete checkpoints after it has re-assembled
# (known finding Dev_LatePublication, see harness/cmd/recovery knownLatePub). Set to False once the repo gives them
# up at re-assembly (repo branch c01surv-store): the behaviours are then generated from the intended design.
DEV_LATEPUB = True


def run_surv(c, m):
    quick = c.tier == "quick"
    base = dict(m.BASE, Survive=True)
    gen = dict(Dev_LatePublication=DEV_LATEPUB)
    w3 = dict(base, W=3, NSplits=3, NRecs=2, KeyDigits=123231, OwnerDigits=123, B=2, MaxCkpt=3, MaxKills=3)
    if quick:
        c01_deep.exhaustive(c, m, dict(base, NRecs=1, KeyDigits=12), "survivors, 2x1 records, 2 ckpts, 2 kills", ["RestartSame"])
        if DEV_LATEPUB:
            c01_deep.exhaustive(c, m, dict(base, NRecs=1, KeyDigits=12, MaxKills=1, Dev_LatePublication=True), "survivors, writes land late, 1 kill", ["RestartSame"])
    else:
        c01_deep.exhaustive(c, m, base, "survivors", ["RestartSame"])
        c01_deep.exhaustive(c, m, dict(base, Overlap=True, MaxKills=1), "survivors + overlapping publications, 1 kill", ["RestartSame", "TickOverlap"])
    need = ("flushes", "compactions", "redeployedInPlace", "redeployedAtAnotherPosition", "replacements", "jobSurvived", "lateDelivered",
            "restoredWithTables", "writesGivenUp|publishedAfterRestart")
    n = (60, 30) if quick else (400, 300)
    s = c.seed * 100 + 70
    extra = dict(c01_deep.DKV, Survive=True, Chunk=15, StopAfterViolations=5, BudgetS=m.BUDGET[c.tier])
    m.stage(c, c01_deep.replay_generated, c, m, dict(base, KillJob=True, KillDilution=8, MaxKills=2, PubDilution=6, **gen), n[0], 110, s, 4, "survivors 2 workers", extra, need)
    m.stage(c, c01_deep.replay_generated, c, m, dict(w3, KillDilution=8, PubDilution=6, **gen), n[1], 170, s + 1, 7, "survivors 3 workers B=2", extra, need)
    c.assumptions += [
        "survivors arm: a call to a killed node hangs (it neither fails nor is delivered), StartCheckpoint calls of the old assembly fail, its "
        "checkpoint acknowledgements are rejected by the job; a worker one half of which ends by itself stops as a whole (workers.Worker) and is "
        "replaced like a killed one; the worker count is the job's configuration and does not change in this arm",
    ]
