"""Registry fragment of the `rescale` family (C06)."""
ENGINES = [
    dict(name="Rescale", path="spec/Rescale.tla", serves_properties=["C06"],
         kind_free_text="TLA+ spec of a job's keyed state and timers across checkpoint -> restore into another operator count: per "
                        "operator a dkv.DB (memtable+WAL, L0..L5 tables with key ranges and sequence numbers, flush and the two "
                        "compaction regimes), operator checkpoints recorded in ack order, Partition.tla's Ranges/Assign (INSTANCE) for "
                        "jobs.Assembly.Deploy, LoadCheckpointList's composite (WAL lists concatenated, all tables to L0), dkv.Start "
                        "(sequence counter = max over loaded tables, WAL replay filtered by OwnsKey), reads as ScanPrefix does them "
                        "(L0 range filter, binary search below L0, newest sequence number wins), timers, retention rounds; TLC "
                        "exhaustive + behaviours (scripted grids, random scenarios, -simulate walks, witnesses of named deviations) "
                        "replayed on real operators deployed by the real jobs.Assembly.Deploy (harness/cmd/rescale)"),
]
CHECKS = {
    "C06": dict(
        engine="Rescale",
        technique="TLA+/TLC model checking of Rescale.tla; behaviours of the spec replayed on real workers/operator.Operator instances "
                  "(real dkv, real barrier/ack, real jobs.Assembly.Deploy through proto.Operator adapters), every key read back through "
                  "the owning operator's handler after every step, timers fired by watermarks",
        text="TLC proves StateOK/TimersOK/OneOwner/NoCrash/SeqOK: after restoring M operator checkpoints recorded in any ack order into N "
             "operators -- and after every later write, flush+compaction, timer firing, retention round, further checkpoint and second "
             "rescale -- each operator shows for the keys it owns exactly the job's state and pending timers and can checkpoint again; "
             "exhaustively for key-group counts 1,2,3,4,5,8, M,N in 1..3 (thorough: 4; 256 and 40000 with prefix bytes >= 0x80), all "
             "ack permutations, every residence of a cell (WAL only / L0 / compacted, major and minor regime). Five named deviations "
             "(three repaired defects, two design mutations) must each give TLC counterexamples; their witnesses, ~250 scripted scenarios "
             "(grid count x M x N x acks x residence pattern, incl. M,N > count and a second rescale), random scenarios and -simulate walks "
             "are executed on real operators: the handler's view of every subject key and the timers that fire are compared with the "
             "spec's abstract oracle after every step, the checkpoints each new operator is handed with Partition.tla's must/may sets, "
             "and the last generation checkpoints once more and is restored once more.",
        note="Bounded: <= 3 subject keys with one state entry and <= 2 timers each; one table per flush/compaction (256 MB target size "
             "never reached); flush is forced by a padded write against the verif tunable dkv.memTableSize and awaited, so background "
             "flush/compaction never overlaps a checkpoint (that interleaving is C07/C08's); new operators always get new ids; "
             "table-file garbage collection between old and new operators (NeedsTable) is C09's; state of keys an operator does not "
             "own is not probed (shared tables contain it by design)."),
}
