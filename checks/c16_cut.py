"""Cut half of C16: the split positions a source runner reports for checkpoint N
cover exactly the records it emitted ahead of barrier N.  Same machinery as C04
(spec/Pipeline.tla, harness/cmd/pipeline, spec/PipelineTrace.tla); in addition
every replayed run is RESTARTED from the first reported positions and the union
of both runs' operator streams must be each record exactly once."""
import pipelib as P

RULE_CUT = ("BarrierCut of Pipeline.tla (cursor snapshot + ack + barrier placeholder in one loop iteration) is explored by TLC in every "
            "schedule; TLC-simulated schedules are forced onto a real SourceRunner, the SplitStates it reports are compared with the "
            "records ahead of the barrier in every operator stream, and a fresh runner started from those positions must deliver exactly "
            "the remaining records; recorded free runs are validated by PipelineTrace.tla (MarkersOK)")


def cut_half(c):
    s = c.seed
    if c.tier == "quick":
        P.exhaustive(c, [P.consts(P.S2x2, MaxBarriers=2, MaxKFires=1, MaxOFires=0),
                         P.consts(P.S2x3, MaxSize=3, MaxRead=3, MaxKFires=0, MaxOFires=1, MaxBarriers=2)], timeout=240)
        P.self_test_model(c)
        n = 200
        gens = [P.consts(P.S2x3, MaxKFires=2, MaxOFires=3, MaxBarriers=2, MaxLen=130),
                P.consts(P.S2x3, MaxSize=1, MaxKFires=1, MaxOFires=2, MaxBarriers=2, MaxLen=150),
                P.consts(P.S3x4, MaxSize=3, MaxKFires=3, MaxOFires=4, MaxBarriers=2, MaxRead=3, WithEOI=True, MaxLen=200),
                P.consts(P.S3x4b, MaxKFires=3, MaxOFires=4, MaxBarriers=3, MaxRead=3, MaxLen=220)]
        runs = 30
    else:
        P.exhaustive(c, [P.consts(P.S2x3, MaxSize=ms, MaxRead=min(ms + 1, 3), MaxBarriers=2) for ms in (1, 2, 3)], timeout=1500)
        P.self_test_model(c)
        P.simulate(c, P.consts(P.S3x4, MaxSize=2, MaxKFires=3, MaxOFires=4, MaxBarriers=3, MaxRead=3, MaxLen=400), 4000, 400, 90)
        n = 400
        gens = [P.consts(sh, MaxSize=ms, MaxRead=3, MaxKFires=3, MaxOFires=4, MaxBarriers=nb, WithEOI=(nb == 3), MaxLen=ml)
                for sh, ml, ms, nb in ((P.S2x3, 150, 1, 2), (P.S2x3, 150, 2, 3), (P.S2x3, 150, 3, 2), (P.S3x4, 230, 1, 3), (P.S3x4, 230, 2, 2),
                                       (P.S3x4, 230, 3, 3), (P.S3x4b, 230, 2, 3), (P.S3x4b, 230, 3, 2))]
        runs = 300
    for i, cc in enumerate(gens):
        _, res = P.replay(c, cc, n, s * 1000 + 500 + i, restart=True, label=" + restart from reported positions")
        if res.get("executed", 0) and not res.get("counters", {}).get("restarts"):
            c.errors.append("no restart was executed for %s" % P.brief(cc))
    P.traces(c, runs, s + 31)


def replay_cut(c, path):
    P.replay_file(c, path)
