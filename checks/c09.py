"""C09 Files needed by retained checkpoints or live tables are never deleted — spec/Dkv.tla (FilesSafe,
LiveTablesExist, WalReclaimed)."""
import dkvlib
import vlib

RULE = ("TLC checks FilesSafe / LiveTablesExist / WalReclaimed of Dkv.tla over all schedules of flush, compaction, checkpoint "
        "saves, retention updates, garbage-collection runs and re-openings (crash or same process); simulated behaviours are "
        "replayed on the real dkv.DB over a logging file system: every delete/overwrite is checked against the files the saved "
        "checkpoint document references, forced runtime.GC() runs are followed by a read-back of the live database and of every "
        "retained handle, and dropped checkpoints' WALs must be gone after a retention update")

INV = ["RestoreOK", "FilesSafe", "LiveTablesExist", "SeqOK"]


def run(c):
    q = c.tier == "quick"
    dkvlib.run_scripts(c, True)
    r = vlib.run_tlc("Dkv", cfg=dict(constants=dkvlib.consts(Vals={1}, MaxOps=3, MaxReads=0, MaxCkpt=1, MaxReopen=1, MaxRetain=1, MaxGc=1, MaxFail=1),
                                     invariants=INV, properties=["WalReclaimed"], view="view"), timeout=1500, name="Dkv-gc")
    c.add_tlc(r, "Dkv files exhaustive ops=3 ckpt=1 reopen=1 retain=1 gc=1")
    if not q:
        r = vlib.run_tlc("Dkv", cfg=dict(constants=dkvlib.consts(Vals={1}, MaxOps=3, MaxReads=0, MaxCkpt=2, MaxReopen=1, MaxRetain=1, MaxGc=1),
                                         invariants=INV, properties=["WalReclaimed"], view="view"), timeout=2400, name="Dkv-gc2")
        c.add_tlc(r, "Dkv files exhaustive ops=3 ckpt=2 reopen=1 retain=1 gc=1")
    n = 120 if q else 900
    base = dict(Vals={1, 2}, MaxReads=1, MaxCkpt=2, MaxReopen=2, MaxRetain=2, MaxGc=3, MaxFail=1)
    cfgs = [(dkvlib.consts(MaxOps=9, MaxLen=50, **base), 0), (dkvlib.consts(MaxOps=9, MaxLen=50, MemCap=24, **base), 1),
            (dkvlib.consts(MaxOps=9, MaxLen=50, MemCap=70, L0Trigger=3, **base), 2)]
    if not q:
        big = dict(Vals={1, 2}, MaxReads=1, MaxCkpt=3, MaxReopen=3, MaxRetain=3, MaxGc=5, MaxFail=2)
        cfgs += [(dkvlib.consts(MaxOps=12, MaxLen=80, **big), 0), (dkvlib.consts(MaxOps=12, MaxLen=80, MemCap=24, L0Trigger=1, **big), 1)]
    for i, (cs, conc) in enumerate(cfgs):
        dkvlib.replay(c, cs, n, 90, c.seed * 100 + 70 + i, "Dkv files replay MemCap=%d L0=%d" % (cs["MemCap"], cs["L0Trigger"]),
                      conc=conc, check_restore=True)
    c.assumptions += ["garbage collection is forced (runtime.GC x3) at the model's GcRun steps; a late or missing collection is always allowed",
                      "same-process re-opening waits for the replaced instance's queued background work (the instance is never closed by the code)",
                      "neighbour (NeedsTable) fault patterns are exercised at cluster level, not here"]


def replay(c, path):
    dkvlib.replay_file(c, path)
