"""C09 Files needed by retained checkpoints or live tables are never deleted — spec/Dkv.tla (FilesSafe,
LiveTablesExist, WalReclaimed)."""
import dkvlib
import vlib

RULE = ("TLC checks FilesSafe / LiveTablesExist / WalReclaimed of Dkv.tla over all schedules of flush, compaction, checkpoint "
        "saves, retention updates, garbage-collection runs and re-openings (crash or same process); simulated behaviours are "
        "replayed on the real dkv.DB over a logging file system: every delete/overwrite is checked against the files the saved "
        "checkpoint document references, forced runtime.GC() runs are followed by a read-back of the live database and of every "
        "retained handle, and dropped checkpoints' WALs must be gone after a retention update")

INV = ["RestoreOK", "FilesSafe", "LiveTablesExist", "SeqOK"]


def run(c):
    q = c.tier == "quick"
    dkvlib.run_scripts(c, True)
    r = vlib.run_tlc("Dkv", cfg=dict(constants=dkvlib.consts(Vals={1}, MaxOps=3, MaxReads=0, MaxCkpt=1, MaxReopen=1, MaxRetain=1, MaxGc=1, MaxFail=1),
                                     invariants=INV, properties=["WalReclaimed"], view="view"), timeout=1500, name="Dkv-gc")
    c.add_tlc(r, "Dkv files exhaustive ops=3 ckpt=1 reopen=1 retain=1 gc=1")
    if not q:
        r = vlib.run_tlc("Dkv", cfg=dict(constants=dkvlib.consts(Vals={1}, MaxOps=3, MaxReads=0, MaxCkpt=2, MaxReopen=1, MaxRetain=1, MaxGc=1),
                                         invariants=INV, properties=["WalReclaimed"], view="view"), timeout=2400, name="Dkv-gc2")
        c.add_tlc(r, "Dkv files exhaustive ops=3 ckpt=2 reopen=1 retain=1 gc=1")
    n = 120 if q else 900
    base = dict(Vals={1, 2}, MaxReads=1, MaxCkpt=2, MaxReopen=2, MaxRetain=2, MaxGc=3, MaxFail=1)
    cfgs = [(dkvlib.consts(MaxOps=9, MaxLen=50, **base), 0), (dkvlib.consts(MaxOps=9, MaxLen=50, MemCap=24, **base), 1),
            (dkvlib.consts(MaxOps=9, MaxLen=50, MemCap=70, L0Trigger=3, **base), 2)]
    if not q:
        big = dict(Vals={1, 2}, MaxReads=1, MaxCkpt=3, MaxReopen=3, MaxRetain=3, MaxGc=5, MaxFail=2)
        cfgs += [(dkvlib.consts(MaxOps=12, MaxLen=80, **big), 0), (dkvlib.consts(MaxOps=12, MaxLen=80, MemCap=24, L0Trigger=1, **big), 1)]
    for i, (cs, conc) in enumerate(cfgs):
        dkvlib.replay(c, cs, n, 90, c.seed * 100 + 70 + i, "Dkv files replay MemCap=%d L0=%d" % (cs["MemCap"], cs["L0Trigger"]),
                      conc=conc, check_restore=True)
    shared_tables_arm(c)
    c.assumptions += ["garbage collection is forced (runtime.GC x3) at the model's GcRun steps; a late or missing collection is always allowed",
                      "same-process re-opening waits for the replaced instance's queued background work (the instance is never closed by the code)",
                      "NeedsTable fault patterns (errors, time-outs) are not injected; neighbours answer through the real OperatorPartition / HandleNeedsTable"]


def replay(c, path):
    dkvlib.replay_file(c, path)


# ---------------------------------------------------------------- tables shared by operators after a rescale ----
def shared_tables_arm(c):
    """C09 at operator level: after a rescale several operators refer to the same table files. One of them compacts
    the shared table away and drops the restored checkpoint in a retention round; garbage collection (forced by the
    harness) then runs that table object's cleanup, which asks the neighbours (real OperatorPartition /
    HandleNeedsTable). Every operator must still read all of its state, also after one more checkpoint + restore.
    Scenarios are written in Rescale.tla's actions and elaborated by TLC (c06's scenario DSL)."""
    import c06
    q = c.tier == "quick"
    scns = []
    shapes = [(1, 3), (1, 2), (2, 3)] + ([] if q else [(1, 4), (2, 4), (3, 4), (2, 1), (3, 2)])
    for count in ((3, 6, 256) if q else (3, 4, 6, 8, 256, 40000)):
        for (m, n) in shapes:
            if max(m, n) > count:
                continue
            # every non-empty set of new operators compacts the shared table away (the others keep needing it)
            for mask in range(1, 2 ** n):
                who = [o for o in range(1, n + 1) if mask >> (o - 1) & 1]
                grp = c06.spread(count, 3)
                s = c06.Scn(count, grp, m, "major")
                for k in (1, 2, 3):
                    s.put(k)
                for o in range(1, m + 1):
                    if s.keys_of(o):
                        s.put_flush(s.keys_of(o)[0])
                        s.put_flush(s.keys_of(o)[0])      # second L0 table: compacted into one table covering the operator's range
                s.ckpt(list(range(1, m + 1)))
                s.deploy(n, "major")
                if any(not s.keys_of(o) for o in who):
                    continue
                for o in who:
                    s.put_flush(s.keys_of(o)[0])
                    s.put_flush(s.keys_of(o)[0])          # operator o compacts the shared table away
                s.ckpt(list(range(n, 0, -1)))
                s.resume()                                # every operator drops the restored checkpoint; GC; read back
                s.put(s.keys_of(who[0])[0])               # (the other operators' state stays in the shared tables only)
                s.ckpt(list(range(1, n + 1)))
                s.resume()
                s.who, s.nn = who, n
                scns.append(s.finish())
    behs, results = c06.elaborate(c, scns, "shared tables", invariants=c06.INVS)
    for r in results:
        if r.violated or r.error:
            c.errors.append("a shared-table scenario violates %s in the model (%s)\n%s" % (r.violated, r.error, r.out[-1500:]))
    all_behs = behs
    behs = [b for b in behs if b is not None]
    payload = dict(property="C09", seed=c.seed, config=dict(MemSize=4096, Chunk=15, GC=True), behaviours=behs)
    res = vlib.run_harness("rescale", payload, timeout=3000)
    c.add_harness(res, payload, "rescaled operators sharing tables: compaction + retention + forced GC + read-back (%d scenarios)" % len(behs))
    # the same scenarios with the operators that do NOT compact turned into "other-process" neighbours: they refer to
    # the shared files under a different spelling of the URIs, because table files are reference counted per process
    # (by URI): only then does a cleanup's NeedsTable round decide about a delete, as between real worker processes
    groups = {}
    for sc, b in zip(scns, all_behs):
        if b is None:
            continue
        # the compacting operators are the aliased ones: their reference counts are then separate from those of
        # the operators that keep needing the table (and of the first generation's operator, which wrote it)
        alias = tuple(o - 1 for o in sc.who)
        if len(alias) < sc.nn:
            groups.setdefault(alias, []).append(b)
    asked = 0
    for alias, bs in sorted(groups.items()):
        payload = dict(property="C09", seed=c.seed, config=dict(MemSize=4096, Chunk=15, GC=True, AliasOps=list(alias)), behaviours=bs)
        res = vlib.run_harness("rescale", payload, timeout=3000)
        c.add_harness(res, payload, "shared tables, compacting operators %s in 'another process' (their NeedsTable round decides) (%d scenarios)" % (list(alias), len(bs)))
        asked += res.get("counters", {}).get("needs_table_calls", 0)
    if not asked:
        c.errors.append("the neighbour arm never saw a NeedsTable call (vacuous)")
    # scale-out with a surviving worker: the operator is first restored alone from a checkpoint, then deployed again in
    # the same process next to a new neighbour that lives "in another process" (alias spelling); it compacts the shared
    # table away and drops the checkpoint - the ownership question of that moment (with the neighbour) must decide
    scns = []
    for count in ((3, 256) if q else (3, 6, 256, 40000)):
        for n2 in ((2,) if q else (2, 3)):
            s = c06.Scn(count, c06.spread(count, 3), 1, "major")
            for k in (1, 2, 3):
                s.put(k)
            s.put_flush(1)
            s.put_flush(1)
            s.ckpt([1])
            s.deploy(1, "major")                      # restored alone (the surviving Operator object, or a fresh one)
            s.put(1)
            s.ckpt([1])
            s.deploy(n2, "major")                     # scale-out: the survivor + new operators
            if not s.keys_of(1):
                continue
            s.put_flush(s.keys_of(1)[0])
            s.put_flush(s.keys_of(1)[0])              # the survivor compacts the shared table away
            s.ckpt(list(range(n2, 0, -1)))
            s.resume()
            s.put(s.keys_of(1)[0])
            s.ckpt(list(range(1, n2 + 1)))
            s.resume()
            s.nn = n2
            scns.append(s.finish())
    behs, results = c06.elaborate(c, scns, "scale-out next to a survivor", invariants=c06.INVS)
    for r in results:
        if r.violated or r.error:
            c.errors.append("a scale-out scenario violates %s in the model (%s)\n%s" % (r.violated, r.error, r.out[-1500:]))
    if not any(b is not None for b in behs):
        c.errors.append("no scale-out scenario could be elaborated (vacuous)")
    for n2 in sorted({sc.nn for sc, b in zip(scns, behs) if b is not None}):
        bs = [b for sc, b in zip(scns, behs) if b is not None and sc.nn == n2]
        payload = dict(property="C09", seed=c.seed, config=dict(MemSize=4096, Chunk=15, GC=True, Reuse=True, AliasOps=list(range(1, n2))), behaviours=bs)
        res = vlib.run_harness("rescale", payload, timeout=3000)
        c.add_harness(res, payload, "scale-out 1 -> %d: surviving operator redeployed next to new operators 'in another process' (%d scenarios)" % (n2, len(bs)))
        if not res.get("violations") and not res.get("counters", {}).get("needs_table_calls"):
            c.errors.append("the scale-out arm never saw a NeedsTable call (vacuous)")
    # the running operators themselves are deployed again from their own checkpoint (a job that re-assembles with
    # surviving workers): same Operator objects, same directories; a garbage collection is forced in the middle of
    # HandleDeploy (neighbour factory call) - the files of the checkpoint being loaded must survive whatever the
    # operator lets go of at that moment
    scns = []
    for count in ((3, 256) if q else (3, 6, 256, 40000)):
        for m in (2, 3):
            if m > count:
                continue
            s = c06.Scn(count, c06.spread(count, 3), m, "major")
            for k in (1, 2, 3):
                s.put(k)
            for o in range(1, m + 1):
                if s.keys_of(o):
                    s.put_flush(s.keys_of(o)[0])
                    s.put_flush(s.keys_of(o)[0])
            s.ckpt(list(range(1, m + 1)))
            s.deploy(m, "major")                      # in place
            for o in range(1, m + 1):
                if s.keys_of(o):
                    s.put(s.keys_of(o)[0])
            s.ckpt(list(range(m, 0, -1)))
            s.resume()
            for o in range(1, m + 1):
                if s.keys_of(o):
                    s.put_flush(s.keys_of(o)[0])
            s.ckpt(list(range(1, m + 1)))
            s.deploy(m, "major")                      # in place, from a checkpoint with tables of both lives
            s.put([k for o in range(1, m + 1) for k in s.keys_of(o)][0])
            s.ckpt(list(range(1, m + 1)))
            s.resume()
            scns.append(s.finish())
    behs, results = c06.elaborate(c, scns, "in-place redeploys", invariants=c06.INVS)
    for r in results:
        if r.violated or r.error:
            c.errors.append("an in-place redeploy scenario violates %s in the model (%s)\n%s" % (r.violated, r.error, r.out[-1500:]))
    behs = [b for b in behs if b is not None]
    payload = dict(property="C09", seed=c.seed, config=dict(MemSize=4096, Chunk=15, GC=True, InPlace=True, GCInDeploy=True), behaviours=behs)
    res = vlib.run_harness("rescale", payload, timeout=3000)
    c.add_harness(res, payload, "running operators deployed again in place, garbage collection inside HandleDeploy (%d scenarios)" % len(behs))
    if not res.get("violations") and (not res.get("counters", {}).get("redeploys_in_place") or not res.get("counters", {}).get("gcs_inside_deploy")):
        c.errors.append("the in-place redeploy arm did not redeploy in place / collect inside HandleDeploy (vacuous)")
