"""Reader half of C16 (Kinesis): after checkpoint -> kill -> new readers + restored
splitter every split is resumed from its checkpointed position - every record
of every shard is read exactly once relative to the cut, in shard order, child
shards after their parents, by one reader.

spec/KinesisReader.tla (stream with lineage and records, splitter, per-runner
assignment FIFO, SourceReader with round-robin shard index / cursors /
iterators, job checkpoint = reader cursors at each runner's barrier + splitter
state at completion, restart into any runner count) and harness/cmd/kreader
(real kinesis.SourceReader(s) + real kinesis.SourceSplitter + kinesisfake + real
snapshots.Store; records carry their identity as payload)."""
import json
import os
import random
from concurrent.futures import ThreadPoolExecutor

import vlib

RULE_READER = ("TLC explores KinesisReader.tla for small bounds - every interleaving of records put, split/merge, discovery rounds, delivery of "
               "assignment messages to the runner loops, ReadEvents pages of 1..MaxPage records, iterator expiry, barriers, checkpoint "
               "completion and kill/restart into 1-2 runners: the mechanism resumes every shard exactly at the cut (no record repeated, "
               "skipped or read before its parents' records; one reader per shard; nothing ready stays unread), and with the code's "
               "deviations on every violation is a listed one; TLC-simulated behaviours are replayed on real kinesis.SourceReaders and the "
               "real SourceSplitter against kinesisfake and every record returned by ReadEvents is judged by identity")

KNOWN_LOCAL = os.path.join(vlib.ROOT, "findings", "known_splitter.jsonl")
INVS = ["TypeOK", "OneReader", "PerShardOrder"]
OFF = dict(Dev_StateAtCompletion=False, Pre_CursorAtReaderOnly=False, Bug_AtSeq=False, Bug_StaleSplitterCursor=False)
CODE = dict(OFF, Dev_StateAtCompletion=True)  # the tree as it is


def load_local_known(c):
    have = {k.get("id") for k in c.known}
    if os.path.exists(KNOWN_LOCAL):
        for line in open(KNOWN_LOCAL):
            line = line.strip()
            if line and not line.startswith("#") and not line.startswith("fixed:"):
                k = json.loads(line)
                if k.get("property") == c.prop and k.get("id") not in have:
                    c.known.append(k)


def consts(ninit=1, shards=3, runners=(1, 2), rec=2, page=2, starts=2, ckpts=1, maxlen=40, log=False, **dev):
    b = dict(NInit=ninit, MaxShards=shards, Runners="@{" + ", ".join(map(str, runners)) + "}", MaxRec=rec, MaxPage=page,
             MaxStarts=starts, MaxCkpts=ckpts, MaxLen=maxlen, LogOn=log)
    b.update(OFF)
    b.update(dev)
    return b


def brief(cc):
    return "N=%d shards<=%d runners=%s rec<=%d page<=%d starts<=%d ckpts<=%d %s" % (
        cc["NInit"], cc["MaxShards"], cc["Runners"][1:], cc["MaxRec"], cc["MaxPage"], cc["MaxStarts"], cc["MaxCkpts"],
        " ".join(k for k in ("Dev_StateAtCompletion", "Pre_CursorAtReaderOnly", "Bug_AtSeq", "Bug_StaleSplitterCursor") if cc[k]) or "all switches off")


def harness_cfg(cc, **extra):
    cfg = {k: v for k, v in cc.items() if not (isinstance(v, str) and v.startswith("@"))}
    cfg.update(extra)
    return cfg


ACTIONS = ("Start", "Tick", "Deliver", "Read", "Expire", "Put", "Split", "Merge", "StartCkpt", "Barrier", "Complete")


def tlc_start(jobs, workers, timeout, parallel, coverage=False):
    def one(j):
        cc, invs, expect, label = j
        return j, vlib.run_tlc("KinesisReader", cfg=dict(constants=cc, invariants=invs, view="View"), workers=workers, timeout=timeout,
                               name="KinesisReader-x", coverage=coverage and not expect)
    ex = ThreadPoolExecutor(max_workers=parallel)
    return ex, [ex.submit(one, j) for j in jobs]


def tlc_collect(c, started, coverage=False):
    ex, futs = started
    cov = {}
    for f in futs:
        (cc, invs, expect, label), r = f.result()
        for a, n in r.coverage.items():
            cov[a] = cov.get(a, 0) + n
        if expect:
            c.add_tlc(r, label, must_hold=False)
            if r.violated != expect:
                c.errors.append("TLC run '%s' was expected to violate %s (non-vacuity) but: violated=%s error=%s" %
                                (label, expect, r.violated, r.error))
        else:
            c.add_tlc(r, label)
    ex.shutdown()
    if coverage:
        c.extra["KinesisReader_action_coverage"] = {a: cov.get(a, 0) for a in ACTIONS}
        for a in ACTIONS:
            if not cov.get(a):
                c.errors.append("KinesisReader action %s was never taken in the exhaustive runs (vacuous)" % a)


def replay_gen(c, cc, num, seed, label=None):
    behs, r = vlib.gen_behaviours("KinesisReader", cc, num, cc["MaxLen"] + 5, seed)
    if not behs:
        raise vlib.MachineryError("no behaviours generated for %s" % brief(cc))
    # TLC evaluates Dump on every successor of the last but one state: keep two endings per simulated run
    per, kept = {}, []
    for b in behs:
        k = json.dumps(b[:-1], sort_keys=True)
        per[k] = per.get(k, 0) + 1
        if per[k] <= 2:
            kept.append(b)
    behs = kept
    payload = dict(property="C16", family="kreader", seed=seed, config=harness_cfg(cc), behaviours=behs)
    res = vlib.run_harness("kreader", payload)
    c.add_harness(res, payload, label or "KinesisReader replay %s (%d behaviours)" % (brief(cc), len(behs)))
    return behs, res


def witnesses(quick, seed):
    """schedules only a defective variant fails, exported from exhaustive runs (CexDump prints the shortest history of every
    bad state): Pre_CursorAtReaderOnly = the code before its repair, Bug_StaleSplitterCursor = the repair the wrong way
    round. The real code must keep the property on them."""
    cfgs = [("Pre_CursorAtReaderOnly", dict(ninit=1, shards=1, runners=(1,), rec=2, page=1, starts=3, ckpts=2)),
            ("Pre_CursorAtReaderOnly", dict(ninit=2, shards=2, runners=(1, 2), rec=1, page=1, starts=3, ckpts=2)),
            ("Bug_StaleSplitterCursor", dict(ninit=1, shards=1, runners=(1, 2), rec=2, page=1, starts=3, ckpts=2)),
            ("Bug_AtSeq", dict(ninit=1, shards=1, runners=(1, 2), rec=2, page=1, starts=2, ckpts=1))]
    if not quick:
        cfgs.append(("Pre_CursorAtReaderOnly", dict(ninit=1, shards=3, runners=(1, 2), rec=1, page=1, starts=3, ckpts=2)))
        cfgs.append(("Bug_StaleSplitterCursor", dict(ninit=2, shards=2, runners=(1, 2), rec=2, page=2, starts=3, ckpts=2)))
    out = []
    for i, (sw, kw) in enumerate(cfgs):
        cc = consts(log=True, maxlen=40, **dict(kw, **dict(CODE, **{sw: True})))
        r = vlib.run_tlc("KinesisReader", cfg=dict(constants=cc, invariants=["CexDump"], view="View"), workers=1,
                         timeout=90 if quick else 600, name="KinesisReader-cex")
        behs = [b for b in r.behaviours if any(x["dev"] == sw for x in b[-1].get("bad", []))]
        behs.sort(key=lambda b: json.dumps(b))
        random.Random(seed + i).shuffle(behs)
        behs = sorted(behs[:12 if quick else 150], key=len)
        payload = res = None
        if behs:
            payload = dict(property="C16", family="kreader", seed=seed, config=harness_cfg(cc, Adversarial=True), behaviours=behs)
            res = vlib.run_harness("kreader", payload)
        out.append((sw, cc, r, payload, res))
    return out


def witnesses_collect(c, out):
    shown = set()
    for sw, cc, r, payload, res in out:
        c.add_tlc(r, "KinesisReader counterexample export " + brief(cc), must_hold=False)
        if payload is None:
            c.errors.append("the model does not exhibit %s for %s: %s" % (sw, brief(cc), r.error))
            continue
        behs = payload["behaviours"]
        c.add_harness(res, payload, "KinesisReader adversarial: %d witness schedules of %s on the code (%s)" % (len(behs), sw, brief(cc)))
        if sw not in shown:
            shown.add(sw)
            c.sample(dict(kind="KinesisReader.tla counterexample (%s), replayed on the real reader + splitter" % sw, steps=behs[0]))


def reader_half(c):
    load_local_known(c)
    s = c.seed
    quick = c.tier == "quick"
    if quick:
        d1 = consts(ninit=1, shards=3, runners=(1, 2), rec=2, page=2, starts=2, ckpts=1)
        d2 = consts(ninit=1, shards=1, runners=(1, 2), rec=2, page=2, starts=3, ckpts=2)
        c1 = consts(ninit=2, shards=3, runners=(1, 2), rec=1, page=1, starts=2, ckpts=1, **CODE)  # Merge (N=1 covers Split)
        jobs = [(d1, ["DesignOK"] + INVS, None, "KinesisReader design " + brief(d1)),
                (d2, ["DesignOK"] + INVS, None, "KinesisReader design " + brief(d2)),
                (c1, ["Attributed"] + INVS, None, "KinesisReader code " + brief(c1))]
        tl, wk, par = 400, 4, 1
    else:
        jobs = []
        for dev, inv, nm in ((OFF, "DesignOK", "design"), (CODE, "Attributed", "code")):
            for cc in (consts(ninit=1, shards=3, runners=(1, 2), rec=2, page=2, starts=2, ckpts=1, **dev),
                       consts(ninit=1, shards=3, runners=(1, 2), rec=1, page=1, starts=3, ckpts=2, **dev),
                       consts(ninit=2, shards=3, runners=(1, 2), rec=1, page=1, starts=3, ckpts=2, **dev),
                       consts(ninit=2, shards=3, runners=(2,), rec=2, page=2, starts=2, ckpts=1, **dev)):
                jobs.append((cc, [inv] + INVS, None, "KinesisReader %s %s" % (nm, brief(cc))))
        tl, wk, par = 1200, 4, 1
    for sw, kw in (("Bug_AtSeq", dict(shards=1, rec=2, page=1)),
                   ("Dev_StateAtCompletion", dict(shards=3, rec=1, page=1)),
                   ("Pre_CursorAtReaderOnly", dict(shards=1, rec=1, page=1, starts=3, ckpts=2))):
        cc = consts(ninit=1, runners=(1,), **dict(dict(starts=2, ckpts=1), **dict(kw, **{sw: True})))
        jobs.append((cc, ["DesignOK"], "DesignOK", "KinesisReader non-vacuity " + brief(cc)))
    vlib.build("kreader")
    started = tlc_start(jobs, wk, tl, par, coverage=not quick)
    wex = ThreadPoolExecutor(max_workers=1)
    wfut = wex.submit(witnesses, quick, s * 1000 + 373)
    c.exhaustive = True

    if quick:
        gens = [(consts(ninit=2, shards=5, runners=(1, 2), rec=3, page=2, starts=3, ckpts=3, maxlen=60, log=True, **CODE), 100),
                (consts(ninit=1, shards=4, runners=(1, 2, 3), rec=4, page=3, starts=4, ckpts=4, maxlen=70, log=True, **CODE), 100),
                (consts(ninit=3, shards=6, runners=(1, 2, 3), rec=2, page=2, starts=3, ckpts=3, maxlen=80, log=True, **CODE), 70),
                (consts(ninit=1, shards=3, runners=(1, 2), rec=4, page=2, starts=5, ckpts=5, maxlen=60, log=True, **CODE), 100)]
    else:
        gens = [(consts(ninit=n, shards=sh, runners=rs, rec=rec, page=pg, starts=st, ckpts=st, maxlen=ml, log=True, **CODE), 250)
                for n, sh, rs, rec, pg, st, ml in ((1, 3, (1, 2), 4, 3, 4, 60), (1, 5, (1, 2, 3), 3, 2, 4, 80), (2, 5, (1, 2), 3, 2, 3, 70),
                                                   (2, 7, (1, 2, 3), 2, 2, 4, 100), (3, 6, (2, 3), 3, 3, 3, 90), (2, 6, (1,), 4, 2, 5, 100))]
    first, steps = None, {}
    for i, (cc, num) in enumerate(gens):
        behs, res = replay_gen(c, cc, num, s * 1000 + 300 + i)
        for k, v in res.get("counters", {}).items():
            steps[k] = steps.get(k, 0) + v
        if first is None:
            first = behs[0]
    c.extra["KinesisReader_steps_on_real_code"] = {a: steps.get("step:" + a, 0) for a in ACTIONS}
    for a in ACTIONS:
        if not steps.get("step:" + a):
            c.errors.append("KinesisReader action %s was never executed on the real code (vacuous)" % a)
    if not steps.get("records"):
        c.errors.append("the replays read no record from kinesisfake (vacuous)")
    if first:
        c.sample(dict(kind="KinesisReader.tla behaviour (first steps)", steps=first[:16]))
    witnesses_collect(c, wfut.result())
    wex.shutdown()
    tlc_collect(c, started, coverage=not quick)
    c.assumptions.append("C16 reader half (Kinesis): the job and the runner loop are played by the harness as jobs/job.go and "
                         "workers/sourcerunner do (per-runner FIFO of AssignSplits messages, one ReadEvents per Read step, "
                         "SourceReader.Checkpoint() at the barrier, NotifySplitsFinished forwarded before ReadEvents returns); records "
                         "are lost when three further rounds of discovery + delivery + reading return nothing; kinesisfake stands for "
                         "Kinesis (sequence numbers are positions, AT_SEQUENCE_NUMBER is not implemented by it)")


def replay_reader(c, path):
    load_local_known(c)
    payload = json.load(open(path))
    payload.pop("violation", None)
    res = vlib.run_harness("kreader", payload)
    c.add_harness(res, payload, "replay " + path)
