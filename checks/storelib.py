"""Shared driver code of the `store` family (C12, C13): spec/Store.tla +
harness/cmd/store."""
import json
import vlib

ALL = ["Create", "Savepoint", "OpAck", "SrAck", "BadAck", "Write", "Delete", "Notify", "Restart"]
GOOD = ["Create", "OpAck", "SrAck", "Write", "Delete", "Notify", "Restart"]          # no bad acks, no savepoints
PUBL = ["Create", "Savepoint", "OpAck", "SrAck", "Write", "Delete", "Notify", "Restart"]
DEVS = ["Pre_DupSrAppended", "Pre_ListLexical", "Pre_LateClobbers", "Pre_NotifyUnordered", "Pre_RetainDropsNewer",
        "Pre_AckUnlocked", "Pre_ForwardConcurrent"]
INVARIANTS = ["TypeOK", "OnlyWhenAllAcked", "PublishedWhole", "PublishedOnce", "AtMostOnePending", "NoBad", "NewestSurvives",
              "RetainNamesNewest", "OperatorsKeepNewest", "CurrentIsNewest"]


def consts(**kw):
    c = dict(Ops={"o1"}, Srs={"s1"}, XOp="ox", XSr="sx", StartId=0, IdSpan=3, MaxLen=8, MaxRestarts=1, MaxInFlight=2,
             Acts=set(ALL), TokCounts="@{1}", MaxTok=3, AckOffsets="@{0,1,2}", DirMode=False, Burst=False, RpcMode=False)
    for d in DEVS:
        c[d] = False
    c.update(kw)
    for k in ("Ops", "Srs", "Acts"):
        c[k] = set(c[k])
    return c


def jc(c):
    """constants as a short JSON label"""
    d = {k: (sorted(v) if isinstance(v, (set, frozenset)) else v) for k, v in c.items() if not k.startswith("Pre_") or v}
    for k in ("XOp", "XSr"):
        d.pop(k, None)
    if set(d.get("Acts", [])) == set(ALL):
        d["Acts"] = "all"
    return json.dumps(d, sort_keys=True)


def harness_cfg(c, **extra):
    d = dict(Ops=sorted(c["Ops"]), Srs=sorted(c["Srs"]), StartId=c["StartId"], DirMode=c["DirMode"],
             Switches=[k for k in DEVS if c.get(k)])
    d.update(extra)
    return d


def exhaustive(c, label, timeout=1500, **kw):
    """TLC over the whole (bounded) state graph of the repaired design: every invariant must hold."""
    cs = consts(**kw)
    r = vlib.run_tlc("Store", cfg=dict(constants=cs, invariants=INVARIANTS, view="viewN" if cs["MaxLen"] < 1000 else "view"),
                     timeout=timeout)
    c.add_tlc(r, "%s %s" % (label, jc(cs)))
    return r


def must_break(c, dev, expect, timeout=600, **kw):
    """the model with one deviation switch on must yield a counterexample (the invariants are not vacuous)"""
    cs = consts(**dict(kw, **{dev: True}))
    r = vlib.run_tlc("Store", cfg=dict(constants=cs, invariants=INVARIANTS, view="viewN" if cs["MaxLen"] < 1000 else "view"),
                     timeout=timeout)
    c.add_tlc(r, "non-vacuity %s %s" % (dev, jc(cs)), must_hold=False)
    if r.violated not in expect:
        c.errors.append("Store.tla with %s did not produce the expected counterexample (%s): violated=%s error=%s" %
                        (dev, expect, r.violated, r.error))
    return r


def _maximal(behs):
    """drop duplicates and behaviours that are a proper prefix of another one"""
    full, prefixes, keyed = {}, set(), []
    for b in behs:
        k = 0
        for i, st in enumerate(b):
            k = hash((k, json.dumps(st, sort_keys=True)))
            if i < len(b) - 1:
                prefixes.add(k)
        if k not in full:
            full[k] = b
            keyed.append(k)
    return [full[k] for k in keyed if k not in prefixes]


def cover(c, label, timeout=900, **kw):
    """one shortest behaviour per (incoming step, state) of the bounded graph (VIEW viewT): a transition cover"""
    cs = consts(**kw)
    r = vlib.run_tlc("Store", cfg=dict(constants=cs, invariants=["DumpAll"], view="viewT"), workers=1, timeout=timeout,
                     name="Store-cover")
    if not r.ok:
        raise vlib.MachineryError("cover generation failed: %s %s\n%s" % (r.error, r.violated, r.out[-2000:]))
    c.add_tlc(r, "cover generation %s %s" % (label, jc(cs)))
    return _maximal(r.behaviours), cs


def simulate(c, num, seed, keep=None, **kw):
    """`num` distinct random behaviours of the model (TLC -simulate); keep: optional filter"""
    cs = consts(**kw)
    behs, r = vlib.gen_behaviours("Store", cs, num, cs["MaxLen"] + 2, seed)
    if keep:
        behs = [b for b in behs if keep(b)]
    return behs[:num], cs


def dirstates(c, start, span):
    """every set of 1..3 snapshot ids within a window as initial directory, then Restart"""
    cs = consts(StartId=start, IdSpan=span, DirMode=True, MaxLen=1, Acts={"Restart"})
    r = vlib.run_tlc("Store", cfg=dict(constants=cs, invariants=["Dump", "NoBad"]), workers=1, timeout=600, name="Store-dir")
    if not r.ok:
        raise vlib.MachineryError("directory-state generation failed: %s %s\n%s" % (r.error, r.violated, r.out[-2000:]))
    c.add_tlc(r, "directory states window %d..%d" % (start, start + span))
    return r.behaviours, cs


def replay(c, behs, cs, label, harness="store", **extra):
    """harness "store": harness/cmd/store (the real snapshots.Store); "storejob": harness/cmd/storejob (the real jobs.Job)"""
    if not behs:
        raise vlib.MachineryError("no behaviours generated for " + label)
    payload = dict(property=c.prop, seed=c.seed, config=harness_cfg(cs, Harness=harness, **extra), behaviours=behs)
    res = vlib.run_harness(harness, payload, timeout=3000)
    c.add_harness(res, payload, "%s %s" % (label, jc(cs)))
    res["_payload"] = payload
    return res


API_STEPS = ("Create", "OpAck", "SrAck", "PublishWrite")   # steps that need the store's lock


def window_steps(beh):
    """indices of the API calls issued while an acknowledgement is between its bookkeeping and AckFinish (Pre_AckUnlocked)"""
    return [i for i, s in enumerate(beh) if i > 0 and beh[i - 1]["fin"] and s["a"] in API_STEPS]


def ack_windows(c, label, per_prefix=2, **kw):
    """Schedules only a store that releases its lock inside an acknowledgement admits (Pre_AckUnlocked): a transition cover of
    that design's graph, reduced to the behaviours in which another call arrives while a completing acknowledgement is still
    inside finishSnapshot. Behaviours are cut after the second such call; at most `per_prefix` continuations are kept per
    distinct history up to the first one (the real code serialises there, which costs a quiet period per behaviour)."""
    behs, cs = cover(c, label, Pre_AckUnlocked=True, **kw)
    out, seen, per = [], set(), {}
    for b in behs:
        ws = window_steps(b)
        if not ws:
            continue
        b = b[:ws[1] + 1] if len(ws) > 1 else b
        key = json.dumps(b, sort_keys=True)
        first = json.dumps(b[:ws[0] + 1], sort_keys=True)
        if key in seen or per.get(first, 0) >= per_prefix:
            continue
        seen.add(key)
        per[first] = per.get(first, 0) + 1
        out.append(b)
    if not out:
        raise vlib.MachineryError("no behaviour with a call inside an acknowledgement's window generated")
    return out, dict(cs, Pre_AckUnlocked=False)   # not a listed finding: the code must serialise or stay within the property


def first_overtaking_send(beh):
    """index of the first NotifySend that is not the oldest waiting notification (None: in order)"""
    pending = []
    for i, s in enumerate(beh):
        if s["a"] == "NotifySend" and pending and s["id"] != pending[0]:
            return i
        pending = list(s["nt"])
    return None


def per_prefix(behs, cut, keep=2):
    """behaviours for which cut(b) is an index, at most `keep` (the longest) per distinct history b[:cut(b)+1]"""
    groups = {}
    for b in behs:
        i = cut(b)
        if i is None:
            continue
        groups.setdefault(json.dumps(b[:i + 1], sort_keys=True), []).append(b)
    out = []
    for k in groups:   # dict order = generation order: deterministic
        out += sorted(groups[k], key=len, reverse=True)[:keep]
    return out


def replay_file(c, path):
    payload = json.load(open(path))
    payload["property"] = c.prop
    res = vlib.run_harness(payload.get("config", {}).get("Harness", "store"), payload)
    c.add_harness(res, payload, "replay " + path)


def first_concurrent_forward(beh):
    """index of the first Forward issued while a request of an earlier one is still in flight (None: never)"""
    for i, s in enumerate(beh):
        if s["a"] == "Forward" and s["busy"]:
            return i
    return None


def count(behs, pred):
    return sum(1 for b in behs if pred(b))
