"""C02 Barrier alignment gives every operator checkpoint a consistent cut.
spec/Align.tla (sender goroutines / event loop / batch timer of workers/operator at
critical-section granularity) + spec/AlignTrace.tla (free-running traces)."""
import copy
import json
import os
import shutil
import subprocess
import time
import vlib
import c02_faults

RULE = ("TLC explores every interleaving of sender steps (AlignCheck/Park/Unpark/Enqueue), event-loop steps and "
        "batch time-outs of Align.tla for small constants (CutExact, CutTimersOK, NoEarlyApply, NoEarlyEnqueue, BatchOK); "
        "TLC-simulated schedules are forced onto a real operator.Operator through gates (operator.align.park/pass hooks, "
        "harness job/handler/timer); handler calls are compared with the model after every loop step and every reported "
        "checkpoint is read back by deploying a fresh operator from it; free-running seeded runs are recorded and "
        "validated by AlignTrace.tla; fault arm (checks/c02_faults.py): the same under request cancellation, handler failures and "
        "batch time-outs - Align.tla's fault environment model checked, simulated fault behaviours and the witness schedules of four "
        "named deviations replayed on the real operator with per-caller contexts and a failing handler / job, free-running fault runs "
        "validated by AlignTrace.tla")

INVS = ["CutExact", "CutTimersOK", "BatchOK", "AcksInOrder", "AckedByAll", "ParkedOK", "NoLossAtEnd", "TypeOK"]
PROPS = ["NoEarlyApply", "NoEarlyEnqueue"]


# fault environment of Align.tla switched off (see checks/c02_faults.py for the arm that switches it on)
NOFAULT = dict(MaxCancel=0, MaxHFail=0, HonourCtx=False, FaultFrom="@{0}", Dev_CtxAwareWait=False, Dev_SwallowFlushError=False,
               Dev_ReportWithoutCancel=False, Dev_IgnoreBarrierFlushError=False, Dev_SwallowEventFlushError=False,
               Dev_SwallowWatermarkFlushError=False)


def K(**kw):
    d = dict(NS=2, K=2, MaxScript=4, MaxSize=2, UseTimer=True, MaxFires=2, MaxW=2, MaxSkip=0, MaxLen=1000)
    d.update(NOFAULT)
    d.update(kw)
    return d


def run_align(c, payload, label, timeout=1800):
    """vlib.run_harness, except that a crash of the process (the operator under test runs inside it and may panic
    on one of its own goroutines) keeps what the harness had observed up to the last completed behaviour."""
    vlib.build("align")
    d = vlib._scratch("h-align")
    try:
        inp, outp = os.path.join(d, "in.json"), os.path.join(d, "out.json")
        with open(inp, "w") as f:
            json.dump(payload, f)
        t = time.time()
        e = vlib.env()
        shm = None
        if os.path.isdir("/dev/shm"):   # as vlib.run_harness: one scratch root for every temporary directory, removed below
            shm = "/dev/shm/verif-h-%d-%s" % (os.getpid(), os.path.basename(d))
            os.makedirs(shm, exist_ok=True)
            e.update(VERIF_SHM=shm, TMPDIR=shm)
        p = subprocess.run(["timeout", str(timeout), os.path.join(vlib.BUILD, "bin", "align"), inp, outp],
                           stdout=subprocess.PIPE, stderr=subprocess.STDOUT, text=True, env=e)
        if p.returncode == 0 and os.path.exists(outp):
            res = json.load(open(outp))
        elif os.path.exists(outp + ".partial"):
            res = json.load(open(outp + ".partial"))
            res.setdefault("errors", None)
            res["errors"] = (res["errors"] or []) + ["harness process died (rc=%s) after %d behaviours/runs; the operator under test "
                                                     "probably panicked: %s" % (p.returncode, res.get("executed", 0) + res.get("drift", 0),
                                                                                " | ".join(p.stdout.strip().splitlines()[:3])[:600])]
        else:
            res = dict(executed=0, steps=0, drift=0, violations=[],
                       errors=["harness align failed (rc=%s): %s" % (p.returncode, p.stdout[-1500:])])
        res["_wall"] = time.time() - t
        return res
    finally:
        shutil.rmtree(d, ignore_errors=True)
        if os.path.isdir("/dev/shm"):
            shutil.rmtree("/dev/shm/verif-h-%d-%s" % (os.getpid(), os.path.basename(d)), ignore_errors=True)


def vacuous(c, msg):
    """a vacuity / plumbing problem: reported as machinery error at the end, but never in place of a violation"""
    c.errors.append(msg)


def exhaustive(c, consts, timeout=1500):
    r = vlib.run_tlc("Align", cfg=dict(constants=consts, invariants=INVS, properties=PROPS, view="view"), timeout=timeout)
    c.add_tlc(r, "Align exhaustive %s" % json.dumps(consts))
    return r


def simulate_check(c, consts, num, depth, seed):
    """random behaviours of a configuration too large to exhaust, invariants checked along the way"""
    r = vlib.run_tlc("Align", cfg=dict(constants=consts, invariants=INVS, properties=PROPS), simulate=num, depth=depth, seed=seed,
                     timeout=900, name="Align-sim")
    c.add_tlc(r, "Align simulate x%d %s" % (num, json.dumps(consts)))


def holdable(beh):
    """behaviour with a last barrier whose final flush calls the handler while a sender is parked"""
    parked = set()
    for i, s in enumerate(beh):
        if s["a"] == "AlignCheck" and s["park"]:
            parked.add(s["sr"])
        elif s["a"] == "Unpark":
            parked.discard(s["sr"])
        elif s["a"] == "Enqueue" and parked and i + 1 < len(beh):
            nx = beh[i + 1]
            if nx["a"] == "LoopBarrier" and nx["last"] and nx["calls"]:
                return True
    return False


def replay_cfg(c, consts, nbeh, seed, adversarial=0):
    consts = dict(consts, MaxLen=400)
    behs, r = vlib.gen_behaviours("Align", consts, nbeh, 400, seed)
    if not behs:
        raise vlib.MachineryError("no behaviours generated for %s" % consts)
    payload = dict(property="C02", seed=c.seed, config=consts, behaviours=behs)
    res = run_align(c, payload, "replay")
    c.add_harness(res, payload, "Align replay %s" % json.dumps(consts))
    if adversarial:
        # schedules the model does not admit: push woken senders at the operator while its final flush is held
        hb = [b for b in behs if holdable(b)][:adversarial]
        if not hb:
            vacuous(c, "no behaviour with a held final flush and a parked sender for %s" % consts)
            return res
        pa = dict(property="C02", seed=c.seed, config=dict(consts, Adversarial=True), behaviours=hb)
        ra = run_align(c, pa, "adversarial")
        c.add_harness(ra, pa, "Align adversarial hold %s" % json.dumps(consts))
        if not ra.get("counters", {}).get("adversarial_pushed"):
            vacuous(c, "adversarial arm never pushed a woken sender: %s" % ra.get("counters"))
    parks = sum(1 for b in behs for s in b if s["a"] == "AlignCheck" and s["park"])
    calls = sum(len(s.get("calls", [])) for b in behs for s in b)
    refused = sum(1 for b in behs for s in b if s.get("mismatch"))
    c.extra.setdefault("replay_shape", []).append(dict(consts=consts, behaviours=len(behs), parks=parks, handler_calls=calls, refused_barriers=refused,
                                                       checkpoints_read_back=res.get("counters", {}).get("checkpoints_read_back", 0)))
    if parks == 0:
        vacuous(c, "generated behaviours never park a sender: vacuous")
    if consts.get("MaxSkip") and refused == 0:
        vacuous(c, "generated behaviours never skip a barrier although MaxSkip > 0: vacuous")
    c.sample(dict(kind="Align behaviour replayed on the real operator", config=consts, steps=behs[0][:14]))
    return res


def trace_consts(cfg):
    return dict(NOFAULT, NS=cfg["NS"], K=cfg["K"], MaxScript=cfg["MaxScript"], MaxSize=cfg["MaxSize"], UseTimer=cfg["UseTimer"],
                MaxFires=0, MaxW=cfg["MaxW"], MaxSkip=0, MaxLen=0)


def validate(c, cfg, events, payload, label):
    ok, at, tr = vlib.validate_trace("AlignTrace", trace_consts(cfg), events)
    c.add_tlc(tr, "AlignTrace validation %s (%d events)" % (label, len(events)), must_hold=False)
    runs = vlib.split_runs(events)
    if ok:
        return True, runs
    bad = [r_ for r_ in runs if r_[0] <= at][-1]
    c.add_violation("recorded operator trace rejected by AlignTrace.tla at event %d of the run: %s" %
                    (at - bad[0] + 1, json.dumps(events[at - 1]) if at <= len(events) else "end"),
                    dict(payload, recorded_run=bad[1], rejected_index=at - bad[0]))
    return False, runs


def traces(c, cfg, seed, selftest=True):
    cfg = dict(cfg, Mode="trace")
    payload = dict(property="C02", seed=seed, config=cfg, mode="align-trace")
    res = run_align(c, payload, "trace")
    events = res.pop("samples", None) or []
    c.add_harness(dict(res, executed=0), payload, "Align free-running %s" % json.dumps(cfg))
    if not events:
        vacuous(c, "trace mode recorded nothing")
        return
    ok, runs = validate(c, cfg, events, payload, "seed %d" % seed)
    if ok:
        c.traces += len(runs)
        cuts = sum(1 for e in events if e["op"] == "Cut")
        parks = sum(1 for e in events if e["op"] == "Park")
        c.extra.setdefault("trace_shape", []).append(dict(runs=len(runs), events=len(events), cuts=cuts, parks=parks))
        if cuts == 0:
            vacuous(c, "recorded traces contain no checkpoint content")
        c.sample(dict(kind="recorded operator trace (first run)", events=runs[0][1][:16]))
        if selftest:
            binding_selftest(c, cfg, runs)


def binding_selftest(c, cfg, runs):
    """the trace spec must reject a recorded run after (a) dropping one event from a checkpoint's content,
    (b) moving an acknowledgement after a handler call of a post-barrier event (if the run has one)."""
    for _, run in runs:
        cut = next((e for e in run if e["op"] == "Cut" and e["seen"]), None)
        if cut is None:
            continue
        bad = copy.deepcopy(run)
        for e in bad:
            if e["op"] == "Cut" and e["n"] == cut["n"]:
                e["seen"] = e["seen"][1:]
        ok, at, tr = vlib.validate_trace("AlignTrace", trace_consts(cfg), bad)
        if ok:
            vacuous(c, "binding self-test: AlignTrace accepted a checkpoint whose content lost an event")
            return
        # (b) delay Ack(n) behind the next handler call that holds an event delivered after barrier n
        for i, e in enumerate(run):
            if e["op"] != "Ack":
                continue
            for j in range(i + 1, len(run)):
                if run[j]["op"] == "Call" and any(post_barrier(run, u, e["n"]) for u in run[j]["items"]):
                    bad = run[:i] + run[i + 1:j + 1] + [e] + run[j + 1:]
                    ok, at, tr = vlib.validate_trace("AlignTrace", trace_consts(cfg), bad)
                    if ok:
                        vacuous(c, "binding self-test: AlignTrace accepted a post-barrier event applied before the acknowledgement")
                        return
                    c.extra["binding_selftest"] = "content-drop and early-apply corruptions rejected"
                    return
        c.extra.setdefault("binding_selftest", "content-drop corruption rejected")
    if "binding_selftest" not in c.extra:
        vacuous(c, "binding self-test found no run with a non-empty checkpoint")


def post_barrier(run, u, n):
    if u["t"] != "e":
        return False
    pos = None
    for e in run:
        if e["op"] == "Start" and e["sr"] == u["sr"] and e["k"] == "b" and e["v"] == n:
            pos = e["idx"]
    return pos is not None and u["idx"] > pos


def run(c):
    s = c.seed * 1000
    if c.tier == "quick":
        exhaustive(c, K())
        exhaustive(c, K(MaxSize=1, MaxFires=1, MaxSkip=1))
        exhaustive(c, K(NS=3, K=2, MaxScript=3, UseTimer=False, MaxFires=0, MaxW=1, MaxSkip=1))
        exhaustive(c, K(NS=3, K=1, MaxScript=3, MaxSize=1, MaxFires=1, MaxW=1))
        c.exhaustive = True
        n = 110
        replay_cfg(c, K(), n, s + 1)
        replay_cfg(c, K(NS=3, K=1, MaxScript=3, MaxSize=1, UseTimer=False, MaxFires=0), n, s + 2)
        replay_cfg(c, K(NS=3, K=2, MaxScript=5, MaxSize=2), n, s + 3, adversarial=40)
        replay_cfg(c, K(NS=2, K=3, MaxScript=6, MaxSize=3, MaxW=3), n, s + 4, adversarial=40)
        replay_cfg(c, K(NS=3, K=3, MaxScript=5, MaxSize=2, MaxSkip=1), n, s + 7)
        traces(c, dict(NS=3, K=2, MaxScript=6, MaxSize=2, UseTimer=True, MaxW=3, Runs=40), s + 5)
        traces(c, dict(NS=2, K=3, MaxScript=7, MaxSize=1, UseTimer=False, MaxW=3, Runs=25), s + 6, selftest=False)
    else:
        exhaustive(c, K())
        exhaustive(c, K(MaxSize=1, MaxFires=1, MaxSkip=1))
        exhaustive(c, K(MaxSkip=1))
        exhaustive(c, K(NS=3, K=2, MaxScript=3, UseTimer=False, MaxFires=0, MaxW=1, MaxSkip=1))
        exhaustive(c, K(MaxSize=3, MaxScript=5, MaxFires=1))
        exhaustive(c, K(NS=3, K=1, MaxScript=3, MaxFires=1, MaxW=1))
        exhaustive(c, K(NS=3, K=1, MaxScript=3, MaxSize=1, UseTimer=False, MaxFires=0, MaxW=1))
        c.exhaustive = True
        simulate_check(c, K(NS=3, K=3, MaxScript=7, MaxSize=2, MaxW=3, MaxFires=3), 10000, 400, s + 9)
        simulate_check(c, K(NS=3, K=3, MaxScript=6, MaxSize=3, MaxW=2, MaxFires=2, MaxSkip=1), 30000, 400, s + 10)
        n = 400
        i = 0
        for ns, k, ms in ((2, 2, 4), (2, 3, 6), (3, 1, 4), (3, 2, 5), (3, 3, 7)):
            for size in (1, 2, 3):
                i += 1
                replay_cfg(c, K(NS=ns, K=k, MaxScript=ms, MaxSize=size, UseTimer=size > 1, MaxFires=2 if size > 1 else 0, MaxW=3,
                                 MaxSkip=1 if (k > 1 and size == 2) else 0), n, s + 20 + i,
                           adversarial=100 if (size == 3 and ms >= 5) else 0)
        for j, cfg in enumerate((dict(NS=3, K=3, MaxScript=8, MaxSize=2, UseTimer=True, MaxW=3, Runs=250),
                                 dict(NS=3, K=2, MaxScript=6, MaxSize=3, UseTimer=True, MaxW=3, Runs=250),
                                 dict(NS=2, K=3, MaxScript=7, MaxSize=1, UseTimer=False, MaxW=3, Runs=200),
                                 dict(NS=3, K=3, MaxScript=9, MaxSize=4, UseTimer=True, MaxW=4, Runs=200))):
            traces(c, cfg, s + 50 + j, selftest=(j == 0))
    c02_faults.run(c)
    c.assumptions.extend([
        "every runner delivers its barriers in increasing order, each id at most once; a runner may skip one id (MaxSkip) and stops after an error",
        "one operator, all event keys in one key group, DKV memtables at their default size (nothing is flushed)",
        "the reference handler writes one state entry per event / timer expiry and sets one timer per event",
    ])


def replay(c, path):
    payload = json.load(open(path))
    if payload.get("arm") == "faults":
        c02_faults.replay(c, payload)
        return
    if payload.get("mode") == "align-trace":
        # the recorded run in the file documents what was observed; the replay records the same seeded runs again
        # on the current tree (same scripts, same jitter seeds) and validates the new recording
        cfg = payload["config"]
        traces(c, cfg, payload["seed"], selftest=False)
        return
    res = run_align(c, payload, "replay")
    c.add_harness(res, payload, "replay " + path)
