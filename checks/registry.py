"""Registry of claimed checks -> MANIFEST.json (bin/mkmanifest.py)."""
ENGINES = [
    dict(name="Fetcher", path="spec/Fetcher.tla", serves_properties=["C20", "C04"],
         kind_free_text="TLA+ spec of ReorderFetcher/ReorderBuffer/EventBatcher at critical-section granularity; TLC exhaustive + behaviours replayed through scheduler gates (harness/cmd/fetcher)"),
]
NOT_APPLICABLE = {}
CHECKS = {
    "C20": dict(
        engine="Fetcher",
        technique="TLA+/TLC model checking of Fetcher.tla + Batcher.tla; TLC-generated schedules replayed on the real batching package through verif-tag gates",
        text="TLC exhaustively checks InOrder/NoLoss over every interleaving of caller, time-out and fetch goroutines for small constants; "
             "hundreds of TLC-simulated schedules (incl. schedules only the unrepaired non-atomic design admits) are forced onto the real "
             "ReorderFetcher with gates and the emitted sequence is compared after every action.",
        note="Bounded constants (<=6 items, batch<=3, buffer<=3); gate placement (5 hook points) defines the schedule granularity; fetch is the identity; FakeTimer semantics for expiry."),
}

# family fragments: checks/reg_<family>.py may define ENGINES (list), CHECKS (dict), NOT_APPLICABLE (dict)
import glob as _glob, importlib.util as _u, os as _os
# only integrated families are listed in MANIFEST.json
INTEGRATED = ["dkv", "partition", "compaction", "align", "sstwal", "ordered", "timers", "cluster", "store", "keyedstate", "rescale", "savepoint", "pipeline", "splitter", "membership"]
for _f in sorted(_glob.glob(_os.path.join(_os.path.dirname(__file__), "reg_*.py"))):
    if _os.path.basename(_f)[4:-3] not in INTEGRATED:
        continue
    _spec = _u.spec_from_file_location(_os.path.basename(_f)[:-3], _f)
    _m = _u.module_from_spec(_spec)
    _spec.loader.exec_module(_m)
    ENGINES.extend(getattr(_m, "ENGINES", []))
    CHECKS.update(getattr(_m, "CHECKS", {}))
    NOT_APPLICABLE.update(getattr(_m, "NOT_APPLICABLE", {}))
