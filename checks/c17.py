"""C17 On-disk tables and write-ahead logs round-trip exactly.
spec/SstWal.tla (TableWriter.Write/WriteRun chunking, sparse index, Search, bloom as a set, re-open from
Document -- entry granularity) and spec/SstWalLog.tla (wal.Writer segment list + Reader.All arithmetic)."""
import json
import os
import vlib

RULE = ("TLC checks the transcribed algorithms (chunking with 1.5x look-ahead, every-16th sparse index + binary search + "
        "bounded scan, bloom as a set, WAL segment list with Cut/Truncate/Rotate/Save and the skip arithmetic of ReadAll) "
        "against the abstract meaning for every run / call string within small bounds; spec-generated cases (structured "
        "runs exhaustively, random walks, WAL call strings) are replayed on the real sst.TableWriter / sst.Table / "
        "wal.Writer / wal.Reader over the memory file system with adversarial byte concretisation, every universe key "
        "looked up in every table and used as a scan prefix, before and after re-opening from the documents")

DESIGN_INVS = ["PartitionOK", "NoEmptyChunk", "RangesOK", "GetOK", "ScanOK", "BloomOK", "TypeOK"]
NOPAT = dict(Ns="@{}", KPs="@{}", TPs="@{}", VPs="@{}", DerivedJs="@{}")

# family-local known findings (same format as findings/known.jsonl); merged into c.known
KNOWN_LOCAL = os.path.join(vlib.ROOT, "findings", "known_sstwal.jsonl")


def sset(xs):
    return "@{" + ", ".join(str(x) for x in xs) + "}"


def load_local_known(c):
    have = {k.get("id") for k in c.known}
    if os.path.exists(KNOWN_LOCAL):
        for line in open(KNOWN_LOCAL):
            line = line.strip()
            if line and not line.startswith("#") and not line.startswith("fixed:"):
                k = json.loads(line)
                if k.get("property") == c.prop and k.get("id") not in have:
                    c.known.append(k)


# ------------------------------------------------------------------ SST ----
def sst_design(c, consts, label, timeout=900):
    """exhaustive: every run over a tiny universe, every target, every forced false positive"""
    r = vlib.run_tlc("SstWal", cfg=dict(constants=consts, invariants=DESIGN_INVS, view="view"), timeout=timeout)
    c.add_tlc(r, "SstWal design " + label)


def sst_replay(c, behs, consts, label):
    payload = dict(property="C17", seed=c.seed, behaviours=behs,
                   config=dict(mode="sst", A=consts["A"], L=consts["L"], BlockLen=consts["BlockLen"], TailLen=consts["TailLen"]))
    res = vlib.run_harness("sstwal", payload)
    c.add_harness(res, payload, label)
    return res


def sst_pattern(c, consts, label, timeout=900):
    """structured runs, exhaustively: every distinct history is printed once (hist is part of the state)"""
    r = vlib.run_tlc("SstWal", cfg=dict(constants=dict(consts, Family="pattern"), invariants=["Dump"]), workers=1, timeout=timeout,
                     name="SstWal-pattern")
    c.add_tlc(r, "SstWal pattern generation " + label)
    if not r.behaviours:
        raise vlib.MachineryError("no pattern behaviours generated\n" + r.out[-2000:])
    res = sst_replay(c, r.behaviours, consts, "SstWal pattern replay " + label)
    b = r.behaviours[len(r.behaviours) // 2]
    c.sample(dict(kind="SstWal pattern behaviour (abridged)", steps=[{k: (v if k not in ("keys", "scans") else "...") for k, v in st.items()} for st in b]))
    return res


def sst_walk(c, consts, num, seed, label):
    behs, r = vlib.gen_behaviours("SstWal", dict(consts, Family="walk"), num, 200, seed, timeout=900)
    c.add_tlc(r, "SstWal walk generation " + label, must_hold=False)
    if not behs:
        raise vlib.MachineryError("no walk behaviours generated")
    return sst_replay(c, behs, consts, "SstWal walk replay " + label)


# ------------------------------------------------------------------ WAL ----
def wal_design(c, consts, label):
    r = vlib.run_tlc("SstWalLog", cfg=dict(constants=dict(consts, Dev_CarriedLatestZero=False), invariants=["ReadOK", "KeepsOK", "TypeOK"], view="view"),
                     timeout=900)
    c.add_tlc(r, "SstWalLog design (carried segments keep their number) " + label)
    r = vlib.run_tlc("SstWalLog", cfg=dict(constants=dict(consts, Dev_CarriedLatestZero=True), invariants=["ReadOK"], view="view"), timeout=900)
    c.add_tlc(r, "SstWalLog with Dev_CarriedLatestZero (counterexample expected, not a verdict) " + label, must_hold=False)
    c.extra["wal_dev_counterexample"] = r.violated


def wal_replay(c, behs, label):
    payload = dict(property="C17", seed=c.seed, behaviours=behs, config=dict(mode="wal"))
    res = vlib.run_harness("sstwal", payload)
    c.add_harness(res, payload, label)
    return res


def wal_exhaustive(c, consts, label):
    """every call string within the bound, each printed once"""
    r = vlib.run_tlc("SstWalLog", cfg=dict(constants=dict(consts, Dev_CarriedLatestZero=True), invariants=["Dump"]), workers=1, timeout=900,
                     name="SstWalLog-all")
    c.add_tlc(r, "SstWalLog call-string enumeration " + label)
    if not r.behaviours:
        raise vlib.MachineryError("no WAL behaviours generated")
    c.sample(dict(kind="SstWalLog behaviour", steps=r.behaviours[len(r.behaviours) // 2]))
    return wal_replay(c, r.behaviours, "SstWalLog exhaustive replay " + label)


def wal_walk(c, consts, num, seed, label):
    behs, r = vlib.gen_behaviours("SstWalLog", dict(consts, Dev_CarriedLatestZero=True), num, 100, seed)
    c.add_tlc(r, "SstWalLog walk generation " + label, must_hold=False)
    return wal_replay(c, behs, "SstWalLog walk replay " + label)


# ------------------------------------------------------------------ run ----
BASE = dict(A=4, L=3, BlockLen=1, TailLen=3, VLens=sset([0, 3, 60]), Targets=sset([1, 90, 250, 1000]), Spacing=16, MaxN=52,
            Tombs="@{TRUE, FALSE}", Skip=3, MaxLen=400, **NOPAT)
TINY = dict(A=2, L=2, BlockLen=1, TailLen=2, VLens=sset([0, 30]), Targets=sset([1, 40, 100]), Spacing=2, MaxN=7, Family="design",
            Tombs="@{TRUE, FALSE}", Skip=7, MaxLen=1000, **NOPAT)


def need(c, res_list, counter, label):
    if sum(r.get("counters", {}).get(counter, 0) for r in res_list) == 0:
        c.errors.append("vacuous: counter %s is 0 over %s" % (counter, label))


def run(c):
    load_local_known(c)
    quick = c.tier == "quick"
    sst_res, wal_res = [], []

    # 1. the transcription against the abstract meaning, exhaustively over a tiny universe
    sst_design(c, TINY, "U=7 Spacing=2")
    if not quick:
        sst_design(c, dict(TINY, Spacing=1, Targets=sset([1, 40, 60, 100])), "U=7 Spacing=1")
        sst_design(c, dict(TINY, Spacing=3, Targets=sset([30, 50, 75])), "U=7 Spacing=3")
        sst_design(c, dict(TINY, Targets=sset([1]), DerivedJs=sset([1, 2, 3, 4])), "U=7 Spacing=2 derived targets")
        sst_design(c, dict(TINY, A=3, L=2, MaxN=13, Skip=13, Spacing=3, Tombs=sset(["FALSE"]), VLens=sset([20]), Targets=sset([45, 100])), "U=13 puts only Spacing=3")
        sst_design(c, dict(TINY, A=3, L=2, MaxN=13, Skip=13, Spacing=4, Tombs=sset(["TRUE"]), VLens=sset([0]), Targets=sset([20, 70])), "U=13 tombstones only Spacing=4")

    # 2. structured runs with the real spacing 16: lengths around the index boundaries x key / tombstone / size patterns
    if quick:
        ns = [0, 1, 2, 15, 16, 17, 31, 32, 33, 34, 47, 48, 49]
        pat = dict(BASE, Ns=sset(ns), KPs=sset([0, 1, 2]), TPs=sset([0, 2, 3]), VPs=sset([0, 2]), Targets=sset([1, 90, 1000]))
        sst_res.append(sst_pattern(c, pat, "n around 16/32/48"))
        pat2 = dict(BASE, Ns=sset([3, 7, 18, 35]), KPs=sset([1]), TPs=sset([1, 2]), VPs=sset([1, 3]), Targets=sset([250]), DerivedJs=sset([1, 2, 5]))
        sst_res.append(sst_pattern(c, pat2, "size patterns straddling target and 1.5x"))
    else:
        pat = dict(BASE, Ns=sset(range(0, 53)), KPs=sset([0, 1, 2]), TPs=sset([0, 1, 2, 3]), VPs=sset([0, 2]), Targets=sset([1, 90, 1000]))
        sst_res.append(sst_pattern(c, pat, "n = 0..52", timeout=2400))
        pat2 = dict(BASE, Ns=sset(range(0, 41)), KPs=sset([1, 2]), TPs=sset([0, 2]), VPs=sset([1, 3]), Targets=sset([60, 250]), DerivedJs=sset([1, 2, 4, 9]))
        sst_res.append(sst_pattern(c, pat2, "size patterns straddling target and 1.5x", timeout=2400))

    # 3. random walks (irregular gaps, tombstones, sizes; any absent key as forced false positive)
    walks = [(BASE, 150 if quick else 2500), (dict(BASE, BlockLen=2, TailLen=2, Targets=sset([40, 600]), DerivedJs=sset([2, 5])), 100 if quick else 2000),
             (dict(BASE, A=3, L=3, MaxN=40, Skip=2, VLens=sset([0, 1, 200]), Targets=sset([30, 120, 500, 2000])), 100 if quick else 2000)]
    for i, (consts, num) in enumerate(walks):
        sst_res.append(sst_walk(c, consts, num, c.seed * 1000 + i, "#%d" % i))

    # 4. WAL
    wc = dict(S0s=sset([1, 4]), MaxOps=7, MaxRot=2, MaxLen=1000)
    wal_design(c, wc if quick else dict(wc, MaxOps=8), "MaxOps=%d" % (7 if quick else 8))
    if not quick:
        wal_design(c, dict(wc, S0s=sset([4]), MaxOps=9, MaxRot=3), "MaxOps=9 MaxRot=3")
    wal_res.append(wal_exhaustive(c, dict(wc, S0s=sset([1]), MaxOps=5 if quick else 6), "MaxOps=%d" % (5 if quick else 6)))
    wal_res.append(wal_walk(c, dict(wc, MaxOps=12, MaxRot=3), 300 if quick else 3000, c.seed * 1000 + 50, "MaxOps=12"))
    wal_res.append(wal_walk(c, dict(wc, S0s=sset([3]), MaxOps=20, MaxRot=4), 200 if quick else 2000, c.seed * 1000 + 51, "MaxOps=20"))

    for ctr in ("gets", "scans", "split_runs", "fp_achieved_tables", "fp_get_before_first", "fp_get_between", "fp_get_after_last"):
        need(c, sst_res, ctr, "table replays")
    need(c, wal_res, "wal_reads", "WAL replays")
    c.exhaustive = True
    c.assumptions += [
        "byte-level encodings (fields, footer, bloom bit layout) are exercised by the round trip but not modelled",
        "target size 0 is excluded (WriteRun does not terminate on it)",
        "WAL start markers range over [largest truncation point, last appended]; a marker below the truncation point makes Reader.All panic by design",
        "WAL entries are compared by kind/key/value (Reader.All does not report the sequence number of deletes)",
    ]
    info = {}
    for r in sst_res:
        for k, v in r.get("counters", {}).items():
            if k.startswith("info_"):
                info[k] = info.get(k, 0) + v
    c.extra["info_counters"] = info


def replay(c, path):
    load_local_known(c)
    payload = json.load(open(path))
    payload.pop("violation", None)
    res = vlib.run_harness("sstwal", payload)
    c.add_harness(res, payload, "replay " + path)
