"""Registry fragment of the `store` family (C12, C13): spec/Store.tla,
harness/cmd/store, harness/cmd/storejob, checks/c12.py, checks/c13.py, checks/storelib.py."""
ENGINES = [
    dict(name="Store", path="spec/Store.tla", serves_properties=["C12", "C13"],
         kind_free_text="TLA+ spec of the job checkpoint store (snapshots.Store: create / savepoint / operator and runner acks with any id and "
                        "sender, asynchronous publication = Write, Remove, notification; crash + LoadCheckpoint over the listing order of "
                        "pathSegment names; RetainOnly on the operators' DKVs) at API-call and storage-operation granularity; TLC exhaustive + "
                        "transition-cover and simulated behaviours replayed on the real snapshots.Store over a gated real LocalDirectory "
                        "(harness/cmd/store); Burst mode (back-to-back acknowledgements) for deep overlap of publications; RpcMode = the "
                        "job -> operator requests as separate steps, replayed on the real jobs.Job (harness/cmd/storejob); deviation switches "
                        "Pre_AckUnlocked / Pre_ForwardConcurrent / Pre_NotifyUnordered generate the schedules only a store or job without the "
                        "respective serialisation admits"),
]
CHECKS = {
    "C12": dict(
        engine="Store",
        technique="TLA+/TLC model checking of Store.tla; TLC-generated call strings (transition cover of the bounded graph + simulation) replayed "
                  "call by call on the real snapshots.Store with a gated StorageLocation, published files decoded with snapshotpb; concurrent "
                  "entry of calls from several goroutines with the harness-owned splitter's Checkpoint() gated; late acknowledgements of the previous assembly: spec/Restart.tla (NoOldAssemblyPublication, Dev_DiscardAtRunning) replayed on the real jobs.Job with fake nodes whose acknowledgements are delivered at every point of the following start() (checks/restartlib.py)",
        text="TLC exhaustively checks OnlyWhenAllAcked, PublishedWhole, AtMostOnePending and IdsStrictlyIncrease over every sequence of "
             "create / savepoint / operator-ack / runner-ack calls (duplicates, late and future ids, foreign senders), asynchronous publication "
             "steps and store restarts within the bounds; a transition cover for the 1x1 assembly and thousands of simulated call strings for "
             "1-3 operators x 1-3 runners are executed on the real Store; after every call the harness compares whether the store decided to "
             "publish, the decoded snapshot file (one entry per operator, per runner the split states of exactly one acknowledgement, splitter "
             "state), the ids handed out and CurrentCheckpoint with what the property demands. Concurrent entry: the spec with "
             "Pre_AckUnlocked (an acknowledgement releases the lock between its bookkeeping and finishSnapshot) yields every call that could "
             "enter while the completing acknowledgement is still inside finishSnapshot (repeated, late, foreign acknowledgements, create, a "
             "publication step); each such schedule is forced onto the real store from separate goroutines while the splitter's "
             "Checkpoint() is held: the store must block the call (serialise) or refuse it, and no checkpoint id may be published twice "
             "(PublishedOnce).",
        note="Bounds: <= 3 operators, <= 3 runners, <= 4 ids per behaviour, acks name the last id handed out -1/0/+1, <= 2 restarts; exhaustive "
             "call strings to depth 9-11, whole state graph for 2-3 ids. Ids handed out before a crash but never published are not durable "
             "anywhere and may be handed out again (checked: every new id exceeds every id of the same incarnation and every id ever published). "
             "Operator acks returning nil for unknown/duplicate operators and error texts are not part of the property. Concurrent entry is "
             "explored only at the one point a harness-owned interface gives without a hook (inside splitter.Checkpoint()), for the 1x1 "
             "assembly (thorough: 2 operators, resumed store); 'serialised by the code' is concluded from a 60 ms quiet period, so a racing "
             "call that needs longer to reach the store on a loaded machine is missed, never misjudged."),
    "C13": dict(
        engine="Store",
        technique="TLA+/TLC model checking of Store.tla; TLC-generated publication schedules and crash points forced onto the real snapshots.Store "
                  "through a gated real LocalDirectory and the snapshots.notify gate; real LoadCheckpoint on materialised directory states; "
                  "retained-sets delivered to real dkv.DBs; deep overlap (Burst) against an unbuffered channel whose subscriber receives only "
                  "when the model delivers; the job -> operator boundary on the real jobs.Job (in-process cluster) with held "
                  "UpdateRetainedCheckpoints requests; one cut per restart: spec/Restart.tla (start() stepped, publication in two steps) replayed on the real jobs.Job with fake nodes, the snapshot write and every step of start() gated (checks/restartlib.py)",
        text="TLC exhaustively checks LoadsNewest, NewestSurvives, RetainNamesNewest, OperatorsKeepNewest and CurrentIsNewest over every order of "
             "the write / delete / notify steps of up to 3 overlapping publications and a crash after any storage operation; the listing order "
             "of the base64url file names is computed in the spec and cross-checked against the real LocalDirectory.List at every restart. A "
             "transition cover and simulated schedules are replayed on the real Store (restart = new Store + LoadCheckpoint on the same real "
             "directory), every delivered retained-set is applied to a real dkv.DB per operator, and every set of 1-3 snapshot ids in windows "
             "around base64 character-class boundaries (1..24, 50.., 4088.., 65524.., 2^18, 2^24) is materialised and loaded. Deep overlap: "
             "with back-to-back acknowledgements (Burst) 4-5 checkpoints are in flight at once, their writes land in every order, and the "
             "transition cover is replayed (a) against an unbuffered retained-checkpoints channel whose subscriber is busy until the model "
             "delivers and (b) with the notification goroutines released in every order (the code must serialise). The job -> operator "
             "boundary (RpcMode: Forward / OpHandle) is replayed on the real jobs.Job of harness/cluster: UpdateRetainedCheckpoints requests "
             "are held at the operator adapter, and the schedules of a job that forwards concurrently (Pre_ForwardConcurrent) must not be "
             "reachable: per operator the retained-sets handled never go back to an older checkpoint, no request names a checkpoint whose "
             "snapshot is not written, and at rest the last one names the newest completed checkpoint.",
        note="Bounds: <= 3 publications in flight with the full acknowledgement alphabet (<= 4 with back-to-back acknowledgements), real jobs.Job arm: "
             "1-2 workers, <= 4 checkpoints, <= 2 publications in flight, no crashes; <= 3 restarts, ids < 2^28 in the spec's name order; the operator takes its DKV checkpoint at "
             "its first counted ack; DKV state is observed through its checkpoints document only (file retention inside the DKV is C09); "
             "savepoint artifact copies are not interleaved with crashes (C14). Notification goroutine order is controlled through the verif "
             "hook snapshots.notify; 'serialised by the code' is concluded from a 60 ms quiet period."),
}
