"""C15 The job runs only on a full, live assembly and checkpointing resumes.

spec/Membership.tla (registry / liveness / status machine of jobs.Job, asynchronous start(), the store's pending
checkpoint and registered splitters, the operators' in-flight checkpoint) checked by TLC (safety exhaustively,
liveness under fairness on the small unconstrained variant), bound to the real code by harness/cmd/membership:
  (a) behaviours replayed on the REAL jobs.Job + snapshots.Store with fake nodes (every Deploy / StartCheckpoint
      target set judged; model-free epilogue: back to Running and a NEW checkpoint published);
  (b) fault skeletons extracted from the same behaviours executed on REAL operators / source runners
      (one job, workers come and go); the progress clause is REQUIRED there.
"""
import hashlib
import json
import vlib

RULE = ("TLC checks DeployOnlyToLiveFull / StopsUsingDeadAssembly / RedeployFromNewest / NoLeftover in every reachable state "
        "for WorkerCount 1-2 with up to 2 standby workers, and RunsAgain / CheckpointsResume under weak fairness on the "
        "unconstrained small spec; simulated behaviours are replayed on the real jobs.Job (fake nodes record every RPC), each "
        "followed by a model-free epilogue that demands Running + a new published checkpoint; fault skeletons of the behaviours "
        "are executed on real workers where a dead system is a violation")

DEVS = dict(Dev_PendingNotCleared=False, Dev_OpKeepsCheckpoint=False, Dev_SplitterAppended=False,
            Dev_TickerNotRecreated=False, Dev_StaleCheckpointSurvivesRedeploy=False)
TLC_WORKERS = 8   # the machine is shared
FAULTS = '@{"Kill", "Deregister"}'


def consts(W, N, ev, boot=0, flaky=1, maxlen=1000, live=False, **dev):
    c = dict(W=W, N=N, MaxEv=ev, MaxFlaky=flaky, Boot=boot, MaxLen=maxlen, Live=live, Focus=False, Faults=FAULTS)
    c.update(DEVS)
    c.update(dev)
    return c


def tlc_safety(c, cfgs, timeout):
    for k in cfgs:
        r = vlib.run_tlc("Membership", cfg=dict(constants=k, invariants=["Safety"], view="view"), workers=TLC_WORKERS, timeout=timeout)
        c.add_tlc(r, "Membership safety W=%d N=%d MaxEv=%d Boot=%d" % (k["W"], k["N"], k["MaxEv"], k["Boot"]))


def tlc_liveness(c, cfgs, timeout):
    for k in cfgs:
        r = vlib.run_tlc("Membership", cfg=dict(spec="LiveSpec", constants=k, properties=["RunsAgain", "CheckpointsResume"],
                                                constraint="LiveConstraint"), workers=TLC_WORKERS, timeout=timeout)
        c.add_tlc(r, "Membership liveness (RunsAgain, CheckpointsResume) W=%d N=%d faults=%d" % (k["W"], k["N"], k["MaxEv"]))
        # the same check must FAIL for each named leftover: the liveness property is not vacuous
    k = cfgs[0]
    devs = ("Dev_PendingNotCleared", "Dev_OpKeepsCheckpoint", "Dev_SplitterAppended", "Dev_TickerNotRecreated", "Dev_StaleCheckpointSurvivesRedeploy")
    for d in (devs if c.tier != "quick" else devs[c.seed % 5:c.seed % 5 + 1]):
        kk = dict(k)
        kk[d] = True
        r = vlib.run_tlc("Membership", cfg=dict(spec="LiveSpec", constants=kk, properties=["CheckpointsResume"], constraint="LiveConstraint"),
                         workers=TLC_WORKERS, timeout=timeout)
        c.add_tlc(r, "Membership liveness with %s (must be violated)" % d, must_hold=False)
        if r.violated is None and not (r.error and "Temporal" in r.error) and "Temporal properties were violated" not in r.out:
            c.errors.append("liveness check is vacuous: CheckpointsResume holds with %s" % d)


def replay_fake(c, k, behs, label):
    if not behs:
        raise vlib.MachineryError("no behaviours generated for " + label)
    payload = dict(property="C15", seed=c.seed, config=dict(k, mode="fake", Chunk=40, StopAfterViolations=3), behaviours=behs)
    res = vlib.run_harness("membership", payload)
    c.add_harness(res, payload, label)
    return res


def fake_arm(c, gens, num):
    allb = []
    for i, k in enumerate(gens):
        behs, r = vlib.gen_behaviours("Membership", k, num, k["MaxLen"] + 5, c.seed * 1000 + i, timeout=300)
        replay_fake(c, k, behs, "fake nodes W=%d N=%d Boot=%d (%d behaviours)" % (k["W"], k["N"], k["Boot"], len(behs)))
        allb.append((k, behs))
    return allb


def enough(c):
    """a broken tree is decided: further arms would only cost time (every arm is bounded, but the bounds add up)"""
    if len(c.violations) >= 3:
        c.extra.setdefault("arms_skipped_after_violations", 0)
        c.extra["arms_skipped_after_violations"] += 1
        return True
    return False


def adversarial(c, combos):
    """Shortest schedules (breadth-first, with the VIEW) on which the design with ONE named leftover of the old assembly
    gets stuck; the real code must pass them: replayed leniently (the deviating model's predictions are left as soon as
    they differ) and judged by the model-free epilogue."""
    stale = []
    for (W, N, ev, boot, dev, faults) in combos:
        if enough(c):
            break
        k = consts(W, N, ev, boot=boot, flaky=2)
        k[dev] = True
        k["Focus"] = True
        k["Faults"] = faults
        r = vlib.run_tlc("Membership", cfg=dict(constants=k, invariants=["CexStop"], view="view"), workers=4, timeout=200, name="Membership-cex")
        c.add_tlc(r, "Membership shortest counterexample with %s W=%d faults=%s" % (dev, W, faults[1:]), must_hold=False)
        if r.violated != "CexStop" or not r.behaviours:
            raise vlib.MachineryError("no counterexample with %s (W=%d): %s %s" % (dev, W, r.violated, r.error))
        if dev == "Dev_StaleCheckpointSurvivesRedeploy" and W >= 2:
            stale += [(W, b) for b in r.behaviours]
        behs = [strip_dev(b) for b in r.behaviours]
        kk = consts(W, N, ev, boot=boot, flaky=2)
        payload = dict(property="C15", seed=c.seed, config=dict(kk, mode="fake", Chunk=40, Lenient=True, StopAfterViolations=3), behaviours=behs)
        res = vlib.run_harness("membership", payload)
        c.add_harness(res, payload, "fake nodes, schedule that wedges the design with %s (W=%d, %s)" % (dev, W, faults[1:]))
    return stale


def strip_dev(beh):
    """a Dev_ behaviour carries the unrepaired model's predictions; keep the prefix up to (not including) the first
    step whose prediction depends on the leftover (Tick that creates nothing although no checkpoint of the running
    assembly is pending, an ack that panics); the epilogue of the replayer then demands progress"""
    out = []
    for s in beh:
        if s["a"] == "Tick" and not s["created"]:
            break
        if s["a"] in ("SrCkpt", "OpBarrier") and s.get("ack", {}).get("panic"):
            break
        out.append(s)
    return out


# ---------------------------------------------------------------- arm (b): fault skeletons ----
def skeletons(k, behs):
    """(kind, worker, ctx, standby) tuples per behaviour: what kind of fault struck which worker in which situation"""
    out = []
    for b in behs:
        sk = []
        for s in b:
            if s["a"] in ("Kill", "Deregister") and s["ctx"]["member"]:
                cx = s["ctx"]
                where = "deploying" if cx["ph"] == "deploying" else "pending" if cx["pending"] else "idle"
                sk.append(("kill" if s["a"] == "Kill" else "stop", (s["i"] - 1) % k["W"], where, min(cx["standby"], 1)))
        sk = tuple(sk[:2])
        if sk:
            out.append(sk)
    return out


def scenario(W, sk, variant):
    """turn a fault skeleton into steps for the real cluster"""
    def S(a, **kw):
        return dict(a=a, **kw)
    standby = max(f[3] for f in sk)
    steps = []
    first = sk[0]
    if first[2] == "deploying":
        steps += [S("bootheld", workers=W + standby, w=(first[1] + 1) % W if W > 1 and variant % 2 else first[1])]
    else:
        steps += [S("boot", workers=W + standby), S("checkpoint")]
    for n, (kind, w, where, _) in enumerate(sk):
        v = variant + n
        mode = "hang" if v % 2 == 0 else "fail"
        if n > 0:
            steps += [S("recover")]
            if where == "deploying":
                where = "idle"      # a second deployment in flight cannot be staged on real workers: strike after it
            w = None            # workers have changed: strike the first member of whatever runs now
        if where == "pending":
            holds = ["opack:%d", "srack:%d"]
            tgt = 0 if w is None else w
            other = (tgt + 1) % W
            if W > 1:
                holds.append("barrier:%d->%d" % (tgt, other))
            h = holds[v % len(holds)]
            if "%d" in h:
                h = h % (other if (v // 3) % 2 else tgt)
            steps += [S("hold", key=h), S("tick", **{"await": h})] if n == 0 else [S("tickpending")]
        if kind == "kill":
            steps += [S("kill", w=w, mode=mode) if w is not None else S("killmember", mode=mode)]
        else:
            steps += [S("stop", w=w) if w is not None else S("stopmember")]
        if where in ("pending", "deploying"):
            steps += [S("release")]
    return steps


HAND = {
    # a live worker whose heartbeats are delayed is replaced by the standby, comes back, and is redeployed later
    "expire-live-then-return": lambda W: [dict(a="boot", workers=W + 1), dict(a="checkpoint"), dict(a="hold", key="opack:0"),
                                          dict(a="tick", **{"await": "opack:0"}), dict(a="mute", w=0), dict(a="advance"), dict(a="heartbeat"),
                                          dict(a="advance"), dict(a="heartbeat"), dict(a="heartbeat"), dict(a="recover"), dict(a="unmute", w=0),
                                          dict(a="release"), dict(a="heartbeat"), dict(a="killmember", mode="hang")],
    # an operator in the middle of barrier alignment survives the loss of the other worker and is redeployed in place
    "kill-barrier-partial": lambda W: ([dict(a="boot", workers=W), dict(a="checkpoint"), dict(a="hold", key="barrier:1->0"),
                                        dict(a="tick", **{"await": "barrier:1->0"}), dict(a="kill", w=1, mode="hang"), dict(a="release")] if W > 1 else
                                       [dict(a="boot", workers=1), dict(a="checkpoint"), dict(a="hold", key="srack:0"),
                                        dict(a="tick", **{"await": "srack:0"}), dict(a="kill", w=0, mode="hang"), dict(a="release")]),
    "kill-all": lambda W: [dict(a="boot", workers=W), dict(a="checkpoint")] + [dict(a="kill", w=i, mode="fail") for i in range(W)],
    "stop-then-kill-replacement": lambda W: [dict(a="boot", workers=W), dict(a="checkpoint"), dict(a="stop", w=0), dict(a="recover"),
                                             dict(a="tickpending"), dict(a="killmember", mode="hang")],
}


def late_ack(beh):
    """(survivor operator, lost node, standby present) of a behaviour in which a surviving operator's acknowledgement of a
    checkpoint arrives after the new start has discarded it, while that operator's Deploy is outstanding; None otherwise"""
    for i, s in enumerate(beh):
        if s["a"] == "OpBarrier" and s.get("all") and not s["ack"]["ok"] and s.get("redeploying"):
            faults = [f for f in beh[:i] if f["a"] in ("Kill", "Deregister") and f["ctx"]["member"]]
            if faults:
                f = faults[-1]
                return s["o"], (f["kind"], f["i"]), f["ctx"]["standby"] > 0
    return None


def late_ack_scenarios(W, stale, variants):
    """witness schedules of Dev_StaleCheckpointSurvivesRedeploy on real workers: survivor S's acknowledgement is held in the
    harness-owned proto.Job adapter, worker X is lost (graceful stop / kill with failing calls / kill with hanging calls; standby
    or a fresh worker), the job re-assembles and its Deploy reaches S (still busy), the acknowledgement is released - the
    job refuses it - and S is redeployed. A worker is an operator AND a runner: X is the lost node's worker unless that is S's."""
    out, seen, survivors = [], set(), []
    for w, b in stale:
        la = late_ack(b)
        if w != W or la is None:
            continue
        if la[0] not in survivors:
            survivors.append(la[0])
        if variants < 3 and survivors.index(la[0]) > 0:
            continue   # quick: one survivor position
        S = la[0] - 1
        X = la[1][1] - 1
        if X == S or X >= W:
            X = (S + 1) % W
        for n, standby in enumerate((1, 0) if la[2] else (0, 1)):
            for kind in ("kill-hang", "stop", "kill-fail")[:3 if n == 0 else 1]:
                if (S, X, standby, kind) in seen:
                    continue
                seen.add((S, X, standby, kind))
                fault = dict(a="stop", w=X, nowait=True) if kind == "stop" else dict(a="kill", w=X, mode=kind[5:])
                # X's barrier reaches S last (the refusal then goes back to the worker that is lost anyway, S stays a survivor)
                bar, ack = "barrier:%d->%d" % (X, S), "opack:%d" % S
                sc = [dict(a="boot", workers=W + standby), dict(a="checkpoint"), dict(a="hold", key=bar), dict(a="hold", key=ack),
                      dict(a="tick", delivered="%d->%d" % (S, S), **{"await": bar}), dict(a="unhold", key=bar, **{"await": ack}), fault,
                      dict(a="awaitdeploy", w=S), dict(a="release")]
                out.append(sc)
                if kind == "kill-hang" and n == 0:
                    out.append([st for st in sc if st["a"] != "checkpoint"])   # the same before any checkpoint has completed: nothing to restore from
    return out


def real_arm(c, allb, per_w, variants, stale=()):
    for W in (1, 2):
        if enough(c):
            break
        sks = []
        for k, behs in allb:
            if k["W"] == W:
                sks += skeletons(k, behs)
        uniq = sorted(set(sks), key=lambda s: hashlib.sha1((repr(s) + str(c.seed)).encode()).hexdigest())
        # cover every (kind, ctx, standby) class first
        seen, chosen = set(), []
        for s in uniq:
            cls = tuple((f[0], f[2], f[3]) for f in s)
            if cls not in seen:
                seen.add(cls)
                chosen.append(s)
        for s in uniq:
            if len(chosen) >= per_w:
                break
            if s not in chosen:
                chosen.append(s)
        chosen = chosen[:per_w]
        behs = []
        for i, s in enumerate(chosen):
            for v in range(variants):
                behs.append(scenario(W, s, c.seed + i + v * 3))
        for name in sorted(HAND):
            behs.append(HAND[name](W))
        late = late_ack_scenarios(W, stale, 2 if c.tier == "quick" else 3) if W >= 2 else []
        if W >= 2 and not late:
            c.errors.append("real workers W=%d: no late-acknowledgement schedule was derived from the Dev_StaleCheckpointSurvivesRedeploy witnesses" % W)
        behs = late + behs     # first: they are the cheapest way to a verdict on a tree with that defect
        # bounded: a scenario on a healthy tree takes ~1 s; a child is killed after 150 s; after 3 violations the rest is skipped
        payload = dict(property="C15", seed=c.seed, config=dict(W=W, mode="real", Chunk=1, ChildTimeoutS=150, StopAfterViolations=3,
                                                                BudgetS=600 if c.tier == "quick" else 3000), behaviours=behs)
        res = vlib.run_harness("membership", payload, timeout=3000)
        c.add_harness(res, payload, "real workers W=%d: %d late-acknowledgement schedules + %d fault skeletons from TLC behaviours + %d fixed" % (W, len(late), len(chosen), len(HAND)))
        cn = res.get("counters", {})
        if cn.get("skipped_budget"):
            c.errors.append("real workers W=%d: time budget exhausted, %d scenarios not run" % (W, cn["skipped_budget"]))
        if late and not res.get("violations") and cn.get("late_ack_staged", 0) == 0:
            c.errors.append("real workers W=%d: none of the %d late-acknowledgement schedules could be staged" % (W, len(late)))
        c.extra.setdefault("skeletons", {})["W%d" % W] = [list(map(list, s)) for s in chosen]
        if res.get("counters", {}).get("staging_skipped", 0) * 2 > len(behs):
            c.errors.append("real workers W=%d: %d of %d scenarios could not stage their fault" % (W, res["counters"]["staging_skipped"], len(behs)))


def selftest(c, k, behs):
    """binding self-test: tell the replayer a wrong WorkerCount; it must object to the first deployment"""
    behs = [b for b in behs if any(s["a"] == "StartAssembly" for s in b)][:3]
    payload = dict(property="C15-selftest", seed=c.seed, config=dict(k, CheckW=k["W"] + 1, mode="fake"), behaviours=behs)
    res = vlib.run_harness("membership", payload)
    if not res.get("violations"):
        c.errors.append("self-test: the replayer accepted deployments to %d nodes per kind when told WorkerCount is %d" % (k["W"], k["W"] + 1))


def run(c):
    quick = c.tier == "quick"
    if quick:
        safety = [consts(1, 2, 6), consts(1, 3, 5, boot=1), consts(2, 2, 5, boot=2)]
        live = [consts(1, 2, 1, live=True), consts(2, 2, 1, live=True)]
        gens = [consts(1, 3, 9, boot=1, flaky=2, maxlen=45), consts(1, 2, 9, boot=0, flaky=2, maxlen=40),
                consts(2, 3, 9, boot=2, flaky=2, maxlen=60), consts(2, 4, 9, boot=2, flaky=2, maxlen=60)]
        num, per_w, variants = 120, 10, 2
        t_safety, t_live = 120, 150
    else:
        safety = [consts(1, 2, 7), consts(1, 3, 6), consts(2, 2, 6), consts(2, 2, 6, boot=2),
                  consts(2, 3, 5, boot=2), consts(2, 4, 4, boot=2)]
        live = [consts(1, 2, 1, live=True), consts(2, 2, 1, live=True)]   # measured once, both pass: (1,3,1) 1.38 M states 5.5 min; (1,2,2) 1.60 M states 4.6 min
        gens = [consts(1, 3, 9, boot=1, flaky=2, maxlen=50), consts(1, 2, 9, boot=0, flaky=2, maxlen=45), consts(1, 3, 9, boot=0, flaky=2, maxlen=50),
                consts(2, 3, 9, boot=2, flaky=2, maxlen=70), consts(2, 4, 9, boot=2, flaky=2, maxlen=70),
                consts(2, 2, 9, boot=2, flaky=3, maxlen=70)]
        num, per_w, variants = 450, 40, 3
        t_safety, t_live = 400, 600
    tlc_safety(c, safety, t_safety)
    tlc_liveness(c, live, t_live)
    c.exhaustive = True
    allb = fake_arm(c, gens, num)
    DEV = ("Dev_PendingNotCleared", "Dev_OpKeepsCheckpoint", "Dev_SplitterAppended")
    TICK, STALE = "Dev_TickerNotRecreated", "Dev_StaleCheckpointSurvivesRedeploy"
    K, D = '@{"Kill"}', '@{"Deregister"}'
    combos = [(1, 2, 6, 1, d, f) for d in DEV + (TICK,) for f in (K, D)]
    # the late-acknowledgement schedules for the real workers come from the W=2 witnesses of STALE (3 events suffice: tick, loss, registration)
    combos += [(2, 3, 3, 2, STALE, D), (2, 3, 3, 2, TICK, D)]
    if quick:
        combos.append((2, 3, 7, 2, DEV[0], D))
    else:
        combos += [(2, 3, 7, 2, d, f) for d in DEV + (TICK,) for f in (K, D)] + [(1, 3, 6, 1, d, K) for d in DEV] + [(2, 3, 7, 2, STALE, D), (2, 3, 7, 2, STALE, K)]
    stale = adversarial(c, combos)
    selftest(c, allb[0][0], allb[0][1])
    real_arm(c, allb, per_w, variants, stale)
    c.assumptions += [
        "time is counted in heartbeat-deadline periods (the frozen clock advances 3 s per step, deadline 5 s); expiry is noticed at the next membership event, as in the code",
        "a barrier / event of an earlier deployment is not delivered to a node after it has been redeployed (HandleEvent has no deployment epoch; exactly-once across redeploys is C01's subject)",
        "a Deploy call to a dead node fails (the production HTTP client retries some network errors for ever: the job would then stay in Starting; RPC layer not covered)",
        "time is driven by the replayer: the harness-owned clocks.Clock hands out tickers that honour Stop like the production clock (assembled with "
        "reflect+unsafe, clocks.Ticker has no constructor); one tick = the passing of one checkpoint interval; a retry requested through "
        "EveryContext.RetryIn is played by the next tick",
        "arm (b) restarts workers like an orchestrator would (a fresh worker whenever fewer than WorkerCount are alive)",
    ]


def replay(c, path):
    payload = json.load(open(path))
    payload.pop("violation", None)
    if payload.get("config", {}).get("mode") == "real":
        # goroutines of real workers are scheduled by the Go runtime: a scenario is repeated (the first violation ends the replay)
        payload["behaviours"] = payload["behaviours"][:1] * 6
        payload["config"].update(StopAfterViolations=1, BudgetS=600)
    res = vlib.run_harness("membership", payload, timeout=3000)
    c.add_harness(res, payload, "replay " + path)
