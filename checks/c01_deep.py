"""C01, the arms that turn three former assumptions of the check into checked behaviour.

(a) DKV flush + compaction under the operators. The replayed behaviours and the free-running runs are executed
    with verif-tuned memtables (`verifhook.Tune("dkv.memTableSize")`, a few dozen bytes: one to four state writes
    fill a memtable) and level sizes (`dkv.smallestLevelSize` = 1 byte: every level cascades; `dkv.maxSizeAmpPct`
    alternating between the default and "never a major compaction"), a different size for every generation in turn
    (MemSizes, 0 = the repo's defaults), so that operator DKV checkpoints consist of compacted tables, L0 tables,
    sealed memtables whose flush is still running and a WAL tail in every mixture, and restarts restore from them.
    Flushes / compactions / what every restored operator was restored from are counted; an arm in which none
    happened is a machinery error (vacuous).
(b) Rescale at recovery: Recovery.tla's Restart(n) boots another worker count (1<->2, 2<->3): TLC exhaustive for
    {1,2}, generated behaviours replayed on the real cluster (new Job with WorkerCount n, n fresh runners /
    operators, splits re-assigned, jobs.Assembly.Deploy + partitioning.AssignRanges hand every new operator the
    old checkpoints overlapping its key-group range, dkv merges them and filters by ownership).
(c) A checkpoint created while the publication of the previous one is still in flight (Overlap), writes landing
    in either order (superseded writes), kills inside that window.
The free-running trace arm gets all three as well (RecoveryTrace.tla: Restart carries the new worker count).
"""
import json
import vlib

# dkv tuning of the replay / trace arms: memtable size per generation in turn (bytes; an entry of the reference
# handler is ~35 bytes, every event writes two), 0 = the repo's default sizes
DKV = dict(MemSizes=[1, 70, 40, 140, 0, 100], SmallestLevel=1, SwapDelayUs=1000)

HARNESS_KEYS = ("KeyGroups", "Mode", "Runs", "Kills", "Ckpts", "BudgetSec", "MemSizes", "SmallestLevel", "MaxSizeAmpPct", "SwapDelayUs", "Counts")


def need(c, label, counters, *names):
    """non-vacuity: every named counter must be positive"""
    for n in names:
        if not counters.get(n):
            c.errors.append("C01 %s: vacuous, counter %s is zero (%s)" % (label, n, json.dumps(counters)))


def exhaustive(c, m, consts, label, must_cover, timeout=1500):
    r = vlib.run_tlc("Recovery", cfg=dict(constants=consts, invariants=m.INV, view="view"), workers=4, timeout=timeout, coverage=True)
    c.add_tlc(r, "Recovery exhaustive %s %s" % (label, json.dumps(consts)))
    cov = {k: v for k, v in r.coverage.items() if k[:1].isupper() and k not in m.INV}
    c.extra.setdefault("action_coverage", {})[label] = cov
    if r.ok:
        for a in must_cover:
            if not cov.get(a):
                c.errors.append("C01 %s: action %s was never taken (coverage %s)" % (label, a, json.dumps(cov)))
    return r


def replay_generated(c, m, consts, nbeh, depth, seed, key_groups, label, extra, must_count):
    gen = dict(consts, StopAtDone=True, MaxLen=depth, Dev_AssignUnsorted=m.DEV_ASSIGN)
    behs, r = vlib.gen_behaviours("Recovery", gen, nbeh, 2 * depth + 10, seed)
    cfg = dict(gen, KeyGroups=key_groups, Mode="replay", BudgetSec=m.BUDGET[c.tier])
    cfg.update(extra)
    payload = dict(property="C01", seed=c.seed, config=cfg, behaviours=behs)
    res = vlib.run_harness("recovery", payload, timeout=2400)
    c.add_harness(res, payload, "Recovery replay %s (%d behaviours)" % (label, len(behs)))
    if not res.get("violations") and not res.get("errors"):
        need(c, "replay " + label, res.get("counters", {}), *must_count)
    if behs:
        c.sample(dict(kind="Recovery behaviour (%s)" % label, config=gen,
                      steps=[{k: v for k, v in s.items() if k in ("a", "r", "o", "s", "i", "n", "k", "res", "nodes", "w", "sup", "inflight")} for s in behs[0][:25]]))
    return res


def traces(c, m, consts, runs, seed, label, extra, must_count):
    """free-running seeded runs with tuned DKV, rescale at restart and held snapshot writes -> RecoveryTrace.tla"""
    tc = dict(consts, StopAtDone=False)
    cfg = dict(tc, KeyGroups=consts["G"], Mode="trace", Runs=runs, Kills=3, Ckpts=5, BudgetSec=m.BUDGET[c.tier])
    cfg.update(extra)
    payload = dict(property="C01", seed=seed, mode="trace", deep=True, config=cfg)
    res = vlib.run_harness("recovery", payload, timeout=2400)
    events = res.pop("samples", None) or []
    for e in res.get("errors") or []:
        c.errors.append("recovery trace %s: %s" % (label, e))
    if not events:
        c.errors.append("recovery trace %s: no events recorded" % label)
        return
    runs_ = vlib.split_runs(events)
    ok, at, tr = vlib.validate_trace("RecoveryTrace", dict(tc, Dev_AssignUnsorted=m.DEV_ASSIGN), events)
    c.add_tlc(tr, "RecoveryTrace validation %s (%d events, %d runs)" % (label, len(events), len(runs_)), must_hold=False)
    c.extra.setdefault("harness_runs", []).append(dict(label="Recovery trace " + label, executed=res.get("executed", 0), counters=res.get("counters", {}),
                                                         wall_s=round(res.get("_wall", 0), 1)))
    if not ok:
        bad = [r_ for r_ in runs_ if r_[0] <= at][-1]
        ev = events[at - 1] if at <= len(events) else "end"
        c.add_violation("recorded execution rejected by RecoveryTrace.tla at event %d of the run: %s" % (at - bad[0] + 1, json.dumps(ev)),
                        dict(payload, recorded_run=bad[1], rejected_index=at - bad[0]))
        return
    c.traces += len(runs_)
    if not res.get("errors"):
        need(c, "trace " + label, res.get("counters", {}), *must_count)
    c.sample(dict(kind="recorded cluster run (%s), first events" % label, events=runs_[0][1][:12]))
    # binding self-test: after a rescaling restart, a Deliver attributed to another operator than the key's owner
    # under the NEW worker count must be rejected at exactly that event
    k = None
    w = None
    for i, e in enumerate(events[:3000]):
        if e.get("op") in ("Start", "Restart") and "w" in e:
            w = e["w"]
        elif e.get("op") == "Reset":
            w = None
        elif e.get("op") == "Deliver" and w is not None and w != consts["W"]:
            k = i
            break
    if k is None:
        c.errors.append("recovery trace %s: self-test found no Deliver in a rescaled generation" % label)
    else:
        bad_events = [dict(e) for e in events[:k + 1]]
        bad_events[k]["o"] = bad_events[k]["o"] % max(w, 2) + 1
        ok2, at2, _ = vlib.validate_trace("RecoveryTrace", dict(tc, Dev_AssignUnsorted=m.DEV_ASSIGN), bad_events)
        if ok2 or at2 != k + 1:
            c.errors.append("recovery trace %s: self-test: Deliver by a non-owner (of %d workers) at line %d not rejected there (accepted=%s at=%s)" % (label, w, k + 1, ok2, at2))


def replay_trace(c, m, payload):
    cfg = payload["config"]
    consts = {k: v for k, v in cfg.items() if k not in HARNESS_KEYS}
    extra = {k: cfg[k] for k in ("MemSizes", "SmallestLevel", "MaxSizeAmpPct", "SwapDelayUs", "Counts") if k in cfg}
    traces(c, m, consts, cfg["Runs"], payload["seed"], "replay", extra, ())


# key groups: G = 3 cut into 1 / 2 ranges ([0,3) | [0,2) [2,3)); G = 5 into 2 / 3 ([0,3) [3,5) | [0,2) [2,4) [4,5)):
# every new range overlaps two old ones or an old range is split between two new ones
def constants(m):
    rs12 = dict(m.BASE, Rescale="@{1,2}", G=3, GroupDigits=123, KeyDigits=1231, OwnerDigits=0)
    rs23 = dict(m.BASE, W=3, Rescale="@{2,3}", G=5, GroupDigits=12345, NSplits=3, NRecs=2, KeyDigits=123451, OwnerDigits=0, B=2, MaxCkpt=3, MaxKills=3)
    ov = dict(m.BASE, Overlap=True)
    return rs12, rs23, ov


def run_deep(c, m):
    quick = c.tier == "quick"
    rs12, rs23, ov = constants(m)
    w3 = dict(m.BASE, W=3, NSplits=3, NRecs=2, KeyDigits=123231, OwnerDigits=123, B=2, MaxCkpt=3, MaxKills=3)
    # ---- TLC
    if quick:
        exhaustive(c, m, dict(rs12, MaxCkpt=1, MaxKills=2), "rescale {1,2}, 1 ckpt, 2 kills", ["RestartRescaled", "RestartSame"])
        exhaustive(c, m, dict(ov, NRecs=1, KeyDigits=12), "overlapping publications, 2x1 records", ["TickOverlap", "PublishSuperseded"])
    else:
        exhaustive(c, m, dict(rs12, MaxCkpt=2, MaxKills=2), "rescale {1,2}", ["RestartRescaled", "RestartSame"])
        exhaustive(c, m, dict(rs12, MaxCkpt=2, MaxKills=1, Overlap=True), "rescale {1,2} + overlap, 1 kill", ["RestartRescaled", "TickOverlap", "PublishSuperseded"])
        exhaustive(c, m, dict(m.BASE, W=3, Rescale="@{2,3}", G=5, GroupDigits=135, NSplits=3, NRecs=1, KeyDigits=123, OwnerDigits=0, MaxCkpt=1, MaxKills=1),
                   "rescale {2,3}, 3x1 records", ["RestartRescaled"], timeout=3000)
        exhaustive(c, m, ov, "overlapping publications", ["TickOverlap", "PublishSuperseded"])
    # ---- replay
    dkv_need = ("flushes", "compactions", "restoredWithTables", "restoredWithCompactedTables", "restoredWithWal", "restoredWithTablesAndWal")
    n = (60, 30, 80, 30, 60) if quick else (400, 300, 500, 300, 400)
    s = c.seed * 100 + 50
    m.stage(c, replay_generated, c, m, dict(m.BASE, KillDilution=8), n[0], 95, s, 4, "dkv 2 workers", DKV, dkv_need)
    m.stage(c, replay_generated, c, m, dict(w3, KillDilution=8), n[1], 150, s + 1, 7, "dkv 3 workers B=2", DKV, dkv_need)
    m.stage(c, replay_generated, c, m, dict(rs12, KillDilution=6, MaxKills=3), n[2], 110, s + 2, 3, "rescale 1<->2", DKV,
            dkv_need + ("rescale1to2", "rescale2to1", "restoredFromSeveral"))
    m.stage(c, replay_generated, c, m, dict(rs23, KillDilution=8), n[3], 170, s + 3, 5, "rescale 2<->3", DKV,
            dkv_need + ("rescale2to3", "rescale3to2", "restoredFromSeveral"))
    m.stage(c, replay_generated, c, m, dict(ov, MaxCkpt=3, KillDilution=20, PubDilution=8), n[4], 120, s + 4, 4, "overlapping publications", DKV,
            ("supersededWrites", "ticksWhilePublishing", "killsWhilePublishing", "flushes", "compactions"))
    # ---- traces
    tr = dict(m.BASE, W=3, Rescale="@{1,2,3}", G=6, GroupDigits=123456, NSplits=4, NRecs=8, KeyDigits=0, OwnerDigits=0, Overlap=True)
    m.stage(c, traces, c, m, tr, 30 if quick else 400, c.seed * 7 + 3, "rescale {1,2,3}, tuned dkv, held writes",
            dict(DKV, Counts=[1, 2, 3], Overlap=True), ("flushes", "compactions", "restoredWithTables", "rescales", "restoredFromSeveral", "ticksWhilePublishing"))
    c.assumptions += [
        "dkv flush / compaction run free under the operators (tuned memtable and level sizes); their interleaving with the DKV checkpoint is "
        "sampled by the Go scheduler, not enumerated (that enumeration is C08/C18)",
        "rescale at recovery between 1, 2 and 3 workers; the job's worker count changes only with a restart of the whole cluster",
    ]
