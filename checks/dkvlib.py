"""Shared by c07/c08/c09: constants for spec/Dkv.tla, the replayer configuration and the tiers."""
import json
import vlib

DEVS = ["Dev_MemOldestFirst", "Dev_L0OldestFirst", "Dev_ScanDropsMemTomb", "Dev_GetLevelsFirst",
        "Dev_EndSeqLastKey", "Dev_RotateDropsLatest", "Dev_TableIdReuse", "Dev_GcIgnoresSharing"]

INV_READ = ["GetOK", "ScanOK", "LiveTablesExist", "SeqOK"]
INV_CKPT = ["RestoreOK", "FilesSafe", "LiveTablesExist", "SeqOK"]


def consts(**kw):
    # conc 0 of the replayer uses 2-byte keys and values: a put accounts 17+2+2 bytes, a delete 17+2
    c = dict(Keys={1, 2, 3}, Vals={1, 2}, Prefixes="@{{1, 2}, {1, 2, 3}}", MemCap=45, PutSz=21, DelSz=19, L0Trigger=2,
             MaxOps=5, MaxReads=1, MaxCkpt=0, MaxReopen=0, MaxRetain=0, MaxGc=0, MaxLen=1000)
    for d in DEVS:
        c[d] = False
    c.update(kw)
    return c


def jsonable(c):
    return {k: (sorted(v) if isinstance(v, (set, frozenset)) else v) for k, v in c.items()}


def harness_cfg(c, conc=0, **kw):
    cfg = dict(MemCap=c["MemCap"], L0Trigger=c["L0Trigger"], NKeys=len(c["Keys"]), Conc=conc)
    cfg.update(kw)
    return cfg


def exhaustive(c, consts_, invariants, label, timeout=1500):
    r = vlib.run_tlc("Dkv", cfg=dict(constants=consts_, invariants=invariants, view="view"), timeout=timeout, name="Dkv-ex")
    c.add_tlc(r, label)
    return r


def replay(c, consts_, nbeh, depth, seed, label, conc=0, check_restore=False, **hk):
    behs, r = vlib.gen_behaviours("Dkv", consts_, nbeh, depth, seed)
    payload = dict(property=c.prop, seed=seed, config=harness_cfg(consts_, conc, CheckRestore=check_restore, **hk), behaviours=behs)
    res = vlib.run_harness("dkv", payload, timeout=3000)
    c.add_harness(res, payload, label + " (%d behaviours, conc %d)" % (len(behs), conc))
    if behs:
        c.sample(dict(kind="Dkv behaviour replayed on the real dkv.DB", config=payload["config"],
                      steps=[{k: v for k, v in s.items() if k != "predicted"} for s in behs[0][:14]]))
    return behs, res


def replay_file(c, path):
    payload = json.load(open(path))
    res = vlib.run_harness("dkv", payload)
    c.add_harness(res, payload, "replay " + path)
