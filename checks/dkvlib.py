"""Shared by c07/c08/c09: constants for spec/Dkv.tla, the replayer configuration and the tiers."""
import json
import vlib

DEVS = ["Dev_MemOldestFirst", "Dev_L0OldestFirst", "Dev_ScanDropsMemTomb", "Dev_GetLevelsFirst",
        "Dev_EndSeqLastKey", "Dev_RotateDropsLatest", "Dev_TableIdReuse", "Dev_GcIgnoresSharing", "Dev_RetainDropsNewer"]

INV_READ = ["GetOK", "ScanOK", "LiveTablesExist", "SeqOK"]
INV_CKPT = ["RestoreOK", "FilesSafe", "LiveTablesExist", "SeqOK"]


def consts(**kw):
    # conc 0 of the replayer uses 2-byte keys and values: a put accounts 17+2+2 bytes, a delete 17+2
    c = dict(Keys={1, 2, 3}, Vals={1, 2}, Prefixes="@{{1, 2}, {1, 2, 3}}", MemCap=45, PutSz=21, DelSz=19, WalCap=0, L0Trigger=2,
             MaxOps=5, MaxReads=1, MaxCkpt=0, MaxReopen=0, MaxRetain=0, MaxGc=0, MaxFail=0, MaxLen=1000)
    for d in DEVS:
        c[d] = False
    c.update(kw)
    return c


def jsonable(c):
    return {k: (sorted(v) if isinstance(v, (set, frozenset)) else v) for k, v in c.items()}


def harness_cfg(c, conc=0, **kw):
    cfg = dict(MemCap=c["MemCap"], WalCap=c.get("WalCap", 0), L0Trigger=c["L0Trigger"], NKeys=len(c["Keys"]), Conc=conc)
    cfg.update(kw)
    return cfg


def exhaustive(c, consts_, invariants, label, timeout=1500):
    r = vlib.run_tlc("Dkv", cfg=dict(constants=consts_, invariants=invariants, view="view"), timeout=timeout, name="Dkv-ex")
    c.add_tlc(r, label)
    return r


def replay(c, consts_, nbeh, depth, seed, label, conc=0, check_restore=False, **hk):
    behs, r = vlib.gen_behaviours("Dkv", consts_, nbeh, depth, seed)
    payload = dict(property=c.prop, seed=seed, config=harness_cfg(consts_, conc, CheckRestore=check_restore, **hk), behaviours=behs)
    res = vlib.run_harness("dkv", payload, timeout=3000)
    c.add_harness(res, payload, label + " (%d behaviours, conc %d)" % (len(behs), conc))
    if behs:
        c.sample(dict(kind="Dkv behaviour replayed on the real dkv.DB", config=payload["config"],
                      steps=[{k: v for k, v in s.items() if k != "predicted"} for s in behs[0][:14]]))
    return behs, res


def replay_file(c, path):
    payload = json.load(open(path))
    if payload.get("mode") == "dkvtrace":
        return replay_trace(c, payload)
    res = vlib.run_harness("dkv", payload)
    c.add_harness(res, payload, "replay " + path)


# ---------------------------------------------------------------- directed scripts ----
# Hand-chosen action strings (the witnesses of DESIGN 7 and of defects found while building); TLC elaborates each
# through Dkv.tla's own actions (computing oracle / demanded values), the replayer runs it on the real DB.
def _w(k, v):
    return dict(a="W", k=k, v=v)


def _s(a, **kw):
    return dict(a=a, **kw)


ALLP = "{1, 2, 3}"
SCRIPTS = {
    # restored sequence counter too small => a post-restore write loses against the older flushed entry (#6)
    "endseq-restore-write": [_w(3, 1), _w(1, 1), _w(2, 1), _s("FlushStart"), _s("FlushSwap"), _s("Checkpoint"), _s("SaveWal", id=1),
                             _s("SaveDoc", id=1), _s("Reopen", id=1, crash=True), _w(2, 2), _w(1, 2), _w(3, 2), _s("FlushStart"),
                             _s("FlushSwap"), _s("GetBegin", k=2), _s("GetEnd"), _s("ScanBegin", p=ALLP), _s("ScanEnd")],
    # checkpoint while a flush is in flight, flush swap, second checkpoint (#7)
    "ckpt-during-flush": [_w(1, 1), _w(2, 1), _w(3, 1), _s("FlushStart"), _s("Checkpoint"), _s("FlushSwap"), _w(1, 2),
                          _s("Checkpoint"), _s("SaveWal", id=1), _s("SaveDoc", id=1), _s("SaveWal", id=2), _s("SaveDoc", id=2)],
    # memtable rotation with the flush held: newest memtable must win (#1); then two overlapping L0 tables (#2)
    "rotate-held-reads": [_w(1, 1), _w(2, 1), _w(3, 1), _w(1, 2), _s("GetBegin", k=1), _s("GetEnd"), _w(2, 2), _w(3, 2),
                          _s("FlushStart"), _s("FlushSwap"), _s("FlushStart"), _s("FlushSwap"), _s("GetBegin", k=1), _s("GetEnd"),
                          _s("ScanBegin", p=ALLP), _s("ScanEnd")],
    # delete after the value was flushed: the tombstone in the memtable must mask it in scans (#4)
    "tombstone-masks-flushed": [_w(1, 1), _w(2, 1), _w(3, 1), _s("FlushStart"), _s("FlushSwap"), _w(1, 0), _s("ScanBegin", p="{1, 2}"),
                                _s("ScanEnd"), _s("GetBegin", k=1), _s("GetEnd")],
    # flush swap between the two captures of a read (#5)
    "swap-inside-read": [_w(1, 1), _w(2, 1), _w(3, 1), _s("GetBegin", k=2), _s("FlushStart"), _s("FlushSwap"), _s("GetEnd"),
                         _w(1, 2), _w(2, 2), _w(3, 2), _s("ScanBegin", p=ALLP), _s("FlushStart"), _s("FlushSwap"), _s("ScanEnd")],
    # a flush dequeues its memtable while a Get holds its snapshot of the memtable list; a scan whose iterator was returned
    # (or is half consumed) while the flush swaps in
    "swap-inside-memlist-read": [_w(1, 1), _w(2, 1), _w(3, 1), _w(1, 2), _s("FlushStart"), _s("GetBegin", k=2, at="snap"), _s("FlushSwap"),
                                 _s("GetEnd"), _w(2, 2), _w(3, 2), _w(1, 1), _s("FlushStart"), _s("ScanBegin", p=ALLP, at="returned"),
                                 _s("FlushSwap"), _s("ScanEnd"), _w(2, 1), _w(3, 1), _w(1, 2), _s("FlushStart"), _s("ScanBegin", p=ALLP, at="mid"),
                                 _s("FlushSwap"), _s("ScanEnd")],
    # a flush (later a compaction) parked before its swap is let go inside DB.Checkpoint: the checkpoint must still restore
    # to the contents at the call (capture of tables and WAL rotation are one critical section)
    "ckpt-races-swaps": [_w(1, 1), _w(2, 1), _w(3, 1), _w(1, 2), _s("FlushStart"), _s("Checkpoint", race=True), _s("FlushSwap"),
                         _s("SaveWal", id=1), _s("SaveDoc", id=1), _w(2, 2), _w(3, 2), _s("FlushStart"), _s("FlushSwap"), _s("CompactPick"),
                         _w(1, 1), _s("Checkpoint", race=True), _s("CompactSwap"), _s("SaveWal", id=2), _s("SaveDoc", id=2)],
    # a flush builds its table while a compaction is creating its output file (both queues share the TableWriter's ids)
    "flush-build-inside-compaction-build": [_w(1, 1), _w(2, 1), _w(3, 1), _s("FlushStart"), _s("FlushSwap"), _w(1, 2), _w(2, 2), _w(3, 2),
                                            _s("FlushStart"), _s("FlushSwap"), _w(1, 1), _w(2, 1), _w(3, 1), _s("CompactPick", overlap=True),
                                            _s("FlushStart"), _s("FlushSwap"), _s("CompactSwap"), _s("GetBegin", k=1), _s("GetEnd"),
                                            _s("ScanBegin", p=ALLP), _s("ScanEnd"), _s("Checkpoint"), _s("SaveWal", id=1), _s("SaveDoc", id=1)],
    # re-open in the same directory, write and flush: table files of the checkpoint must survive (#8), then GC (same process)
    "reopen-flush-gc": [_w(1, 1), _w(2, 1), _w(3, 1), _s("FlushStart"), _s("FlushSwap"), _s("Checkpoint"), _s("SaveWal", id=1), _s("SaveDoc", id=1),
                        _s("Reopen", id=1, crash=False), _s("GcRun"), _w(1, 2), _w(2, 2), _w(3, 2), _s("FlushStart"), _s("FlushSwap"), _s("GcRun"),
                        _s("GetBegin", k=3), _s("GetEnd")],
    # a retention notice naming only checkpoint 1 arrives while checkpoint 2 is being saved (#28)
    "retain-during-save": [_w(1, 1), _s("Checkpoint"), _s("SaveWal", id=1), _s("SaveDoc", id=1), _w(2, 1), _s("Checkpoint"), _s("Retain", ids="{1}"),
                           _s("SaveWal", id=2), _s("SaveDoc", id=2), _w(3, 1), _s("Checkpoint"), _s("SaveWal", id=3), _s("SaveDoc", id=3), _s("Retain", ids="{3}")],
    # a retention update whose document save fails, then a successful one: the dropped checkpoint's WAL must go
    "retain-save-fails": [_w(1, 1), _s("Checkpoint"), _s("SaveWal", id=1), _s("SaveDoc", id=1), _w(2, 1), _s("Checkpoint"), _s("SaveWal", id=2),
                          _s("SaveDoc", id=2), _s("RetainFail", ids="{2}"), _s("GcRun"), _s("Retain", ids="{2}"), _s("GcRun")],
    # a retention update that lags two checkpoints behind: everything newer than the retained checkpoint stays
    "retain-lagging": [_w(1, 1), _s("Checkpoint"), _s("SaveWal", id=1), _s("SaveDoc", id=1), _w(2, 1), _s("Checkpoint"), _s("SaveWal", id=2),
                       _s("SaveDoc", id=2), _w(3, 1), _s("Checkpoint"), _s("SaveWal", id=3), _s("SaveDoc", id=3), _s("Retain", ids="{1}"), _s("GcRun"),
                       _w(1, 2), _s("Retain", ids="{2}"), _s("GcRun")],
    # retention drops checkpoint 1: its WAL goes, checkpoint 2 keeps restoring
    "retain-newest": [_w(1, 1), _s("Checkpoint"), _s("SaveWal", id=1), _s("SaveDoc", id=1), _w(2, 1), _w(3, 1), _w(1, 2), _s("FlushStart"),
                      _s("FlushSwap"), _s("Checkpoint"), _s("SaveWal", id=2), _s("SaveDoc", id=2), _s("Retain", ids="{2}"), _s("GcRun"),
                      _s("CompactPick"), _s("GcRun")],
}


def _tla_step(st):
    a = st["a"]
    if a == "W":
        return "Write(%d, %d)" % (st["k"], st["v"])
    if a == "GetBegin":
        return 'GetBeginAt(%d, "%s")' % (st["k"], st.get("at", "between"))
    if a == "ScanBegin":
        return 'ScanBeginAt(%s, "%s")' % (st["p"], st.get("at", "between"))
    if a == "Checkpoint" and "race" in st:
        return "CheckpointR(%s)" % ("TRUE" if st["race"] else "FALSE")
    if a == "CompactPick" and "overlap" in st:
        return "CompactPickO(%s)" % ("TRUE" if st["overlap"] else "FALSE")
    if a in ("SaveWal", "SaveDoc"):
        return "(\\E sv \\in saves : sv.id = %d /\\ %s(sv))" % (st["id"], a)
    if a in ("Retain", "RetainFail"):
        return "%s(%s)" % (a, st["ids"])
    if a == "Reopen":
        return "Reopen(%d, %s)" % (st["id"], "TRUE" if st["crash"] else "FALSE")
    return a


def elaborate(name, script, consts_):
    """-> behaviour (list of step dicts with demanded values) of the script under the intended design"""
    steps = "\n".join("  [] Len(hist) = %d -> %s" % (i, _tla_step(st)) for i, st in enumerate(script))
    mod = ("---- MODULE DkvScript ----\nEXTENDS Dkv\nScriptNext == CASE Len(hist) >= %d -> FALSE\n%s\n"
           "ScriptSpec == Init /\\ [][ScriptNext]_vars\n"
           "ScriptDump == (Len(hist) >= %d) => PrintT(<<\"BEHAVIOUR\", ToJson(hist)>>)\n====\n" % (len(script), steps, len(script)))
    r = vlib.run_tlc("DkvScript", cfg=dict(spec="ScriptSpec", constants=consts_, invariants=["ScriptDump"]), workers=1, timeout=120,
                     files={"DkvScript.tla": mod}, name="DkvScript-" + name)
    if not r.behaviours:
        raise vlib.MachineryError("script %s is not a behaviour of Dkv.tla (stopped early): %s\n%s" % (name, r.error, r.out[-1500:]))
    return r.behaviours[0], r


def run_scripts(c, check_restore):
    cs = consts(MaxOps=12, MaxReads=6, MaxCkpt=3, MaxReopen=2, MaxRetain=2, MaxGc=4, MaxFail=1)
    behs = []
    for name, sc in SCRIPTS.items():
        b, r = elaborate(name, sc, cs)
        behs.append(b)
    for conc in (0, 1):
        payload = dict(property=c.prop, seed=0, config=harness_cfg(cs, conc, CheckRestore=check_restore, Chunk=1), behaviours=behs)
        res = vlib.run_harness("dkv", payload, timeout=900)
        c.add_harness(res, payload, "directed scripts (%d, conc %d): %s" % (len(behs), conc, " ".join(SCRIPTS)))


# ---------------------------------------------------------------- free-running traces ----
def trace_arm(c, runs, ops, seed, props=("C07", "C08")):
    """record API traces of the real DB with free-running background goroutines and random configurations,
    validate them with DkvAbsTrace.tla; a rejected Get/Scan line is a C07 violation, a Restore line a C08 one"""
    payload = dict(property=c.prop, seed=seed, config=dict(Ops=ops, Chunk=20), behaviours=[[{"run": i}] for i in range(runs)])
    res = vlib.run_harness("dkvtrace", payload, timeout=3000)
    traces = [t for t in res.pop("traces", []) if isinstance(t, list)]
    c.add_harness(res, payload, "dkvtrace recording (%d runs x %d ops, free-running background)" % (runs, ops))
    consts_ = dict(NKeys=12, NVals=4, MaxOps=0)
    # validate in chunks of <= 25k events
    chunk, chunks = [], []
    for t in traces:
        if chunk and len(chunk) + len(t) > 25000:
            chunks.append(chunk)
            chunk = []
        if chunk:
            chunk.append({"op": "Reset"})
        chunk.extend(t)
    if chunk:
        chunks.append(chunk)
    for ci, events in enumerate(chunks):
        while True:
            ok, at, tr = vlib.validate_trace("DkvAbsTrace", consts_, events, name="DkvAbsTrace")
            c.add_tlc(tr, "DkvAbsTrace validation chunk %d (%d events)" % (ci, len(events)), must_hold=False)
            runs_ = vlib.split_runs(events)
            if ok:
                c.traces += len(runs_)
                if ci == 0 and runs_:
                    c.sample(dict(kind="recorded dkv.DB API trace (first 20 events of a run)", events=runs_[0][1][:20]))
                break
            bad = [r_ for r_ in runs_ if r_[0] <= at][-1]
            line = events[at - 1] if at <= len(events) else {}
            prop = "C08" if line.get("op") in ("Restore", "Reopen") else "C07"
            if prop == c.prop:
                c.add_violation("recorded dkv.DB trace rejected by DkvAbsTrace.tla at event %d of the run: %s" %
                                (at - bad[0] + 1, json.dumps(line)[:300]),
                                dict(mode="dkvtrace", seed=seed, run_events=bad[1], rejected_index=at - bad[0]))
            # drop the rejected run and validate the rest of the chunk
            keep = []
            for st, evs in runs_:
                if st == bad[0]:
                    continue
                if keep:
                    keep.append({"op": "Reset"})
                keep.extend(evs)
            events = keep
            if not events:
                break


def replay_trace(c, payload):
    """--replay of a rejected recorded run: validate the stored events again (they are what the real code did)"""
    events = payload["run_events"]
    ok, at, tr = vlib.validate_trace("DkvAbsTrace", dict(NKeys=payload.get("NKeys", 12), NVals=4, MaxOps=0), events)
    c.add_tlc(tr, "DkvAbsTrace validation of the stored run", must_hold=False)
    if not ok:
        c.add_violation("stored dkv.DB trace rejected at event %d: %s" % (at, json.dumps(events[at - 1])[:300]), payload)
    else:
        c.traces += 1


def bulk_arm(c, n):
    """one bulk run (2n keys, two generations of large overlapping tables: bloom false positives, sparse index) validated by DkvAbsTrace"""
    payload = dict(property=c.prop, seed=c.seed, config=dict(Chunk=1), behaviours=[[{"bulk": n}]])
    res = vlib.run_harness("dkvtrace", payload, timeout=900)
    tr = [t for t in res.pop("traces", []) if isinstance(t, dict)]
    c.add_harness(res, payload, "dkvtrace bulk run (%d keys)" % (2 * n))
    for t in tr:
        events = t["events"]
        ok, at, r = vlib.validate_trace("DkvAbsTrace", dict(NKeys=t["bulk"], NVals=4, MaxOps=0), events, name="DkvAbsTrace-bulk", timeout=900)
        c.add_tlc(r, "DkvAbsTrace validation of the bulk run (%d events)" % len(events), must_hold=False)
        if ok:
            c.traces += 1
        elif c.prop == "C07":
            c.add_violation("bulk dkv.DB trace rejected by DkvAbsTrace.tla at event %d: %s" % (at, json.dumps(events[at - 1])[:200]),
                            dict(mode="dkvtrace", seed=c.seed, run_events=events[:at], rejected_index=at - 1, NKeys=t["bulk"]))
