#!/usr/bin/env python3
"""bin/seedkeep.py : copies every CONFIRMED seeded change (/tmp/seed/out/<id> + /tmp/seed/res-<id>.json written by
bin/seedtest.py) to /verif/seeded/<id>/ with patch.diff, the demonstration and meta.json (the author's meta plus what
I ran to confirm it and which checks caught it). A change is confirmed when the patch applies, the pinned suite passes
with it, and the demonstration passes without it and fails with it."""
import glob, json, os, shutil, sys
ROOT = os.path.dirname(os.path.dirname(os.path.abspath(__file__)))
kept, rejected = [], []
for rf in sorted(glob.glob("/tmp/seed/res-*.json")):
    name = os.path.basename(rf)[4:-5]
    src = os.path.join("/tmp/seed/out", name)
    try:
        r = json.load(open(rf))
    except Exception:
        continue
    ok = r.get("applies") and r.get("demo_without_change") == "pass" and r.get("demo_with_change") == "fail" and r.get("pinned_suite_with_change") == "pass"
    if not ok:
        rejected.append((name, {k: r.get(k) for k in ("applies", "demo_without_change", "demo_with_change", "pinned_suite_with_change")}))
        continue
    dst = os.path.join(ROOT, "seeded", name)
    prev_checks, neutralised = {}, None
    try:
        pm = json.load(open(os.path.join(dst, "meta.json")))
        prev_checks, neutralised = pm.get("verified", {}).get("checks", {}), pm.get("neutralised")
    except Exception:
        pass
    shutil.rmtree(dst, ignore_errors=True)
    os.makedirs(dst)
    for root, _, files in os.walk(src):
        for f in files:
            if f.endswith((".log", ".txt")) and f not in ("DEMO_DEST.txt",):
                continue
            rel = os.path.relpath(os.path.join(root, f), src)
            os.makedirs(os.path.dirname(os.path.join(dst, rel)) or dst, exist_ok=True)
            shutil.copy(os.path.join(root, f), os.path.join(dst, rel))
    meta = json.load(open(os.path.join(src, "meta.json")))
    caught = {c: ("caught" if v.get("exit") == 1 else "not caught (exit %s)" % v.get("exit")) for c, v in r.get("checks", {}).items() if isinstance(v, dict)}
    meta["breaks_property"] = meta.get("property")
    meta["verified"] = dict(
        what_i_ran="bin/seedtest.py: scratch worktree of /repo HEAD; demonstration run without the change (pass) and with it (fail); "
                   "pinned suite `go1.26 test -vet=off ./dkv/... ./batching/... ./util/... ./storage/locations/... ./storage/objstore/...` with the change (pass); "
                   "then `VERIF_REPO=<worktree with the change> bin/check <id> --tier quick` for the checks below",
        demo_files=r.get("demo_files"), demo_with_change_tail=r.get("demo_with_change_tail", "")[-300:],
        checks={c: dict(result=caught[c], wall_s=v.get("wall_s"), first_lines=v.get("lines", [])[:2]) for c, v in r.get("checks", {}).items() if isinstance(v, dict)})
    # results of earlier runs against other checks are kept; a newer run of the same check replaces the older one
    for k, v in prev_checks.items():
        meta["verified"]["checks"].setdefault(k, v)
    if neutralised:
        meta["neutralised"] = neutralised
    json.dump(meta, open(os.path.join(dst, "meta.json"), "w"), indent=1)
    kept.append((name, caught))
for k in kept:
    print("kept", k)
for k in rejected:
    print("NOT CONFIRMED", k)
