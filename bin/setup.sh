#!/bin/bash
# Build the framework from files on disk only (offline).
set -euo pipefail
. "$(dirname "$0")/env.sh"
cd "$VERIF_ROOT"
command -v tlc >/dev/null && command -v "$GO" >/dev/null
mkdir -p "$VERIF_BUILD" evidence
bin/build.sh $(ls harness/cmd)
python3 bin/mkmanifest.py >/dev/null
echo setup ok
