#!/usr/bin/env python3
"""Runs the repository's pinned baseline (BASELINE.json cmd equivalent, build tag OFF) and compares with the 154 stable tests."""
import json, subprocess, sys, os
base = json.load(open("/root/.vp/BASELINE.json"))
want = set(base["stable_pass"])
env = {k: v for k, v in os.environ.items() if k not in ("GOFLAGS", "GOTOOLCHAIN", "GOPROXY", "GOSUMDB")}
p = subprocess.run("go test -mod=mod -json -vet=off -count=1 -timeout 25m ./...", shell=True, cwd="/repo", env=env, capture_output=True, text=True)
passed, failed = set(), set()
for line in p.stdout.splitlines():
    try:
        e = json.loads(line)
    except Exception:
        continue
    if e.get("Test") and e.get("Action") in ("pass", "fail"):
        (passed if e["Action"] == "pass" else failed).add("%s::%s" % (e["Package"], e["Test"]))
missing = sorted(want - passed)
print("baseline tests: %d, passed now: %d, missing/failed: %d" % (len(want), len(want & passed), len(missing)))
for m in missing[:20]:
    print("  NOT PASSING:", m)
sys.exit(1 if missing else 0)
