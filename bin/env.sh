# sourced by every script: offline Go environment
export GOFLAGS=-mod=mod GOPROXY=off GOSUMDB=off GOTOOLCHAIN=local
export VERIF_ROOT="${VERIF_ROOT:-$(cd "$(dirname "${BASH_SOURCE[0]}")/.." && pwd)}"
# VERIF_REPO: the reduction checkout the harness is built against (default /repo;
# a scratch worktree while developing or testing seeded changes).
export VERIF_REPO="${VERIF_REPO:-/repo}"
export VERIF_BUILD="${VERIF_BUILD:-$VERIF_ROOT/.build}"
export GO=go1.26
