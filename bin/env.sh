# sourced by every script: offline Go environment
export GOFLAGS=-mod=mod GOPROXY=off GOSUMDB=off GOTOOLCHAIN=local
export VERIF_ROOT="${VERIF_ROOT:-$(cd "$(dirname "${BASH_SOURCE[0]}")/.." && pwd)}"
export VERIF_BUILD="$VERIF_ROOT/.build"
export GO=go1.26
