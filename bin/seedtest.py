#!/usr/bin/env python3
"""bin/seedtest.py <seed-dir> <check-id>...   e.g. bin/seedtest.py /tmp/seed/out/C18-1 C18 C07
1. verifies the seeded change in a scratch worktree (outside /repo and /verif): it applies, the pinned suite still
   passes, the demonstration fails with it and passes without it;
2. applies the patch to /repo, runs the given checks' quick tier, and reverts /repo.
Prints a JSON summary (also what goes into seeded/<id>/meta.json under "verified")."""
import json, os, shutil, subprocess, sys, time
ROOT = os.path.dirname(os.path.dirname(os.path.abspath(__file__)))
d = sys.argv[1].rstrip("/"); checks = sys.argv[2:]
name = os.path.basename(d)
meta = json.load(open(os.path.join(d, "meta.json")))
patch = os.path.join(d, "patch.diff")
env = dict(os.environ, GOFLAGS="-mod=mod", GOPROXY="off", GOSUMDB="off", GOTOOLCHAIN="local")
def sh(cmd, cwd=None, timeout=1800):
    p = subprocess.run(cmd, shell=True, cwd=cwd, env=env, stdout=subprocess.PIPE, stderr=subprocess.STDOUT, text=True, timeout=timeout)
    return p.returncode, p.stdout
out = dict(seed=name)
wt = "/tmp/seedchk/" + name
shutil.rmtree(wt, ignore_errors=True); sh("git -C /repo worktree prune")
rc, o = sh("git -C /repo worktree add --detach %s HEAD" % wt)
assert rc == 0, o
try:
    # demo files: everything in the seed dir except patch/meta/outputs, keeping relative paths
    demos = []
    for root, _, files in os.walk(d):
        for f in files:
            rel = os.path.relpath(os.path.join(root, f), d)
            if rel in ("patch.diff", "meta.json") or rel.endswith(".txt") or rel.endswith(".md"):
                continue
            demos.append(rel)
    import re as _re
    hints = json.dumps(meta.get("demo", {}))
    for extra in ("DEMO_DEST.txt",):
        if os.path.exists(os.path.join(d, extra)):
            hints += " " + open(os.path.join(d, extra)).read()
    default_dir = ""
    m_ = _re.search(r"([\w./-]+/)[\w.-]+\.go", str(meta["demo"].get("path", "")))
    if m_:
        default_dir = m_.group(1)
    placed = []
    def put_demos():
        for rel in demos:
            if not rel.endswith(".go"):
                continue
            if os.path.dirname(rel):
                dest = rel
            else:
                # a demo file stored flat in the seed directory goes where meta.json / DEMO_DEST.txt says it lives
                arrow = _re.search(_re.escape(rel) + r"\s*->\s*([\w./-]+\.go)", hints)
                mm = _re.search(r"([\w./-]+/)" + _re.escape(rel), hints)
                dest = arrow.group(1) if arrow else os.path.join(mm.group(1) if mm else default_dir, rel)
            dest = dest.lstrip("./")
            dst = os.path.join(wt, dest); os.makedirs(os.path.dirname(dst), exist_ok=True); shutil.copy(os.path.join(d, rel), dst)
            placed.append(dest)
    run = meta["demo"]["run"]
    for old in ("/tmp/seed/wt3-%s" % meta["property"], "/tmp/seed/wt2-%s" % meta["property"], "/tmp/seed/wt-%s" % meta["property"], "<worktree>", "<your-worktree>", "<repo>", "<WORKTREE>", "$WT", "${WT}", "<wt>", "<WT>", "<worktree-dir>"):
        run = run.replace(old, wt)
    need_overlay = ".pb/overlay.json" in run or "-overlay" in run
    put_demos()
    if need_overlay:
        sh("/tmp/seedtools/overlay.sh %s" % wt)
    rc0, o0 = sh(run, cwd=wt, timeout=900)
    out["demo_without_change"] = "pass" if rc0 == 0 else "FAIL"
    rc, o = sh("git apply %s" % patch, cwd=wt)
    if rc != 0:  # the tree moved on since the change was written: three-way
        rc, o = sh("git apply -3 %s && ! git diff --name-only --diff-filter=U | grep -q ." % patch, cwd=wt)
        out["applied_three_way"] = rc == 0
    out["applies"] = rc == 0
    if need_overlay:
        sh("/tmp/seedtools/overlay.sh %s" % wt)
    rc1, o1 = sh(run, cwd=wt, timeout=900)
    out["demo_with_change"] = "fail" if rc1 != 0 else "PASSES"
    out["demo_with_change_tail"] = o1[-400:]
    out["demo_files"] = placed[:len(demos)]
    # pinned suite with the change (demo files removed)
    for rel in placed:
        try: os.remove(os.path.join(wt, rel))
        except OSError: pass
    rc2, o2 = sh("go1.26 test -vet=off -count=1 ./dkv/... ./batching/... ./util/... ./storage/locations/... ./storage/objstore/... 2>&1 | grep -v '^ok\\|no test files'", cwd=wt)
    out["pinned_suite_with_change"] = "pass" if not o2.strip() else "FAIL: " + o2[-500:]
finally:
    sh("git -C /repo worktree remove --force %s" % wt)
# 2. run the checks against a scratch worktree with the patch (VERIF_REPO), leaving /repo alone
wt2 = "/tmp/seedchk/run-" + name
shutil.rmtree(wt2, ignore_errors=True); sh("git -C /repo worktree prune")
rc, o = sh("git -C /repo worktree add --detach %s HEAD" % wt2)
assert rc == 0, o
res = {}
try:
    rc, o = sh("git apply %s" % patch, cwd=wt2)
    if rc != 0:
        rc, o = sh("git apply -3 %s && ! git diff --name-only --diff-filter=U | grep -q ." % patch, cwd=wt2)
    if rc != 0:
        res["error"] = "patch does not apply: " + o[-300:]
    else:
        env["VERIF_REPO"] = wt2
        env["VERIF_BUILD"] = "/tmp/seedchk/build-" + name
        for c in checks:
            t = time.time()
            rcc, oc = sh("bin/check %s --tier quick" % c, cwd=ROOT, timeout=3600)
            lines = [l for l in oc.splitlines() if l.startswith(("VIOLATION", "OK ", "KNOWN", "MACHINERY")) or l.strip().startswith("what:")]
            res[c] = dict(exit=rcc, wall_s=round(time.time() - t), lines=lines[:6])
finally:
    sh("git -C /repo worktree remove --force %s" % wt2)
    shutil.rmtree("/tmp/seedchk/build-" + name, ignore_errors=True)
out["checks"] = res
print(json.dumps(out, indent=1))
