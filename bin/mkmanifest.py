#!/usr/bin/env python3
"""Regenerates MANIFEST.json from checks/registry.py (one source of truth)."""
import json, os, subprocess, sys
ROOT = os.path.dirname(os.path.dirname(os.path.abspath(__file__)))
sys.path.insert(0, os.path.join(ROOT, "checks"))
import registry

props = [json.loads(l) for l in open(os.path.join(ROOT, "properties.jsonl"))]
ids = [p["id"] for p in props]
hooks = subprocess.run(["git", "-C", "/repo", "log", "--format=%H %s"], capture_output=True, text=True).stdout.splitlines()
hook_commits = [l.split()[0] for l in hooks if l.split(" ", 1)[1].startswith("verif hooks:")]
baseline = json.load(open("/root/.vp/BASELINE.json"))["cmd"]
checks, na = [], []
for i in ids:
    r = registry.CHECKS.get(i)
    if r is None:
        na.append(dict(property_id=i, reason=registry.NOT_APPLICABLE.get(i, "no check registered yet (under construction); nothing is claimed for this property")))
        continue
    checks.append(dict(
        property_id=i,
        quick_cmd="bin/check %s --tier quick" % i,
        thorough_cmd="bin/check %s --tier thorough" % i,
        evidence_file="evidence/%s.json" % i,
        replay_cmd_template="bin/check %s --replay {path}" % i,
        engine=r["engine"],
        level_claimed=dict(category="model_checking", text=r["text"], design_ref=r.get("design_ref", "DESIGN.md §4 " + i)),
        level_note=r["note"],
        technique=r["technique"]))
m = dict(version=1,
         setup_cmd="bin/setup.sh",
         hooks=dict(guard="verif", enable="go build -tags verif (bin/build.sh; util/verifhook.Install)",
                    baseline_off_cmd=baseline, source_commits=hook_commits, add_only=True),
         engines=registry.ENGINES, checks=checks, not_applicable=na,
         notes="All checks: TLA+ spec under spec/, TLC exhaustive run + TLC-generated behaviours replayed on the real code "
               "(or recorded traces validated by TLC). See DESIGN.md.")
json.dump(m, open(os.path.join(ROOT, "MANIFEST.json"), "w"), indent=1)
print("checks:", [c["property_id"] for c in checks], "n/a:", [n["property_id"] for n in na])
