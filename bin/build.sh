#!/bin/bash
# Regenerate the protobuf overlay from $VERIF_REPO's .proto files and build
# harness commands against $VERIF_REPO's current working tree with -tags verif.
# usage: build.sh <cmd-name>...   (names under harness/cmd/)
set -euo pipefail
. "$(dirname "$0")/env.sh"
mkdir -p "$VERIF_BUILD/pb" "$VERIF_BUILD/bin"
cd "$VERIF_ROOT/harness"
# per-build go.mod/go.sum (so concurrent builds against different checkouts do not collide)
sed "s#=> /repo#=> $VERIF_REPO#" go.mod > "$VERIF_BUILD/go.mod"
(cat "$VERIF_REPO/go.sum"; cat go.sum.extra 2>/dev/null || true) | sort -u > "$VERIF_BUILD/go.sum"
MODFILE="-modfile=$VERIF_BUILD/go.mod"
(
  flock 9
  # 1. generator tools (cached by go build)
  $GO build $MODFILE -o "$VERIF_BUILD/bin/pbgen" ./pbgen
  if [ ! -x "$VERIF_BUILD/bin/protoc-gen-connect-go" ]; then
    $GO build $MODFILE -o "$VERIF_BUILD/bin/protoc-gen-connect-go" connectrpc.com/connect/cmd/protoc-gen-connect-go
  fi
  # 2. generate into .build/pb and write overlay.json
  rm -rf "$VERIF_BUILD/pb.new" && mkdir -p "$VERIF_BUILD/pb.new"
  "$VERIF_BUILD/bin/pbgen" "$VERIF_REPO" "$VERIF_BUILD/pb.new" "$VERIF_BUILD/bin/protoc-gen-connect-go" >/dev/null
  # keep old files when content is unchanged (preserves go build cache hits)
  mkdir -p "$VERIF_BUILD/pb"
  rsync -rc --delete "$VERIF_BUILD/pb.new/" "$VERIF_BUILD/pb/" && rm -rf "$VERIF_BUILD/pb.new"
  python3 - "$VERIF_BUILD" "$VERIF_REPO" <<'PY'
import json,os,sys
b,repo=sys.argv[1],sys.argv[2]; pb=os.path.join(b,'pb'); rep={}
for d,_,fs in os.walk(pb):
    for f in fs:
        p=os.path.join(d,f); rel=os.path.relpath(p,pb)
        rep[os.path.join(repo,rel)]=p
json.dump({'Replace':rep},open(os.path.join(b,'overlay.json'),'w'),indent=1)
PY
) 9>"$VERIF_BUILD/.lock"
# 3. build requested commands
for c in "$@"; do
  $GO build $MODFILE -tags verif -overlay "$VERIF_BUILD/overlay.json" -o "$VERIF_BUILD/bin/$c" "./cmd/$c"
done
