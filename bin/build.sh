#!/bin/bash
# Regenerate the protobuf overlay from /repo's .proto files and build harness
# commands against /repo's current working tree with -tags verif.
# usage: build.sh <cmd-name>...   (names under harness/cmd/)
set -euo pipefail
. "$(dirname "$0")/env.sh"
mkdir -p "$VERIF_BUILD/pb" "$VERIF_BUILD/bin"
cd "$VERIF_ROOT/harness"
cp /repo/go.sum go.sum.repo && cat go.sum.repo go.sum.extra 2>/dev/null | sort -u > go.sum && rm -f go.sum.repo
# 1. generator tools (cached by go build)
$GO build -o "$VERIF_BUILD/bin/pbgen" ./pbgen
if [ ! -x "$VERIF_BUILD/bin/protoc-gen-connect-go" ]; then
  $GO build -o "$VERIF_BUILD/bin/protoc-gen-connect-go" connectrpc.com/connect/cmd/protoc-gen-connect-go
fi
# 2. generate into .build/pb and write overlay.json
rm -rf "$VERIF_BUILD/pb" && mkdir -p "$VERIF_BUILD/pb"
"$VERIF_BUILD/bin/pbgen" /repo "$VERIF_BUILD/pb" "$VERIF_BUILD/bin/protoc-gen-connect-go" >/dev/null
python3 - "$VERIF_BUILD" <<'PY'
import json,os,sys
b=sys.argv[1]; pb=os.path.join(b,'pb'); rep={}
for d,_,fs in os.walk(pb):
    for f in fs:
        p=os.path.join(d,f); rel=os.path.relpath(p,pb)
        rep[os.path.join('/repo',rel)]=p
json.dump({'Replace':rep},open(os.path.join(b,'overlay.json'),'w'),indent=1)
PY
# 3. build requested commands
for c in "$@"; do
  $GO build -tags verif -overlay "$VERIF_BUILD/overlay.json" -o "$VERIF_BUILD/bin/$c" "./cmd/$c"
done
