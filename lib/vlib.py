"""Driver library shared by all property checks.

TLC side  : run_tlc (exhaustive), gen_behaviours (-simulate with the spec's
            `Dump` invariant printing the history variable as JSON),
            validate_trace (trace specs, POSTCONDITION TraceAccepted).
Go side   : build (pb overlay + harness command, -tags verif, from /repo's
            working tree), run_harness (behaviours in, result out).
Verdict   : Check collects TLC stats, harness results and violations, matches
            violations against findings/known.jsonl, writes the evidence file
            and exits 0 / 1 / 2.
"""
import hashlib
import json
import os
import re
import shutil
import subprocess
import sys
import time

ROOT = os.path.dirname(os.path.dirname(os.path.abspath(__file__)))
BUILD = os.environ.get("VERIF_BUILD") or os.path.join(ROOT, ".build")
REPO = os.environ.get("VERIF_REPO") or "/repo"
SPEC = os.path.join(ROOT, "spec")
EVID = os.path.join(ROOT, "evidence")
REPLAYS = os.path.join(ROOT, "evidence", "replays")
KNOWN = os.path.join(ROOT, "findings", "known.jsonl")
NCPU = os.cpu_count() or 4


class MachineryError(Exception):
    pass


def log(*a):
    print(*a, file=sys.stderr, flush=True)


def env():
    e = dict(os.environ)
    e.update(GOFLAGS="-mod=mod", GOPROXY="off", GOSUMDB="off", GOTOOLCHAIN="local")
    return e


# ---------------------------------------------------------------- build ----
_built = set()


def build(*cmds):
    todo = [c for c in cmds if c not in _built]
    if not todo:
        return
    t = time.time()
    p = subprocess.run([os.path.join(ROOT, "bin", "build.sh")] + todo, env=env(),
                       stdout=subprocess.PIPE, stderr=subprocess.STDOUT, text=True)
    if p.returncode != 0:
        raise MachineryError("build failed (does /repo compile with -tags verif?):\n" + p.stdout[-4000:])
    _built.update(todo)
    log("[build] %s in %.1fs" % (" ".join(todo), time.time() - t))


# ------------------------------------------------------------------ TLC ----
_scratch_n = [0]
_scratch_lock = __import__("threading").Lock()


def _scratch(name):
    with _scratch_lock:
        _scratch_n[0] += 1
        n = _scratch_n[0]
    d = os.path.join(BUILD, "tlc", "%s-%d-%d-%d" % (name, os.getpid(), n, int(time.time() * 1000) % 10 ** 9))
    os.makedirs(d, exist_ok=True)
    return d


def _copy_specs(dst):
    for f in os.listdir(SPEC):
        if f.endswith((".tla", ".cfg")):
            shutil.copy(os.path.join(SPEC, f), dst)


def write_cfg(path, spec="Spec", constants=None, invariants=(), properties=(), view=None,
              constraint=None, postcondition=None, extra=""):
    lines = ["SPECIFICATION %s" % spec]
    if constants:
        lines.append("CONSTANTS")
        for k, v in constants.items():
            lines.append("  %s = %s" % (k, tla_value(v)))
    if invariants:
        lines.append("INVARIANTS " + " ".join(invariants))
    if properties:
        lines.append("PROPERTIES " + " ".join(properties))
    if view:
        lines.append("VIEW " + view)
    if constraint:
        lines.append("CONSTRAINT " + constraint)
    if postcondition:
        lines.append("POSTCONDITION " + postcondition)
    lines.append("CHECK_DEADLOCK FALSE")
    if extra:
        lines.append(extra)
    with open(path, "w") as f:
        f.write("\n".join(lines) + "\n")


def tla_value(v):
    if isinstance(v, bool):
        return "TRUE" if v else "FALSE"
    if isinstance(v, int):
        return str(v)
    if isinstance(v, str):
        if v.startswith("@"):  # raw TLA+ expression
            return v[1:]
        return '"%s"' % v
    if isinstance(v, (set, frozenset)):
        return "{" + ", ".join(tla_value(x) for x in sorted(v, key=str)) + "}"
    if isinstance(v, (list, tuple)):
        return "<<" + ", ".join(tla_value(x) for x in v) + ">>"
    raise ValueError(v)


class TlcResult:
    def __init__(self):
        self.generated = 0
        self.distinct = 0
        self.depth = 0
        self.violated = None       # name of violated invariant/property
        self.error = None          # other error text
        self.behaviours = []       # parsed BEHAVIOUR dumps
        self.prints = []           # other PrintT tuples (raw text)
        self.coverage = {}         # action -> count (with -coverage)
        self.wall = 0.0
        self.out = ""
        self.ok = False


_beh_re = re.compile(r'^<<"BEHAVIOUR", "(.*)">>\s*$')


def _unescape(s):
    return s.replace('\\"', '"').replace("\\\\", "\\")


def run_tlc(module, cfg_path=None, cfg=None, workers=None, simulate=None, depth=None, seed=None,
            timeout=600, coverage=False, extra_args=(), files=None, name=None, heap=None, dfs=False):
    """Run TLC on spec/<module>.tla in a scratch copy. cfg: dict for write_cfg, or
    cfg_path: name of a .cfg in spec/. simulate: number of behaviours."""
    d = _scratch(name or module)
    try:
        _copy_specs(d)
        for fn, content in (files or {}).items():
            with open(os.path.join(d, fn), "w") as f:
                f.write(content)
        if cfg is not None:
            cfg_path = "_run.cfg"
            write_cfg(os.path.join(d, cfg_path), **cfg)
        args = ["tlc", "-metadir", os.path.join(d, "md"), "-config", cfg_path]
        if simulate:
            args += ["-workers", "1", "-simulate", "num=%d" % simulate, "-depth", str(depth or 100)]
            args += ["-seed", str(seed if seed is not None else 1)]
        else:
            args += ["-workers", str(workers or NCPU)]
        if coverage:
            args += ["-coverage", "1"]
        args += list(extra_args) + [module + ".tla"]
        e = env()
        jopts = []
        if heap:
            jopts.append("-Xmx%s" % heap)
        if dfs:
            jopts.append("-Dtlc2.tool.queue.IStateQueue=StateDeque")
        jopts.append("-Xss64m")
        jtmp = os.path.join(d, "jtmp")           # TLC's own temporary directories (tlc-<n>) go with the scratch copy
        os.makedirs(jtmp, exist_ok=True)
        jopts.append("-Djava.io.tmpdir=" + jtmp)
        e["JAVA_TOOL_OPTIONS"] = " ".join(jopts)
        t = time.time()
        try:
            p = subprocess.run(["timeout", str(timeout)] + args, cwd=d, env=e, stdout=subprocess.PIPE,
                               stderr=subprocess.STDOUT, text=True)
        finally:
            pass
        r = TlcResult()
        r.wall = time.time() - t
        r.out = p.stdout
        if p.returncode == 124:
            r.error = "timeout after %ds" % timeout
        for line in p.stdout.splitlines():
            m = _beh_re.match(line)
            if m:
                try:
                    r.behaviours.append(json.loads(_unescape(m.group(1))))
                except Exception:  # interleaved output of several workers: skip the line
                    r.prints.append(line[:200])
                continue
            m = re.match(r"^(\d+) states generated, (\d+) distinct states found", line)
            if m:
                r.generated, r.distinct = int(m.group(1)), int(m.group(2))
            m = re.match(r"^The number of states generated: (\d+)", line)
            if m:
                r.generated = int(m.group(1))
                r.distinct = max(r.distinct, 0)
            m = re.match(r"^The depth of the complete state graph search is (\d+)", line)
            if m:
                r.depth = int(m.group(1))
            m = re.match(r"^Error: Invariant (\S+) is violated", line)
            if m:
                r.violated = m.group(1)
            m = re.match(r"^Error: Action property (\S+) is violated", line)
            if m:
                r.violated = m.group(1)
            if line.startswith("Error: Temporal properties were violated"):
                r.violated = r.violated or "temporal"
            if line.startswith("Error: Postcondition"):
                r.violated = r.violated or "postcondition"
            if line.startswith("Error:") and r.violated is None and r.error is None and "behavior up to" not in line:
                r.error = line
            m = re.match(r"^<(\w+) line \d+, col \d+ to line \d+, col \d+ of module (\w+)>: (\d+):(\d+)", line)
            if m:
                r.coverage[m.group(1)] = r.coverage.get(m.group(1), 0) + int(m.group(4))
            if line.startswith("<<") and not line.startswith('<<"BEHAVIOUR"'):
                r.prints.append(line)
        r.ok = (p.returncode == 0 and r.violated is None and r.error is None)
        if not simulate and r.ok and "Model checking completed" not in p.stdout:
            r.ok = False
            r.error = "TLC did not complete"
        return r
    finally:
        shutil.rmtree(d, ignore_errors=True)


def gen_behaviours(module, constants, num, depth, seed, spec="Spec", invariant="Dump", timeout=600, dedup=True):
    r = run_tlc(module, cfg=dict(spec=spec, constants=constants, invariants=[invariant]),
                simulate=num, depth=depth, seed=seed, timeout=timeout, name=module + "-gen")
    if r.error or r.violated:
        raise MachineryError("behaviour generation failed for %s: %s %s\n%s" % (module, r.error, r.violated, r.out[-3000:]))
    behs = r.behaviours
    if dedup:
        seen, out = set(), []
        for b in behs:
            k = json.dumps(b, sort_keys=True)
            if k not in seen:
                seen.add(k)
                out.append(b)
        behs = out
    return behs, r


# -------------------------------------------------------------- harness ----
def run_harness(cmd, payload, timeout=1800, args=()):
    """payload: dict (mbt.Input). Returns the result dict."""
    build(cmd)
    d = _scratch("h-" + cmd)
    # every temporary directory of the harness (and of its child processes, also those that crash or are killed) goes
    # below one scratch root on tmpfs that is removed afterwards
    shm = None
    if os.path.isdir("/dev/shm"):
        shm = "/dev/shm/verif-h-%d-%s" % (os.getpid(), os.path.basename(d))
        os.makedirs(shm, exist_ok=True)
    try:
        inp, outp = os.path.join(d, "in.json"), os.path.join(d, "out.json")
        with open(inp, "w") as f:
            json.dump(payload, f)
        t = time.time()
        e = env()
        if shm:
            e["VERIF_SHM"] = shm
            e["TMPDIR"] = shm
        p = subprocess.run(["timeout", str(timeout), os.path.join(BUILD, "bin", cmd), inp, outp] + list(args),
                           stdout=subprocess.PIPE, stderr=subprocess.STDOUT, text=True, env=e)
        if p.returncode != 0 or not os.path.exists(outp):
            raise MachineryError("harness %s failed (rc=%s):\n%s" % (cmd, p.returncode, p.stdout[-6000:]))
        with open(outp) as f:
            res = json.load(f)
        res["_wall"] = time.time() - t
        res["_stdout"] = p.stdout[-2000:]
        return res
    finally:
        shutil.rmtree(d, ignore_errors=True)
        if shm:
            shutil.rmtree(shm, ignore_errors=True)


# ------------------------------------------------------- known findings ----
def load_known():
    out = []
    if os.path.exists(KNOWN):
        for line in open(KNOWN):
            line = line.strip()
            if not line or line.startswith("#") or line.startswith("fixed:"):
                continue
            out.append(json.loads(line))
    return out


# ---------------------------------------------------------------- Check ----
class Check:
    def __init__(self, prop, tier, seed):
        self.prop, self.tier, self.seed = prop, tier, seed
        self.t0 = time.time()
        self.states = 0
        self.transitions = 0
        self.traces = 0
        self.samples = []
        self.violations = []   # dicts: what, replay payload
        self.known_hits = {}   # finding id -> count
        self.extra = {}
        self.assumptions = []
        self.errors = []
        self.exhaustive = False
        self.known = [k for k in load_known() if k.get("property") == prop]

    def add_tlc(self, r, label, must_hold=True):
        self.states += r.distinct or r.generated
        self.transitions += r.generated
        self.extra.setdefault("tlc_runs", []).append(
            dict(label=label, generated=r.generated, distinct=r.distinct, depth=r.depth, wall_s=round(r.wall, 1),
                 violated=r.violated, error=r.error))
        if must_hold and not r.ok:
            # a counterexample in the model is not a verdict about the code
            self.errors.append("TLC run '%s' did not pass: violated=%s error=%s\n%s" % (label, r.violated, r.error, r.out[-3000:]))

    def add_harness(self, res, payload, label):
        self.traces += res.get("executed", 0)
        h = self.extra.setdefault("harness_runs", [])
        h.append(dict(label=label, behaviours=len(payload.get("behaviours", [])), executed=res.get("executed", 0),
                      steps=res.get("steps", 0), drift=res.get("drift", 0), drift_notes=res.get("drift_notes", [])[:5],
                      counters=res.get("counters", {}), violations=len(res.get("violations", [])),
                      wall_s=round(res.get("_wall", 0), 1)))
        for e in res.get("errors", []):
            self.errors.append("harness %s: %s" % (label, e))
        for s in res.get("samples", [])[:3]:
            self.samples.append(s)
        n = len(payload.get("behaviours", []))
        if n and res.get("drift", 0) * 5 > n * 4:
            self.errors.append("harness %s: %d of %d behaviours could not be replayed (model drift): %s" %
                               (label, res["drift"], n, res.get("drift_notes", [])[:3]))
        for v in res.get("violations", []):
            if v.get("property", self.prop) != self.prop:
                continue
            one = dict(payload)
            if "behaviours" in payload and payload["behaviours"]:
                one["behaviours"] = [payload["behaviours"][v.get("behaviour", 0)]]
            one["violation"] = v
            self.add_violation(v.get("what", "?"), one, known=v.get("known"))

    def add_violation(self, what, replay_payload, known=None):
        if known:
            for k in self.known:
                if k.get("id") == known:
                    self.known_hits[known] = self.known_hits.get(known, 0) + 1
                    return
        self.violations.append(dict(what=what, payload=replay_payload))

    def sample(self, s):
        if len(self.samples) < 6:
            self.samples.append(s)

    def finish(self, rule=""):
        os.makedirs(EVID, exist_ok=True)
        wall = time.time() - self.t0
        lines = []
        for k in self.known:
            if self.known_hits.get(k["id"]):
                lines.append("KNOWN-FINDING: property=%s %s %s" % (self.prop, k["id"], k.get("what", "")))
        paths = []
        if self.violations:
            os.makedirs(REPLAYS, exist_ok=True)
        for v in self.violations[:10]:
            blob = json.dumps(v["payload"], sort_keys=True)
            h = hashlib.sha1(blob.encode()).hexdigest()[:10]
            path = os.path.join(REPLAYS, "%s-%s.json" % (self.prop, h))
            with open(path, "w") as f:
                f.write(blob)
            paths.append(path)
            lines.append("VIOLATION property=%s replay=%s" % (self.prop, path))
            log("  what: %s" % v["what"])
        cov = dict(states=max(self.states, 0), transitions=max(self.transitions, 0),
                   traces_validated_against_impl=self.traces, samples=self.samples[:6] or ["(none)"],
                   exhaustive=self.exhaustive, rule=rule)
        cov.update(self.extra)
        cov["known_findings_matched"] = self.known_hits
        ev = dict(property_id=self.prop, tier=self.tier, seed=self.seed, level="model_checking", coverage=cov,
                  assumptions=self.assumptions, wall_s=round(wall, 1), violations=len(self.violations))
        if self.errors:
            ev["coverage"]["machinery_errors"] = self.errors[:5]
        with open(os.path.join(EVID, self.prop + ".json"), "w") as f:
            json.dump(ev, f, indent=1)
        for l in lines:
            print(l, flush=True)
        if self.violations:
            sys.exit(1)
        if self.errors:
            for e in self.errors:
                log("MACHINERY ERROR: " + e)
            sys.exit(2)
        print("OK property=%s tier=%s seed=%d states=%d traces=%d wall=%.0fs" %
              (self.prop, self.tier, self.seed, self.states, self.traces, wall), flush=True)
        sys.exit(0)


# ------------------------------------------------------ trace validation ----
def validate_trace(module, constants, events, invariants=(), spec="TraceSpec", postcondition="TraceAccepted",
                   timeout=900, dfs=False, name=None):
    """events: list of dicts (one trace line each; runs separated by {"op": "Reset"} or whatever the trace
    spec uses). Returns (accepted, rejected_at (1-based line) or None, TlcResult).
    The trace spec must read "trace.ndjson" and define the POSTCONDITION printing
    <<"TRACE-REJECTED-AT", d, json>> on rejection."""
    nd = "\n".join(json.dumps(e, sort_keys=True) for e in events) + "\n"
    r = run_tlc(module, cfg=dict(spec=spec, constants=constants, invariants=list(invariants), postcondition=postcondition),
                workers=1, timeout=timeout, files={"trace.ndjson": nd}, name=name or module, dfs=dfs)
    rejected_at = None
    for line in r.prints:
        m = re.match(r'^<<"TRACE-REJECTED-AT", (\d+),', line)
        if m:
            rejected_at = int(m.group(1))
    if rejected_at is not None:
        return False, rejected_at, r
    if r.violated:  # an invariant of the spec failed on a state reached by the recorded trace
        return False, max(r.depth, 1), r
    if not r.ok:
        raise MachineryError("trace validation of %s did not run: %s\n%s" % (module, r.error, r.out[-3000:]))
    return True, None, r


def split_runs(events, sep_key="op", sep_val="Reset"):
    """-> list of (first_line_1based, [events]) for the runs between separators"""
    runs, cur, start = [], [], 1
    for i, e in enumerate(events, 1):
        if e.get(sep_key) == sep_val:
            runs.append((start, cur))
            cur, start = [], i + 1
        else:
            cur.append(e)
    runs.append((start, cur))
    return [r for r in runs if r[1]]


def gen_counterexamples(module, constants, limit=12, num=3000, depth=60, seed=1, timeout=120, invariant="CexDump", spec="Spec"):
    """Random simulation whose only 'invariant' prints the history of every bad state it meets (the spec's
    CexDump); returns up to `limit` distinct counterexample behaviours, shortest first. Used with a Dev_*
    constant switched on: the behaviours are then replayed on the real code, which must NOT reproduce them."""
    r = run_tlc(module, cfg=dict(spec=spec, constants=constants, invariants=[invariant]), simulate=num, depth=depth, seed=seed,
                timeout=timeout, name=module + "-cex")
    if r.error and "timeout" not in r.error:
        raise MachineryError("counterexample generation failed for %s: %s\n%s" % (module, r.error, r.out[-3000:]))
    seen, out = set(), []
    for b in sorted(r.behaviours, key=len):
        k = json.dumps(b, sort_keys=True)
        # a longer behaviour that extends an already kept one adds nothing
        if k in seen or any(b[:len(o)] == o for o in out):
            continue
        seen.add(k)
        out.append(b)
        if len(out) >= limit:
            break
    return out, r
